#!/bin/sh
# Offline setup: verify the tools, parse every TLA+ module with SANY.
set -e
cd "$(dirname "$0")"
command -v java >/dev/null
test -f /opt/veriftools/tla/tla2tools.jar
test -x /venv/bin/python
PYTHONPATH=/repo:./harness /venv/bin/python harness/selftest.py
