"""C16 - BinaryImage: composition, validation, file formats preserve bytes and addresses.

spec/C16/BinImage.tla is the literal reading of the property (Len, Abs, the source of every exported byte, Valid) plus the
composition history as a state machine; ImgFiles.tla holds the acceptance automata of Intel-HEX / S-record / BIN files.
 MC    : BinImageMC (composition histories on a small menu, action lemmas) and BinImageTrees (every tree of a bounded space
         is an initial state; lemmas on each)
 GEN   : BinImageTrees emits every tree, BinImageGen emits histories (exhaustive on small menus, -simulate on big ones)
 OFFS  : BinImageOffs enumerates trees by the OFFSET CLASS of every image below the root (wholly in front of its parent / straddling
         offset 0 / at 0 / inside / touching the end / sticking out behind / wholly behind), for images without sub-images and for
         images that hold sub-images, at depth 2..4, inside parents with explicit and derived size; TLC emits the realised class of
         every image with the tree and the driver demands that every cell was reached by a tree with no other defect
 CFG   : BinImageCfg enumerates merge configurations (regions in listing order: pattern blocks, plain binary files, HEX / S19 files
         with their own addresses; offset given - 0 included - or omitted; any listing order) and checks the configuration lemmas;
         each is built through the real BinaryImage.load_from_config (dictionary / YAML / JSON + check_config) and the resulting
         tree is decided by the same spec as the trees built through the API (action Config of BinImage.tla)
 replay: each tree / history is built on real spsdk.utils.images.BinaryImage objects; len(), absolute_address, validate(),
         export() are recorded; valid trees are rebased to 32-bit addresses, saved as BIN / HEX / S19 (the records of the file
         are logged raw) and loaded again (the loaded image is logged); files of an independent encoder are loaded as well
 TV    : TLC (BinImageTrace) recomputes every logged number and rejects a trace whose observation the R-spec does not allow.
Python only executes and records; the only facts it evaluates itself are `textlike` (is a BIN payload decodable text / ELF magic,
by Python's own open(..., 'r')) and the hex-pair tokenisation of file lines.
"""
import json
import os

from lib import tlc
from lib.common import ROOT, Machinery, import_spsdk, rng, say, scratch, sha
from lib.par import pmap
from lib.ptv import check_complete, prun, ptv
from lib.verdict import Verdict

PROP = "C16"
PAT_MENU = [
    {"kind": "none", "b": []}, {"kind": "none", "b": []}, {"kind": "zeros", "b": []}, {"kind": "ones", "b": []}, {"kind": "inc", "b": []},
    {"kind": "bytes", "b": [165]}, {"kind": "bytes", "b": [18, 52]}, {"kind": "bytes", "b": [1, 2, 3]}, {"kind": "bytes", "b": [222, 173, 190, 239]},
]
RAND = {"kind": "rand", "b": []}
MAXBYTES = 200000
ANCH = os.path.join(ROOT, "anchors", "C16")
TV_ENV = {"JAVA_TOOL_OPTIONS": "-XX:ParallelGCThreads=2 -Xss64m"}  # deep (per record / per byte) recursion of the file automata


# ------------------------------------------------------------------ helpers
def limbs(a):
    if not isinstance(a, int) or isinstance(a, bool) or a < 0 or a >= 1 << 32:
        return [-1, -1]
    return [a >> 16, a & 0xFFFF]


def data_byte(n, i):
    return 128 + ((n - 1) % 8) * 16 + (i % 16)


def mk_pattern(pat, r):
    from spsdk.utils.misc import BinaryPattern

    k = pat["kind"]
    if k == "none":
        return None
    if k in ("zeros", "ones", "inc", "rand"):
        return BinaryPattern(k)
    v = int.from_bytes(bytes(pat["b"]), "big")
    w = 2 * len(pat["b"])
    if len(pat["b"]) == 1 and r.random() < 0.3:
        return BinaryPattern(str(v))
    return BinaryPattern(f"0x{v:0{w}x}")


def exec_rec(x):
    return {"k": "none", "v": [0, 0]} if x is None else {"k": "addr", "v": limbs(x)}


class Crash(Exception):
    def __init__(self, of, exc):
        super().__init__(of)
        self.of = of
        self.exc = exc


class Real:
    """Real BinaryImage objects, addressed by the node ids of the spec."""

    def __init__(self):
        self.img = {}
        self.dead = set()

    def ids(self):
        return sorted(self.img)

    def alive(self, n):
        return n in self.img and n not in self.dead

    def root_of(self, n):
        im = self.img[n]
        while im.parent is not None:
            im = im.parent
        return next(k for k, v in self.img.items() if v is im)

    def roots(self):
        return [n for n in self.ids() if self.alive(n) and self.img[n].parent is None]

    def new(self, n, off, size, al, data, pat, r):
        from spsdk.utils.images import BinaryImage

        binary = bytes(data) if data else r.choice([None, b""])
        self.img[n] = BinaryImage(name=f"n{n}", size=size, offset=off, alignment=al, binary=binary, pattern=mk_pattern(pat, r))

    def descendants(self, n):
        out, todo = [], list(self.img[n].sub_images)
        while todo:
            x = todo.pop()
            out.append(x)
            todo += list(x.sub_images)
        ids = {id(v): k for k, v in self.img.items()}
        return [ids[id(x)] for x in out if id(x) in ids]

    def projection(self):
        ln, ab = [], []
        for n in range(1, max(self.img) + 1):
            if self.alive(n):
                ln.append(int(len(self.img[n])))
                ab.append(int(self.img[n].absolute_address))
            else:
                ln.append(0)
                ab.append(0)
        return {"len": ln, "abs": ab}

    def ev_validate(self, n):
        from spsdk.exceptions import SPSDKError

        try:
            self.img[n].validate()
            res = "ok"
        except SPSDKError:
            res = "error"
        except Exception as e:  # noqa: BLE001 - recorded, decided by the spec
            res = "crash:" + type(e).__name__
        return {"a": "Validate", "n": n, "res": res}

    def ev_export(self, n):
        try:
            d = self.img[n].export()
            if not isinstance(d, (bytes, bytearray)):
                return {"a": "Export", "n": n, "ex": "badtype", "d": []}
            if len(d) > MAXBYTES:
                return {"a": "Export", "n": n, "ex": "toolong", "d": []}
            return {"a": "Export", "n": n, "ex": "ok", "d": list(d)}
        except Exception as e:  # noqa: BLE001 - for invalid trees the property defines only the verdict; decided by the spec
            return {"a": "Export", "n": n, "ex": "raised:" + type(e).__name__, "d": []}

    def apply(self, a, r):
        """One spec action on the real objects -> the event with the post-projection."""
        k = a["a"]
        ev = dict(a)
        try:
            if k == "New":
                self.new(a["n"], a["off"], a["size"], a["al"], a["data"], a["pat"], r)
            elif k == "Add":
                self.img[a["p"]].add_image(self.img[a["c"]])
            elif k == "Append":
                self.img[a["p"]].append_image(self.img[a["c"]])
            elif k == "SetSize":
                self.img[a["n"]].size = a["s"]
            elif k == "Join":
                gone = self.descendants(a["n"])
                self.img[a["n"]].join_images()
                self.dead |= set(gone)
            elif k == "UpdateOffsets":
                self.img[a["n"]].update_offsets()
            else:
                raise Machinery(f"unknown action {k}")
            ev.update(self.projection())
        except Machinery:
            raise
        except Exception as e:  # noqa: BLE001 - a crash of a public operation is an observation (no spec action matches it)
            raise Crash(k, type(e).__name__) from e
        return ev


# ------------------------------------------------------------------ file formats
def tokenize(fmt, raw):
    """File content -> records [{"t", "b"}] (raw bytes of every line; nothing is interpreted here)."""
    if fmt == "BIN":
        return [{"t": 0, "b": list(raw)}]
    recs = []
    for line in raw.decode("latin-1").splitlines():
        line = line.strip()
        if not line:
            continue
        try:
            if fmt == "HEX":
                if line[0] != ":":
                    raise ValueError
                recs.append({"t": 0, "b": list(bytes.fromhex(line[1:]))})
            else:
                if line[0] != "S" or not line[1].isdigit():
                    raise ValueError
                recs.append({"t": int(line[1]), "b": list(bytes.fromhex(line[2:]))})
        except (ValueError, IndexError):
            recs.append({"t": 4, "b": []})  # malformed line: no automaton accepts it
    return recs


def has_data(fmt, recs):
    if fmt == "BIN":
        return len(recs[0]["b"]) > 0
    if fmt == "HEX":
        return any(len(x["b"]) > 5 and x["b"][3] == 0 for x in recs)
    return any(x["t"] in (1, 2, 3) for x in recs)


def sniffable(path):
    """Independent fact: would a format sniffer see text (or an ELF magic) in this file?"""
    with open(path, "rb") as f:
        if f.read(4) == b"\x7fELF":
            return True
    try:
        with open(path, "r") as f:
            f.read()
        return True
    except UnicodeDecodeError:
        return False


def ev_load(path, fmt, base):
    from spsdk.exceptions import SPSDKError
    from spsdk.utils.images import BinaryImage

    ev = {"a": "Load", "fmt": fmt, "res": "ok", "textlike": sniffable(path) if fmt == "BIN" else False, "abs": [0, 0], "len": 0, "segs": [],
          "exec": exec_rec(None), "d": []}
    try:
        img = BinaryImage.load_binary_image(path, offset=base if fmt == "BIN" else 0)
        ev["abs"] = limbs(img.absolute_address)
        ev["len"] = int(len(img))
        if ev["len"] > MAXBYTES:
            ev["res"] = "toolong"
            return ev
        ev["segs"] = [{"at": limbs(s.absolute_address), "d": list(s.export())} for s in img.sub_images]
        ev["exec"] = exec_rec(img.execution_start_address)
        ev["d"] = list(img.export())
    except SPSDKError:
        ev["res"] = "refused"
    except Exception as e:  # noqa: BLE001
        ev["res"] = "crash:" + type(e).__name__
    return ev


def format_events(img, n, fmt, base, exe, tag):
    """Rebase image `img` (node n) to `base`, save it as `fmt`, log the file, load it again, log the result."""
    path = os.path.join(scratch(), f"c16-{os.getpid()}-{tag}.{fmt.lower()}")
    img.offset = base
    img.execution_start_address = exe
    try:
        img.save_binary_image(path, fmt)
        with open(path, "rb") as f:
            raw = f.read()
    except Exception as e:  # noqa: BLE001
        return [{"a": "Crash", "of": "Save" + fmt, "exc": type(e).__name__}]
    recs = tokenize(fmt, raw)
    evs = [{"a": "File", "fmt": fmt, "n": n, "base": limbs(base), "exec": exec_rec(exe), "recs": recs}]
    if has_data(fmt, recs):
        evs.append(ev_load(path, fmt, base))
    os.remove(path)
    return evs


def base_classes(r, length):
    """(class name, base address) choices for an image of `length` bytes (end <= 2^32)."""
    out = [("0", 0), ("2^31", 1 << 31), ("2^32-16-len", (1 << 32) - 16 - length), ("2^32-len", (1 << 32) - length),
           ("rand32", r.randrange(0, (1 << 32) - length + 1)), ("2^16+", r.randrange(1 << 16, 1 << 20)), ("small", r.randrange(1, 4096))]
    if length >= 2:
        out.append(("straddle-2^16", (1 << 16) - r.randrange(1, length)))
        out.append(("straddle-2^31", (1 << 31) - r.randrange(1, length)))
    else:
        out.append(("2^16-1", (1 << 16) - 1))
    return out


# ------------------------------------------------------------------ static trees
def concretise_tree(abstract, r, plain=False):
    """TLC tuple <<par, off, size, al, binlen>> per node -> node descriptions with patterns and contents."""
    nodes = []
    for k, (par, off, size, al, bl) in enumerate(abstract, start=1):
        pat = r.choice(PAT_MENU) if not plain else PAT_MENU[0]
        if not plain and r.random() < 0.03:
            pat = RAND
        if r.random() < 0.8:
            data = [data_byte(k, i) for i in range(bl)]
        else:
            data = [r.randrange(256) for _ in range(bl)]
        nodes.append({"par": par, "off": off, "size": size, "al": al, "data": data, "pat": pat})
    return nodes


def replay_tree(nodes, tid, r, fmt=None, all_nodes=False):
    """Build the tree with add_image (random order), observe, optionally run one file-format round trip."""
    real = Real()
    evs = []
    recipe = {"kind": "tree", "nodes": nodes, "fmt": fmt, "all_nodes": all_nodes}
    try:
        for k, nd in enumerate(nodes, start=1):
            real.new(k, nd["off"], nd["size"], nd["al"], nd["data"], nd["pat"], r)
        order = list(range(2, len(nodes) + 1))
        r.shuffle(order)
        for k in order:
            real.img[nodes[k - 1]["par"]].add_image(real.img[k])
        ev = {"a": "Tree", "nodes": nodes}
        ev.update(real.projection())
        evs.append(ev)
    except Exception as e:  # noqa: BLE001
        evs.append({"a": "Crash", "of": "Tree", "exc": type(e).__name__})
        return {"id": tid, "ev": evs, "recipe": recipe, "cls": "tree"}
    watch = real.ids() if all_nodes else [1]
    for n in watch:
        evs.append(real.ev_validate(n))
        evs.append(real.ev_export(n))
    cls = "tree"
    if fmt and evs[1]["res"] == "ok" and evs[2]["ex"] == "ok" and len(evs[2]["d"]) >= 1 and not any(nd["pat"]["kind"] == "rand" for nd in nodes):
        length = len(evs[2]["d"])
        bases = dict(base_classes(r, length))
        bname = fmt["base"] if fmt["base"] in bases else "0"
        exe = None if fmt["exec"] == "none" else {"base": bases[bname], "rand": r.randrange(1 << 32), "top": (1 << 32) - 1, "zero": 0}[fmt["exec"]]
        evs += format_events(real.img[1], 1, fmt["fmt"], bases[bname], exe, tid)
        cls = f"fmt/{fmt['fmt']}/{bname}"
    return {"id": tid, "ev": evs, "recipe": recipe, "cls": cls}


def random_tree(r, big=False, front=False):
    """Seeded random tree beyond the enumerated space (depth <= 4, bigger numbers, all patterns); front: one image below the root
    (with or without sub-images, at any depth) is moved in front of its parent (negative offset: wholly in front or straddling 0)."""
    n = r.randrange(1, 8 if big else 6)
    nodes = []
    depth = {0: 0}
    for k in range(1, n + 1):
        par = 0 if k == 1 else r.choice([p for p in range(1, k) if depth[p] < 4])
        depth[k] = depth[par] + 1
        al = r.choice([1, 1, 1, 2, 4, 8, 16, 3])
        bl = r.choice([0, 0, 1, 2, 3, 4, 5, 8, 13, 16, 33]) if not big else r.choice([0, 1, 7, 32, 33, 64, 100, 255, 300])
        size = r.choice([0, 0, 0, bl, bl + 1, bl + r.randrange(0, 20), r.randrange(1, 80)])
        if size and (size + al - 1) // al * al < bl:
            size = 0
        off = 0 if k == 1 else r.choice([0, 1, 2, 3, 4, 5, 8, 16, r.randrange(0, 48), r.randrange(0, 300 if big else 64)])
        pat = r.choice(PAT_MENU)
        data = [data_byte(k, i) for i in range(bl)] if r.random() < 0.5 else [r.randrange(256) for _ in range(bl)]
        nodes.append({"par": par, "off": off, "size": size, "al": al, "data": data, "pat": pat})
    if front and n >= 2:
        nd = r.choice(nodes[1:])
        nd["off"] = -r.choice([1, 1, 2, 3, max(1, nd["size"] or len(nd["data"])), r.randrange(1, 64)])
    return nodes


def packed_tree(r, big=False, front=False):
    """Random tree that is valid by construction (children one after the other with small gaps): feeds the format lanes.
    front: afterwards ONE image below the root is moved in front of its parent - the only defect of the tree."""
    nodes = []

    def up(n, a):
        return (n + a - 1) // a * a

    def sub(depth, par):
        k = len(nodes) + 1
        al = r.choice([1, 1, 2, 4, 8])
        nd = {"par": par, "off": 0, "size": 0, "al": al, "data": [], "pat": r.choice(PAT_MENU)}
        nodes.append(nd)
        if depth == 0 or r.random() < 0.4:
            bl = r.choice([1, 2, 3, 5, 8, 16, 31, 32, 33, 64] + ([100, 255, 256, 257, 600] if big else []))
            nd["data"] = [data_byte(k, i) for i in range(bl)] if r.random() < 0.3 else [r.randrange(256) for _ in range(bl)]
            nd["size"] = r.choice([0, 0, bl, bl + r.randrange(0, 9)])
            return k, up(nd["size"] or bl, al)
        cur = r.choice([0, 0, 1, 4, 16] + ([300] if big else []))
        end = 0
        for _ in range(r.randrange(1, 4)):
            kid, ln = sub(depth - 1, k)
            nodes[kid - 1]["off"] = cur
            end = cur + ln
            cur = end + r.choice([0, 0, 1, 3, 8, 16] + ([70, 256] if big else []))
        if r.random() < 0.3:
            nd["size"] = end + r.randrange(0, 9)
        return k, up(nd["size"] or end, al)

    sub(r.randrange(1, 4), 0)
    if front and len(nodes) >= 2:
        nd = r.choice(nodes[1:])
        nd["off"] = -r.choice([1, 2, max(1, nd["size"] or len(nd["data"])), r.randrange(1, 40)])
    return nodes


# ------------------------------------------------------------------ merge configurations (BinaryImage.load_from_config)
FILE_BASES = [0x40, 0x1000, 0xFFF0, 0x10000, 0x0FFFFF00, 0x10000000, 0x3FFFFF00]   # own addresses of HEX / S19 region files (< 2^30: TLC integers)
NONE_PAT = {"kind": "none", "b": []}
ENTRIES = ["dict", "yaml", "json"]


def entry_of(i):
    """Entry point of configuration i: every 8th through a YAML file, every 16th through a JSON file (each with check_config: the schema is
    compiled anew every time, ~15 ms), the others hand the dictionary to load_from_config directly."""
    return "yaml" if i % 8 == 1 else "json" if i % 16 == 3 else "dict"


def file_bytes(w, n, r, binary):
    d = [data_byte(w, i) for i in range(n)] if r.random() < 0.7 else [r.randrange(256) for _ in range(n)]
    if binary and d:
        d[0] = 0x80 | (d[0] & 0x3F)  # a UTF-8 continuation byte in front: the payload of a plain binary region is never decodable text
    return d


def concretise_cfg(abstract, r):
    """TLC tuple <<overall size, alignment, <<kind, hasoff, landing offset, n>>...>> -> configuration with patterns, contents, file formats
    and the addresses the HEX / S19 files carry (offset = landing offset - first address of the file; may be negative)."""
    size, al, regs = abstract
    regions, w = [], 2
    for kind, hasoff, land, n in regs:
        if kind == "block":
            regions.append({"kind": "block", "hasoff": bool(hasoff), "off": land, "size": n, "pat": RAND if r.random() < 0.02 else r.choice(PAT_MENU[2:]),
                            "segs": [], "fmt": "-"})
            w += 1
            continue
        nseg = 2 if kind == "hex2" else 1
        base = 0
        if kind != "bin" and hasoff:
            base = land if land >= 0 and r.random() < 0.25 else r.choice(FILE_BASES)   # base = landing offset: `offset: 0` on a file with addresses
        segs, at = [], base
        for i in range(nseg):
            ln = n if i == 0 else r.choice([1, 2, 5])
            segs.append({"at": at, "d": file_bytes(w + 1 + i, ln, r, kind == "bin")})
            at += ln + r.choice([1, 2, 7])
        regions.append({"kind": "file", "hasoff": bool(hasoff), "off": land - base, "size": 0, "pat": NONE_PAT, "segs": segs,
                        "fmt": "BIN" if kind == "bin" else r.choice(["HEX", "S19"])})
        w += 1 + nseg
    return {"size": size, "al": al, "pat": r.choice(PAT_MENU[1:]), "regions": regions}


def random_cfg(r, big=False, front=False):
    """Seeded random configuration beyond the enumerated space (1..5 regions, bigger numbers, 1..3 segments per file, empty blocks);
    front: one region with an offset lands below 0.  (Nothing is listed behind regions that all end below 0: what "after the previous one"
    means there is not settled, and load_from_config refuses such a configuration itself - see Listable in BinImageCfg.tla.)"""
    al = r.choice([1, 1, 2, 4, 8, 16, 3])
    regs, w, cur = [], 2, 0
    nreg = r.randrange(1, 6)
    neg_at = r.randrange(nreg) if front else -1
    top = None                                            # end of everything listed so far (None: nothing listed)
    for k in range(nreg):
        if top is not None and top < 0:
            break
        hasoff = r.random() < 0.6 or k == neg_at
        land = r.choice([0, 0, 1, 4, 8, 16, cur, cur + r.randrange(0, 9), r.randrange(0, 400 if big else 64)]) if hasoff else 0
        if k == neg_at:
            land = -r.choice([1, 2, 3, 4, 8, r.randrange(1, 64)])
        if r.random() < 0.45:
            n = r.choice([0, 1, 2, 3, 4, 7, 8, 16, 33] + ([100, 300] if big else []))
            regs.append({"kind": "block", "hasoff": hasoff, "off": land, "size": n, "pat": r.choice(PAT_MENU[2:]), "segs": [], "fmt": "-"})
            w += 1
            cur = max(cur, land + n)
            end = land + n if hasoff else 0                # (only the sign of `top` is used: a region without offset ends at or behind 0)
            top = end if top is None else max(top, end)
            continue
        fmt = r.choice(["BIN", "BIN", "HEX", "S19"])
        nseg = 1 if fmt == "BIN" else r.randrange(1, 4)
        base = r.choice([0] + FILE_BASES) if fmt != "BIN" and hasoff else 0
        segs, at = [], base
        for i in range(nseg):
            ln = r.choice([1, 2, 3, 4, 5, 8, 16, 17, 32] + ([100, 255, 300] if big else []))
            segs.append({"at": at, "d": file_bytes(w + 1 + i, ln, r, fmt == "BIN")})
            at += ln + r.choice([1, 2, 3, 16, 70])
        regs.append({"kind": "file", "hasoff": hasoff, "off": land - base, "size": 0, "pat": NONE_PAT, "segs": segs, "fmt": fmt})
        w += 1 + nseg
        cur = max(cur, land + segs[-1]["at"] + len(segs[-1]["d"]) - base)
        end = land + segs[-1]["at"] + len(segs[-1]["d"]) - base if hasoff else 0
        top = end if top is None else max(top, end)
    size = r.choice([0, 0, 0, 0, cur, cur + r.randrange(0, 20), r.randrange(1, 80)])
    return {"size": size, "al": al, "pat": r.choice(PAT_MENU[1:]), "regions": regs}


def pat_value(pat, r):
    if pat["kind"] != "bytes":
        return pat["kind"]
    v = int.from_bytes(bytes(pat["b"]), "big")
    return v if r.random() < 0.4 else f"0x{v:0{2 * len(pat['b'])}x}"   # a number or a string holding one (first byte of the menu patterns is not 0)


def cfg_document(cfg, tid, r):
    """The configuration as a user writes it (keys of sch_binary.yaml); region k is named after the id of its image in the spec."""
    doc = {"name": f"merge {tid}"}
    if cfg["size"] or r.random() < 0.3:
        doc["size"] = cfg["size"]
    if cfg["pat"]["kind"] != "none":
        doc["pattern"] = pat_value(cfg["pat"], r)
    if cfg["al"] != 1 or r.random() < 0.3:
        doc["alignment"] = cfg["al"]
    doc["regions"] = []
    w = 2
    for reg in cfg["regions"]:
        body = {"name": f"n{w}"}
        if reg["kind"] == "block":
            body.update(size=reg["size"], pattern=pat_value(reg["pat"], r))
            w += 1
        else:
            body["path"] = f"t{tid}-n{w}.{reg['fmt'].lower()}"
            w += 1 + len(reg["segs"])
        if reg["hasoff"]:
            body["offset"] = reg["off"]
        doc["regions"].append({"binary_block" if reg["kind"] == "block" else "binary_file": body})
    return doc


def yaml_text(doc, r):
    """Hand-rendered YAML (integers decimal or hexadecimal, strings quoted)."""
    def val(x):
        if isinstance(x, int):
            return hex(x) if x >= 0 and r.random() < 0.5 else str(x)
        return json.dumps(x)

    out = [f"{k}: {val(doc[k])}" for k in doc if k != "regions"] + ["regions:"]
    for reg in doc["regions"]:
        (kind, body), = reg.items()
        out.append(f"  - {kind}:")
        out += [f"      {k}: {val(x)}" for k, x in body.items()]
    return "\n".join(out) + "\n"


def cfg_view(cfg):
    """What the spec sees of a configuration (type-stable records)."""
    return {"size": cfg["size"], "al": cfg["al"], "pat": cfg["pat"],
            "regions": [{k: reg[k] for k in ("kind", "hasoff", "off", "size", "pat", "segs")} for reg in cfg["regions"]]}


def replay_config(cfg, tid, r, entry="dict", adjust=False, all_nodes=False):
    """Write the region files and the configuration, build the tree through load_from_config (as `binary-image merge` does: load_configuration
    + check_config + load_from_config for yaml / json), log where the regions are and the projection of all images, then observe."""
    from spsdk.utils.images import BinaryImage
    from spsdk.utils.misc import load_configuration
    from spsdk.utils.schema_validator import check_config

    recipe = {"kind": "cfg", "cfg": cfg, "entry": entry, "adjust": adjust, "all_nodes": all_nodes}
    out = {"id": tid, "ev": [], "recipe": recipe, "cls": "cfg"}
    evs = out["ev"]
    d = os.path.join(scratch(), f"c16-cfg-{os.getpid()}")   # one folder per worker (rmdir is slow here); the files carry the trace id
    os.makedirs(d, exist_ok=True)
    made = []
    try:
        doc = cfg_document(cfg, tid, r)
        for reg, item in zip(cfg["regions"], doc["regions"]):
            if reg["kind"] != "file":
                continue
            path = os.path.join(d, item["binary_file"]["path"])
            made.append(path)
            segs = [(sg["at"], sg["d"]) for sg in reg["segs"]]
            if reg["fmt"] == "BIN":
                with open(path, "wb") as f:
                    f.write(bytes(segs[0][1]))
                if sniffable(path):
                    raise Machinery(f"generated binary region file is text-like: {segs[0][1]}")
            else:
                text = enc_hex(segs, None, r) if reg["fmt"] == "HEX" else enc_srec(segs, None, r)[0]
                with open(path, "w", newline="") as f:
                    f.write(text)
        try:
            if entry == "dict":
                conf = doc
            else:
                cpath = os.path.join(d, f"t{tid}-merge.{entry}")
                made.append(cpath)
                with open(cpath, "w") as f:
                    f.write(yaml_text(doc, r) if entry == "yaml" else json.dumps(doc, indent=1))
                conf = load_configuration(cpath)
                check_config(conf, BinaryImage.get_validation_schemas(), search_paths=[d])
            im = BinaryImage.load_from_config(conf, search_paths=[d])
        except Exception as e:  # noqa: BLE001 - a configuration of the schema that cannot be loaded is an observation
            evs.append({"a": "Crash", "of": "Config", "exc": type(e).__name__})
            return out
    finally:
        for path in made:
            try:
                os.remove(path)
            except OSError:
                pass
    real = Real()
    try:  # whatever the real objects answer here is an observation: nothing in this block may end the run
        real.img[1] = im
        subs = list(im.sub_images)
        w, place, ok = 2, [], len(subs) == len(cfg["regions"])
        for reg in cfg["regions"]:
            mine = [x for x in subs if x.name == f"n{w}"]
            if not ok or len(mine) != 1:
                ok = False
                break
            real.img[w] = mine[0]
            place.append(int(mine[0].offset))
            if reg["kind"] == "file":
                kids = list(mine[0].sub_images)
                if len(kids) != len(reg["segs"]):
                    ok = False
                    break
                for i, kid in enumerate(kids):
                    real.img[w + 1 + i] = kid
                w += len(kids)
            w += 1
        if not ok:
            evs.append({"a": "Crash", "of": "Config", "exc": "images-differ-from-regions"})
            return out
        ev = {"a": "Config", "cfg": cfg_view(cfg), "place": place}
        ev.update(real.projection())
        evs.append(ev)
    except Exception as e:  # noqa: BLE001
        evs.append({"a": "Crash", "of": "Config", "exc": "projection:" + type(e).__name__})
        return out
    if adjust:  # merge --adjust-offsets
        try:
            evs.append(real.apply({"a": "UpdateOffsets", "n": 1}, r))
        except Crash as c:
            evs.append({"a": "Crash", "of": c.of, "exc": c.exc})
            return out
    for n in (real.ids() if all_nodes else [1]):
        evs.append(real.ev_validate(n))
        evs.append(real.ev_export(n))
    return out


def cfg_place_class(ev):
    """Class of the first region whose place is not one the configuration text allows (for the finding key only)."""
    cfg, al, ends = ev["cfg"], ev["cfg"]["al"], []

    def up(n):
        return (n + al - 1) // al * al

    for k, (reg, p) in enumerate(zip(cfg["regions"], ev["place"])):
        first = reg["segs"][0]["at"] if reg["kind"] == "file" else 0
        rlen = reg["segs"][-1]["at"] + len(reg["segs"][-1]["d"]) - first if reg["kind"] == "file" else reg["size"]
        allowed = {reg["off"] + first} if reg["hasoff"] else {up(e) for e in (ends[-1] if ends else 0, max(ends, default=0)) if e >= 0}
        if p not in allowed:
            off = ("offset-given-0" if reg["off"] == 0 else "offset-given") if reg["hasoff"] else "offset-omitted"
            return f"place/{off}/{'overall-size-explicit' if cfg['size'] else 'overall-size-derived'}/{'first-region' if k == 0 else 'later-region'}"
        ends.append(p + rlen)
    return "projection"


def cfg_export_class(t):
    """Input class of a configuration for an export finding: is a file with several segments listed behind a pattern block?"""
    if t["recipe"]["kind"] != "cfg":
        return ""
    cfg, block_seen = t["recipe"]["cfg"], False
    for reg in cfg["regions"]:
        if reg["kind"] == "block" and reg["pat"] != cfg["pat"]:
            block_seen = True
        if reg["kind"] == "file" and len(reg["segs"]) > 1 and block_seen:
            return "/multi-segment-file-listed-behind-block"
    return "/config"


# ------------------------------------------------------------------ histories
def replay_history(hist, tid, r, watch_all=False):
    """Step a TLC behaviour through real objects; after every action observe the trees it touched."""
    real = Real()
    evs = []
    for a in hist:
        try:
            if a["a"] == "Join":  # the spec joins valid sub-trees only; the real verdict is logged first
                evs.append(real.ev_validate(a["n"]))
            evs.append(real.apply(a, r))
        except Crash as c:
            evs.append({"a": "Crash", "of": c.of, "exc": c.exc})
            break
        if a["a"] == "New" and not watch_all:  # a fresh detached image: observed with its tree later (and at the end in any case)
            continue
        touched = {real.root_of(a[k]) for k in ("n", "p", "c") if k in a and real.alive(a[k])}
        for n in (real.roots() if watch_all else sorted(touched)):
            evs.append(real.ev_validate(n))
            evs.append(real.ev_export(n))
    else:
        for n in real.roots():
            evs.append(real.ev_validate(n))
            evs.append(real.ev_export(n))
    return {"id": tid, "ev": evs, "recipe": {"kind": "hist", "hist": hist}, "cls": "hist"}


def random_history(tid, r, steps):
    """Seeded random composition history chosen against the real objects (code -> spec direction)."""
    real = Real()
    hist = []
    nmax = r.randrange(2, 8)
    for _ in range(steps):
        alive = [n for n in real.ids() if real.alive(n)]
        roots = real.roots()
        k = r.randrange(12)
        a = None
        if k <= 2 or len(alive) < 2:
            if len(real.img) < nmax:
                n = len(real.img) + 1
                al = r.choice([1, 1, 2, 4, 8, 3, 16])
                bl = r.choice([0, 1, 2, 3, 4, 6, 9, 16])
                size = r.choice([0, 0, 0, bl, bl + 1, r.randrange(1, 40)])
                if size and (size + al - 1) // al * al < bl:
                    size = 0
                off = -r.choice([1, 2, 4, 9]) if r.random() < 0.06 else r.choice([0, 0, 1, 2, 3, 4, 7, 8, 15, 16, r.randrange(0, 40)])
                a = {"a": "New", "n": n, "off": off, "size": size, "al": al,
                     "data": [data_byte(n, i) for i in range(bl)] if r.random() < 0.7 else [r.randrange(256) for _ in range(bl)],
                     "pat": RAND if r.random() < 0.03 else r.choice(PAT_MENU)}
        elif k <= 6:
            cands = [(p, c) for p in alive for c in roots if c != real.root_of(p)]
            if cands:
                p, c = r.choice(cands)
                a = {"a": r.choice(["Add", "Add", "Append"]), "p": p, "c": c}
        elif k == 7:
            n = r.choice(alive)
            al = real.img[n].alignment
            s = r.choice([0, 0, r.randrange(1, 60)])
            if s == 0 or (s + al - 1) // al * al >= len(real.img[n].binary or b""):
                a = {"a": "SetSize", "n": n, "s": s}
        elif k <= 9:
            n = r.choice(alive)
            try:
                real.img[n].validate()
                a = {"a": "Join", "n": n}
            except Exception:  # noqa: BLE001 - only steers the choice of the next action; the replay below logs what validate() says
                a = None
        else:
            cands = [n for n in alive if real.img[n].sub_images]
            if cands:
                a = {"a": "UpdateOffsets", "n": r.choice(cands)}
        if a is None:
            continue
        hist.append(a)
        try:
            real.apply(a, r)
        except Crash:
            break
    return replay_history(hist, tid, rng(PROP, "rh", tid))


# ------------------------------------------------------------------ independent encoder lane
def enc_hex(segs, exe, r):
    """Intel-HEX text of segments [(addr, bytes)] written by an encoder of our own (record sizes, 02/04 records vary)."""
    lines = []
    cur_upper = None
    seg_mode = all(a + len(d) <= 0x100000 for a, d in segs) and r.random() < 0.3

    def rec(tt, off, data):
        b = bytes([len(data), off >> 8, off & 0xFF, tt]) + bytes(data)
        return ":" + (b + bytes([(-sum(b)) & 0xFF])).hex().upper()

    order = list(segs)
    if r.random() < 0.3:
        r.shuffle(order)
    for addr, data in order:
        i = 0
        while i < len(data):
            a = addr + i
            n = min(len(data) - i, r.choice([1, 2, 8, 16, 16, 32, 32, 64, 255]), 0x10000 - (a & 0xFFFF))
            if seg_mode:
                sg = (a >> 4) & 0xF000
                if cur_upper != ("s", sg):
                    lines.append(rec(2, 0, [sg >> 8, sg & 0xFF]))
                    cur_upper = ("s", sg)
                n = min(n, 0x10000 - (a - sg * 16))
                lines.append(rec(0, a - sg * 16, data[i:i + n]))
            else:
                up = a >> 16
                if cur_upper != ("l", up) and (up or cur_upper is not None or r.random() < 0.5):
                    lines.append(rec(4, 0, [up >> 8, up & 0xFF]))
                    cur_upper = ("l", up)
                elif cur_upper is None:
                    cur_upper = ("l", 0)
                lines.append(rec(0, a & 0xFFFF, data[i:i + n]))
            i += n
    if exe is not None:
        lines.append(rec(5, 0, list(exe.to_bytes(4, "big"))))
    lines.append(rec(1, 0, []))
    return ("\r\n" if r.random() < 0.2 else "\n").join(lines) + "\n"


def enc_srec(segs, exe, r):
    top = max(a + len(d) for a, d in segs)
    t = 1 if top <= 0x10000 and r.random() < 0.6 else 2 if top <= 0x1000000 and r.random() < 0.6 else 3

    def rec(ty, addr, data):
        alen = {0: 2, 1: 2, 2: 3, 3: 4, 5: 2, 6: 3, 7: 4, 8: 3, 9: 2}[ty]
        b = bytes([alen + len(data) + 1]) + addr.to_bytes(alen, "big") + bytes(data)
        return f"S{ty}" + (b + bytes([0xFF - (sum(b) & 0xFF)])).hex().upper()

    lines = []
    if r.random() < 0.5:
        lines.append(rec(0, 0, list(b"verif")))
    n_data = 0
    order = list(segs)
    if r.random() < 0.3:
        r.shuffle(order)
    for addr, data in order:
        i = 0
        while i < len(data):
            n = min(len(data) - i, r.choice([1, 4, 16, 28, 32, 32, 64, 250]))
            lines.append(rec(t, addr + i, data[i:i + n]))
            n_data += 1
            i += n
    if r.random() < 0.6:
        lines.append(rec(5, n_data, []))
    if exe is not None and exe < 1 << (8 * (t + 1)):
        lines.append(rec({1: 9, 2: 8, 3: 7}[t], exe, []))
    elif exe is not None:
        exe = None
    return "\n".join(lines) + "\n", exe


def raw_file_trace(tid, r):
    """A HEX / S19 file written by our own encoder, loaded by SPSDK."""
    fmt = r.choice(["HEX", "S19"])
    nseg = r.randrange(1, 4)
    base = r.choice([0, 0x100, 0xFFF0, 0xFF00, 0x1FFF8, 0xFFFFF - 40, 0x10000000, 0x7FFFFFF0, 0x7FFFFF00, 0x80000000, 0xFFFFF000, r.randrange(0, 0xFFFF0000)])
    segs, cur = [], base
    for _ in range(nseg):
        cur += r.choice([0, 1, 3, 16, 100, 255, 600]) if segs else 0
        d = [r.randrange(256) for _ in range(r.choice([1, 2, 15, 16, 17, 32, 33, 100, 300]))]
        if cur + len(d) > 1 << 32:
            break
        if segs and cur == segs[-1][0] + len(segs[-1][1]):
            cur += 1  # keep segments apart (adjacent ones would merge, which is fine, but we log what we wrote as separate runs)
        segs.append((cur, d))
        cur += len(d)
    exe = r.choice([None, base, r.randrange(1 << 32), (1 << 32) - 1])
    if fmt == "HEX":
        text = enc_hex(segs, exe, r)
    else:
        text, exe = enc_srec(segs, exe, r)
    return load_raw(tid, fmt, text, segs[0][0])


def load_raw(tid, fmt, text, base):
    path = os.path.join(scratch(), f"c16-{os.getpid()}-raw{tid}.{fmt.lower()}")
    with open(path, "w", newline="") as f:
        f.write(text)
    recs = tokenize(fmt, text.encode())
    evs = [{"a": "RawFile", "fmt": fmt, "base": limbs(base), "recs": recs}, ev_load(path, fmt, 0)]
    os.remove(path)
    return {"id": tid, "ev": evs, "recipe": {"kind": "raw", "fmt": fmt, "text": text, "base": base}, "cls": f"raw/{fmt}"}


# ------------------------------------------------------------------ BIN payloads that look like text formats
LOOKALIKES = [b" ", b"\n", b"q", b"12345678", b"AB CD EF", b":00000001FF", b"S9030000FC", b"\x7fELF\x01\x01\x01", b"//x\n", b"hello", b"\xc2\xa0",
              b":0100000041BE\n:00000001FF\n", b"@100\n12 34\nq\n", b"\x00", b"\xff\xfe", b"0", b"\t\t"]


def lookalike_trace(tid, payload, r):
    nodes = [{"par": 0, "off": 0, "size": 0, "al": 1, "data": list(payload), "pat": PAT_MENU[0]}]
    t = replay_tree(nodes, tid, r, fmt={"fmt": "BIN", "base": "0", "exec": "none"})
    t["cls"] = "fmt/BIN/lookalike"
    return t


# ------------------------------------------------------------------ keys
def boundary_class(t, upto):
    """Coarse class of the layout, from the logged numbers only (len() values logged by the preceding action event)."""
    last = None
    for e in t["ev"][:upto + 1]:
        if "len" in e and "abs" in e and isinstance(e["len"], list):
            last = e
    if t["recipe"]["kind"] == "cfg":
        place = next((e["place"] for e in t["ev"] if e["a"] == "Config"), [])
        kinds = {reg["kind"] for reg, p in zip(t["recipe"]["cfg"]["regions"], place) if p < 0}
        return "layout" if not kinds else "region-in-front-of-image/" + ("block" if kinds == {"block"} else "file")
    if t["recipe"]["kind"] == "hist":
        return "layout/image-created-with-negative-offset" if any(a["a"] == "New" and a["off"] < 0 for a in t["recipe"]["hist"]) else "layout"
    if last is None or t["recipe"]["kind"] != "tree":
        return "layout"
    nodes, ln = t["recipe"]["nodes"], last["len"]
    stick, over = None, None
    if any(nd["par"] and nd["off"] < 0 for nd in nodes):
        kids = {nd["par"] for nd in nodes}
        leaf = all(k not in kids for k, nd in enumerate(nodes, start=1) if nd["par"] and nd["off"] < 0)
        return "child-in-front-of-parent/" + ("image-without-sub-images" if leaf else "image-with-sub-images")
    for k, nd in enumerate(nodes, start=1):
        if nd["par"]:
            s = nd["off"] + ln[k - 1] - ln[nd["par"] - 1]
            stick = s if stick is None else max(stick, s)
            for j, other in enumerate(nodes, start=1):
                if j < k and other["par"] == nd["par"]:
                    o = min(nd["off"] + ln[k - 1], other["off"] + ln[j - 1]) - max(nd["off"], other["off"])
                    over = o if over is None else max(over, o)
    if stick is not None and stick > 0:
        return "child-sticks-out-by-1" if stick == 1 else "child-sticks-out"
    if over is not None and over > 0:
        return "siblings-overlap-by-1" if over == 1 else "siblings-overlap"
    if stick == 0 or over == 0:
        return "touching"
    return "separated"


def key_of(t, matched):
    evs = t["ev"]
    ev = evs[min(matched, len(evs) - 1)]
    a = ev["a"]
    op = "Tree"
    for e in evs[:matched + 1]:
        if e["a"] in ("Tree", "Config", "New", "Add", "Append", "SetSize", "Join", "UpdateOffsets"):
            op = e["a"]
    if a == "Crash" and ev["of"].startswith("Save"):
        # class of the tree from the logged numbers: does it hold an image without a single byte that has a fill pattern?
        lens = next((e["len"] for e in evs if e["a"] == "Tree"), [])
        nodes = t["recipe"].get("nodes", [])
        empty_pat = any(ln == 0 and nd["pat"]["kind"] != "none" for ln, nd in zip(lens, nodes))
        return f"C16/fmt/{ev['of'][4:]}/save/crash:{ev['exc']}/" + ("tree-has-empty-patterned-image" if empty_pat else "no-empty-image")
    if a == "Crash":
        return f"C16/{ev['of']}/crash:{ev['exc']}"
    if a == "Config":
        return f"C16/Config/{cfg_place_class(ev)}"
    if a == "Validate":
        res = ev["res"]
        cls = "accepted-invalid" if res == "ok" else "refused-valid" if res == "error" else res
        return f"C16/{op}/validate/{cls}/{boundary_class(t, matched)}"
    if a == "Export":
        if ev["ex"] != "ok":
            return f"C16/{op}/export/{ev['ex']}"
        ln = None
        for e in evs[:matched]:
            if isinstance(e.get("len"), list) and len(e["len"]) >= ev["n"]:
                ln = e["len"][ev["n"] - 1]
        return f"C16/{op}/export/" + ("length-differs-from-len" if ln is not None and ln != len(ev["d"]) else "bytes") + cfg_export_class(t)
    if a == "File":
        return f"C16/fmt/{ev['fmt']}/file/{t['cls'].split('/')[-1]}"
    if a == "Load":
        if ev["res"] != "ok":
            what = ("text-like-payload" if ev["textlike"] else "binary-payload") if ev["fmt"] == "BIN" else t["cls"].split("/")[-1]
            return f"C16/fmt/{ev['fmt']}/load/{ev['res']}/{what}"
        return f"C16/fmt/{ev['fmt']}/load/{'raw-file' if t['cls'].startswith('raw') else t['cls'].split('/')[-1]}"
    return f"C16/{a}/projection"


def strip(t):
    return {"id": t["id"], "ev": t["ev"]}


def nontrivial_key(t):
    return sha([t["cls"], [{k: v for k, v in e.items() if k not in ("len", "abs", "d", "res", "ex", "place")} for e in t["ev"] if e["a"] not in ("Validate", "Export", "Load")]])


# ------------------------------------------------------------------ run
def canary_good():
    """The uncorrupted canary traces, written by hand from the property text (no SPSDK involved): a tree with a HEX round trip,
    a composition history, and a merge configuration under both readings of an omitted offset.  TLC must accept them at the start
    of every run; anchors/C16/canary_traces.json holds them (regenerate with make_canary() after a change of the trace format)."""
    import random

    none, ones, inc = {"kind": "none", "b": []}, {"kind": "ones", "b": []}, {"kind": "inc", "b": []}
    # -- tree: root (alignment 4, pattern 0x1234) with [144,145,146] at 1 and a 4-byte image ([160] + ones) at 6; length 10 -> 12
    nodes = [{"par": 0, "off": 0, "size": 0, "al": 4, "data": [], "pat": {"kind": "bytes", "b": [18, 52]}},
             {"par": 1, "off": 1, "size": 0, "al": 1, "data": [144, 145, 146], "pat": none},
             {"par": 1, "off": 6, "size": 4, "al": 2, "data": [160], "pat": ones}]
    d = [18, 144, 145, 146, 18, 52, 160, 255, 255, 255, 18, 52]
    base, exe = 0xFFFB, 0x12345678                                  # straddles 2^16
    text = enc_hex([(base, d)], exe, random.Random(16))            # the file is written by the encoder of the raw-file lane
    good = {"id": "good", "cls": "tree", "recipe": {"kind": "tree", "nodes": nodes, "fmt": None, "all_nodes": False}, "ev": [
        {"a": "Tree", "nodes": nodes, "len": [12, 3, 4], "abs": [0, 1, 6]},
        {"a": "Validate", "n": 1, "res": "ok"},
        {"a": "Export", "n": 1, "ex": "ok", "d": d},
        {"a": "File", "fmt": "HEX", "n": 1, "base": limbs(base), "exec": exec_rec(exe), "recs": tokenize("HEX", text.encode())},
        {"a": "Load", "fmt": "HEX", "res": "ok", "textlike": False, "abs": limbs(base), "len": 12, "segs": [{"at": limbs(base), "d": d}],
         "exec": exec_rec(exe), "d": d}]}
    # -- history: add, append, update_offsets, join, size setter on three images
    h = [{"a": "New", "n": 1, "off": 2, "size": 0, "al": 4, "data": [], "pat": ones},
         {"a": "New", "n": 2, "off": 3, "size": 0, "al": 1, "data": [144, 145], "pat": none},
         {"a": "Add", "p": 1, "c": 2}, {"a": "New", "n": 3, "off": 5, "size": 3, "al": 1, "data": [160], "pat": inc},
         {"a": "Append", "p": 1, "c": 3}, {"a": "UpdateOffsets", "n": 1}, {"a": "Join", "n": 1}, {"a": "SetSize", "n": 1, "s": 9}]
    proj = [([0], [2]), ([0, 2], [2, 3]), ([8, 2], [2, 5]), ([8, 2, 3], [2, 5, 5]), ([12, 2, 3], [2, 5, 10]), ([8, 2, 3], [5, 5, 10]),
            ([8, 0, 0], [5, 0, 0]), ([12, 0, 0], [5, 0, 0])]
    exports = {2: [255, 255, 255, 144, 145, 255, 255, 255], 4: [255, 255, 255, 144, 145, 255, 255, 255, 160, 1, 2, 255],
               5: [144, 145, 255, 255, 255, 160, 1, 2], 6: [144, 145, 255, 255, 255, 160, 1, 2], 7: [144, 145, 255, 255, 255, 160, 1, 2, 255, 255, 255, 255]}
    hev = []
    for k, (a, (ln, ab)) in enumerate(zip(h, proj)):
        if a["a"] == "Join":
            hev.append({"a": "Validate", "n": 1, "res": "ok"})
        hev.append(dict(a, len=ln, abs=ab))
        if k in exports:
            hev += [{"a": "Validate", "n": 1, "res": "ok"}, {"a": "Export", "n": 1, "ex": "ok", "d": exports[k]}]
    hev += [{"a": "Validate", "n": 1, "res": "ok"}, {"a": "Export", "n": 1, "ex": "ok", "d": exports[7]}]
    hist = {"id": "hist-good", "cls": "hist", "recipe": {"kind": "hist", "hist": h}, "ev": hev}
    # -- merge configuration: block at 8, a binary file with `offset: 0` listed SECOND, a block without offset; alignment 4, pattern 0xA5
    cfg = {"size": 0, "al": 4, "pat": {"kind": "bytes", "b": [165]}, "regions": [
        {"kind": "block", "hasoff": True, "off": 8, "size": 6, "pat": ones, "segs": []},
        {"kind": "file", "hasoff": True, "off": 0, "size": 0, "pat": none, "segs": [{"at": 0, "d": [129, 130, 131]}]},
        {"kind": "block", "hasoff": False, "off": 0, "size": 2, "pat": inc, "segs": []}]}

    def cfg_trace(tid, place, ln, ab, data):
        ev = [{"a": "Config", "cfg": cfg, "place": place, "len": ln, "abs": ab}]
        if data is not None:
            ev += [{"a": "Validate", "n": 1, "res": "ok"}, {"a": "Export", "n": 1, "ex": "ok", "d": data}]
        return {"id": tid, "cls": "cfg", "recipe": {"kind": "cfg", "cfg": cfg, "entry": "dict", "adjust": False, "all_nodes": False}, "ev": ev}

    # -- a child in FRONT of its parent (negative offset): validate() must report it; export() of such a tree is not asserted
    zeros = {"kind": "zeros", "b": []}
    fnodes = [{"par": 0, "off": 0, "size": 8, "al": 1, "data": [], "pat": zeros},
              {"par": 1, "off": -2, "size": 0, "al": 1, "data": [1, 2, 3, 4], "pat": none}]        # straddles offset 0, no sub-images
    front = {"id": "front-good", "cls": "tree", "recipe": {"kind": "tree", "nodes": fnodes, "fmt": None, "all_nodes": True}, "ev": [
        {"a": "Tree", "nodes": fnodes, "len": [8, 4], "abs": [0, -2]},
        {"a": "Validate", "n": 1, "res": "error"},
        {"a": "Export", "n": 1, "ex": "raised:ValueError", "d": []},          # (whatever export() does with an invalid tree)
        {"a": "Validate", "n": 2, "res": "ok"},                                # (the image on its own: its own offset is no part of its tree)
        {"a": "Export", "n": 2, "ex": "ok", "d": [1, 2, 3, 4]}]}
    dnodes = [{"par": 0, "off": 0, "size": 64, "al": 1, "data": [], "pat": zeros}, {"par": 1, "off": 16, "size": 32, "al": 1, "data": [], "pat": ones},
              {"par": 2, "off": 8, "size": 16, "al": 1, "data": [], "pat": inc}, {"par": 3, "off": 4, "size": 2, "al": 1, "data": [], "pat": ones},
              {"par": 3, "off": -3, "size": 2, "al": 1, "data": [], "pat": {"kind": "bytes", "b": [238]}}]   # depth 4, wholly in front of `low`
    deep = {"id": "front-deep-good", "cls": "tree", "recipe": {"kind": "tree", "nodes": dnodes, "fmt": None, "all_nodes": False}, "ev": [
        {"a": "Tree", "nodes": dnodes, "len": [64, 32, 16, 2, 2], "abs": [0, 16, 24, 28, 21]},
        {"a": "Validate", "n": 1, "res": "error"}]}
    fcfg = {"size": 16, "al": 1, "pat": zeros, "regions": [
        {"kind": "block", "hasoff": True, "off": 4, "size": 4, "pat": ones, "segs": []},
        {"kind": "block", "hasoff": True, "off": -4, "size": 2, "pat": inc, "segs": []}]}

    def fcfg_trace(tid, place, ab, res):
        return {"id": tid, "cls": "cfg", "recipe": {"kind": "cfg", "cfg": fcfg, "entry": "dict", "adjust": False, "all_nodes": False},
                "ev": [{"a": "Config", "cfg": fcfg, "place": place, "len": [16, 4, 2], "abs": ab}, {"a": "Validate", "n": 1, "res": res}]}

    a5 = 165
    return [good, hist, front, deep, fcfg_trace("cfg-front-good", [4, -4], [0, 4, -4], "error"),
            # a self-consistent tree the configuration does not describe: the negative offset clamped to 0
            fcfg_trace("bad-cfg-front-clamped", [4, 0], [0, 4, 0], "ok"),
            # the block without offset behind everything listed before it (18 -> 20 bytes) ...
            cfg_trace("cfg-good", [8, 0, 16], [20, 6, 3, 3, 2], [0, 8, 0, 0, 16], [129, 130, 131] + [a5] * 5 + [255] * 6 + [a5] * 2 + [0, 1] + [a5] * 2),
            # ... or behind the region listed just before it (both readings of "after previous one" are allowed)
            cfg_trace("cfg-good-after-previous", [8, 0, 4], [16, 6, 3, 3, 2], [0, 8, 0, 0, 4], [129, 130, 131, a5, 0, 1, a5, a5] + [255] * 6 + [a5] * 2),
            # self-consistent trees that the configuration does not describe: `offset: 0` taken for "no offset" (appended at 16) ...
            cfg_trace("bad-cfg-offset-0-appended", [8, 16, 20], [24, 6, 3, 3, 2], [0, 8, 16, 16, 20], None),
            # ... and a region without offset placed at the unaligned end
            cfg_trace("bad-cfg-unaligned", [8, 0, 14], [16, 6, 3, 3, 2], [0, 8, 0, 0, 14], None)]


def make_canary():
    """Regenerates anchors/C16/canary_traces.json from the hand-written traces above (SPSDK is not imported):
    VERIF_ROOT=/verif PYTHONPATH=/verif/harness /venv/bin/python -c 'import c16; c16.make_canary()'"""
    traces = canary_good()
    rej, res = tlc.tv("C16", "BinImageTrace", [strip(t) for t in traces], env=TV_ENV)
    check_complete(res, len(traces))
    if set(rej) != {t["id"] for t in traces if t["id"].startswith("bad")}:
        raise Machinery(f"not a good canary: {rej}")
    os.makedirs(ANCH, exist_ok=True)
    with open(os.path.join(ANCH, "canary_traces.json"), "w") as f:
        json.dump(traces, f, indent=0, separators=(",", ":"))
    say(f"wrote {len(traces)} canary traces")


def canary(v):
    """Fixed traces from anchors/C16 (independent of the code under test): the uncorrupted ones must be accepted, every copy with one
    corrupted field (and the stored self-consistent trees a configuration does not describe) must be rejected."""
    with open(os.path.join(ANCH, "canary_traces.json")) as f:
        traces = json.load(f)
    by_id = {t["id"]: t for t in traces}
    good = by_id["good"]
    if [e["a"] for e in good["ev"]] != ["Tree", "Validate", "Export", "File", "Load"]:
        raise Machinery(f"canary trace has an unexpected shape: {[e['a'] for e in good['ev']]}")

    def variant(name, fn, src="good"):
        t = json.loads(json.dumps(by_id[src]))
        t["id"] = name
        fn(t["ev"])
        traces.append(t)

    variant("bad-len", lambda ev: ev[0]["len"].__setitem__(0, ev[0]["len"][0] + 4))
    variant("bad-abs", lambda ev: ev[0]["abs"].__setitem__(2, ev[0]["abs"][2] + 1))
    variant("bad-valid", lambda ev: ev[1].__setitem__("res", "error"))
    variant("bad-valid-front", lambda ev: ev[1].__setitem__("res", "ok"), src="front-good")             # a child in front of its parent accepted
    variant("bad-valid-front-deep", lambda ev: ev[1].__setitem__("res", "ok"), src="front-deep-good")
    variant("bad-valid-front-cfg", lambda ev: ev[1].__setitem__("res", "ok"), src="cfg-front-good")
    variant("bad-abs-front", lambda ev: ev[0]["abs"].__setitem__(1, 2), src="front-good")
    variant("bad-byte", lambda ev: ev[2]["d"].__setitem__(5, ev[2]["d"][5] ^ 1))
    variant("bad-pad", lambda ev: ev[2]["d"].__setitem__(len(ev[2]["d"]) - 1, ev[2]["d"][-1] ^ 0x80))
    variant("bad-cksum", lambda ev: ev[3]["recs"][0]["b"].__setitem__(-1, ev[3]["recs"][0]["b"][-1] ^ 1))
    variant("bad-exec", lambda ev: ev[4]["exec"]["v"].__setitem__(1, ev[4]["exec"]["v"][1] ^ 1))
    variant("bad-segaddr", lambda ev: ev[4]["segs"][0]["at"].__setitem__(1, (ev[4]["segs"][0]["at"][1] + 1) % 65536))
    variant("bad-segbyte", lambda ev: ev[4]["segs"][0]["d"].__setitem__(0, ev[4]["segs"][0]["d"][0] ^ 4))
    variant("bad-hist", lambda ev: next(e for e in ev if e["a"] == "UpdateOffsets")["abs"].__setitem__(0, 6), src="hist-good")
    variant("bad-cfg-place", lambda ev: ev[0]["place"].__setitem__(1, 1), src="cfg-good")                  # the region with `offset: 0` is not at 0
    variant("bad-cfg-abs", lambda ev: ev[0]["abs"].__setitem__(4, 17), src="cfg-good")
    variant("bad-cfg-byte", lambda ev: ev[2]["d"].__setitem__(0, ev[2]["d"][0] ^ 1), src="cfg-good-after-previous")
    rej, res = tlc.tv("C16", "BinImageTrace", [strip(t) for t in traces], env=TV_ENV)
    check_complete(res, len(traces))
    expect = {t["id"] for t in traces if str(t["id"]).startswith("bad")}
    if set(rej) != expect:
        raise Machinery(f"canary failed: rejected {sorted(rej)}, expected {sorted(expect)}")
    v.extra["canary"] = (f"{len(traces) - len(expect)} stored uncorrupted traces accepted (tree + HEX round trip, history, merge configuration under both readings, "
                         "images / regions in front of their parent refused by validate()); "
                         f"{len(expect)} corrupted / non-conformant traces rejected: {sorted(expect)}")
    return good


class Pipeline:
    """Counts, samples and validates batches of traces (so that a thorough run never holds all traces in memory)."""

    def __init__(self, v, jobs, limit):
        self.v, self.jobs, self.limit = v, jobs, limit
        self.buf = []
        self.n_traces = self.n_events = self.n_fmt = self.outside = 0
        self.stats = []
        self.by_class = {}

    def feed(self, traces, sample_at=None):
        v = self.v
        v.count(len(traces))
        for t in traces:
            if any(e["a"] in ("Validate", "Load") for e in t["ev"]):
                v.nontrivial(nontrivial_key(t))
            k = t["cls"].split("/")[0] + ("/" + t["cls"].split("/")[1] if t["cls"].startswith(("fmt", "raw")) else "")
            self.by_class[k] = self.by_class.get(k, 0) + 1
        if sample_at is not None and traces:
            v.sample(strip(traces[min(sample_at, len(traces) - 1)]), limit=6)
        self.n_traces += len(traces)
        self.n_events += sum(len(t["ev"]) for t in traces)
        self.n_fmt += sum(1 for t in traces if any(e["a"] == "Load" for e in t["ev"]))
        self.outside += sum(1 for t in traces for e in t["ev"] if e["a"] == "Load" and e["fmt"] == "BIN" and e["textlike"] and e["res"] == "ok")
        self.buf += traces
        if len(self.buf) >= self.limit:
            self.flush()

    def flush(self):
        v, traces, self.buf = self.v, self.buf, []
        if not traces:
            return
        rej, stats = ptv("C16", "BinImageTrace", [strip(t) for t in traces], jobs=self.jobs, timeout=2400, heap="3g",
                         env=TV_ENV)
        v.traces(len(traces))
        self.stats += stats
        by_id = {t["id"]: t for t in traces}
        for tid, (matched, length, evname) in rej.items():
            t = by_id[tid]
            ev = t["ev"][min(matched, len(t["ev"]) - 1)]
            v.violation(key_of(t, matched), f"trace {tid} ({t['cls']}): event #{matched + 1} ({evname}) is not allowed by the BinaryImage spec: {json.dumps(ev)[:300]}",
                        {"recipe": t["recipe"], "trace": strip(t), "failed_event": matched + 1})


OUT_CLASSES = ("front", "cross", "over", "behind")
IN_CLASSES = ("zero", "inside", "touch")


def offs_reach(offs):
    """The cells of the offset-class lane that TLC's enumeration has to reach (class realised in the finished tree, computed by TLC):
    every way of sticking out x image without / with sub-images x depth 2..4 x parent with explicit / derived size (behind the end: explicit
    only, a derived parent grows) by a tree in which that image is the ONLY defect; every fitting class by a valid tree.  -> (reached, missing)"""
    sole, fits = {}, {}
    for nodes, info, clashes in offs:
        out = [k for k, x in enumerate(info) if x[4] == 1]
        for k, (depth, leaf, cls, pexp, sticks) in enumerate(info):
            if cls == "root":
                continue
            if clashes == 0 and out == [k]:
                sole[(cls, leaf, depth, pexp)] = sole.get((cls, leaf, depth, pexp), 0) + 1
            if clashes == 0 and not out:
                fits[(cls, leaf, depth)] = fits.get((cls, leaf, depth), 0) + 1
    missing = []
    for depth in (2, 3, 4):
        for leaf in (1, 0):
            if depth == 4 and not leaf:
                continue   # (an image with sub-images at depth 4 needs a fifth level)
            missing += [("only-defect", c, leaf, depth, pexp) for c in OUT_CLASSES for pexp in ((1, 0) if c in ("front", "cross") else (1,))
                        if not sole.get((c, leaf, depth, pexp))]
            missing += [("valid", c, leaf, depth) for c in IN_CLASSES if not fits.get((c, leaf, depth))]
    return {"only_defect": {"/".join(map(str, k)): n for k, n in sorted(sole.items())}, "valid": {"/".join(map(str, k)): n for k, n in sorted(fits.items())}}, missing


FMTS = ["BIN", "HEX", "S19"]
BNAMES = ["0", "2^31", "2^32-16-len", "2^32-len", "rand32", "2^16+", "small", "straddle-2^16", "straddle-2^31"]
EXECS = ["none", "base", "rand", "top", "zero"]


def run(tier):
    import_spsdk()
    v = Verdict(PROP, tier)
    quick = tier == "quick"

    good = canary(v)
    say(f"[C16] canary ok ({v.timer.s()}s)")

    # ---- all generating / model-checking TLC runs side by side
    tree_cfgs = ["BinImageTrees.cfg"] if quick else ["BinImageTrees_t3.cfg", "BinImageTrees_t4.cfg"]
    gens = [(2, 5, None), (3, 5, 1000)] if quick else [(2, 5, None), (3, 5, None), (3, 6, 40000)]
    n_sim = 300 if quick else 4000
    jobs = [("mc", ("C16", "BinImageMC", "BinImageMC.cfg"), dict(env={"MC_LEVEL": 4 if quick else 5}, heap="6g", timeout=2400, workers=4 if quick else 8,
                    require_actions=("MCNew", "MCAdd", "MCAppend", "MCSetSize", "MCJoin", "MCUpdateOffsets")))]
    jobs += [("mc", ("C16", "BinImageTrees", cfg), dict(coverage=False, workers=2 if quick else 4, heap="6g", timeout=2400)) for cfg in tree_cfgs]
    jobs += [("run", ("C16", "BinImageGen", "BinImageGen.cfg"), dict(env={"GEN_DEPTH": d, "GEN_MODE": "all", "GEN_NODES": n}, workers=1, deadlock=False, heap="6g", timeout=2400))
             for n, d, _ in gens]
    jobs.append(("run", ("C16", "BinImageGen", "BinImageGenSim.cfg"), dict(env={"GEN_DEPTH": 10, "GEN_MODE": "sim", "GEN_NODES": 0}, workers=1, deadlock=False,
                                                                           simulate=f"num={n_sim}", depth=14, heap="4g", timeout=2400)))
    jobs.append(("mc", ("C16", "BinImageCfg", "BinImageCfg.cfg" if quick else "BinImageCfg_t.cfg"), dict(coverage=False, workers=2 if quick else 4, heap="4g", timeout=2400)))
    # regions that land in front of the merged image / trees by the offset class of every image
    neg_cfgs = ["BinImageCfg_neg.cfg"] if quick else ["BinImageCfg_neg.cfg", "BinImageCfg_neg_t.cfg"]   # (<= 2 regions, 2 / 4 bytes in front; <= 3 regions, 2 bytes)
    jobs += [("mc", ("C16", "BinImageCfg", cfg), dict(coverage=False, workers=2 if quick else 4, heap="4g", timeout=2400)) for cfg in neg_cfgs]
    jobs.append(("mc", ("C16", "BinImageOffs", "BinImageOffs.cfg" if quick else "BinImageOffs_t.cfg"), dict(coverage=False, workers=2 if quick else 4, heap="4g", timeout=2400)))
    res = prun(jobs)
    offs_res = res.pop()
    cfgneg_res = [res.pop() for _ in neg_cfgs]
    cfg_res = res.pop()
    mc, tree_res, gen_res, sim_res = res[0], res[1:1 + len(tree_cfgs)], res[1 + len(tree_cfgs):-1], res[-1]
    for x in res[:-1] + [cfg_res] + cfgneg_res + [offs_res]:
        v.add_mc(x)
    say(f"[C16] MC histories: {mc.distinct} states; TLC generation done ({v.timer.s()}s)")
    pipe = Pipeline(v, jobs=8 if quick else 12, limit=10**9 if quick else 150000)

    # ---- every tree of the bounded space, replayed on real objects
    fmt_every = 12 if quick else 20
    n_abstract = 0
    for g in tree_res:
        abstract = g.json_prints()
        if len(abstract) != g.distinct:
            raise Machinery(f"tree GEN emitted {len(abstract)} trees for {g.distinct} states")
        g.out = ""
        for k in range(0, len(abstract), 150000):
            part = abstract[k:k + 150000]
            off = n_abstract + k

            def do_tree(ia, off=off):
                i, a = ia[0] + off, ia[1]
                rr = rng(PROP, "tree", i)
                fmt = None
                if i % fmt_every == 0:
                    j = i // fmt_every
                    fmt = {"fmt": FMTS[j % 3], "base": BNAMES[(j // 3) % len(BNAMES)], "exec": EXECS[(j // 27) % 5]}
                return replay_tree(concretise_tree(a, rr), i, rr, fmt=fmt)

            traces = pmap(do_tree, list(enumerate(part)), chunksize=256)
            pipe.feed(traces, sample_at=len(traces) // 2)
            say(f"[C16] {off + len(part)} enumerated trees replayed on real BinaryImage objects ({v.timer.s()}s)")
        n_abstract += len(abstract)

    # ---- every tree of the offset-class space (front / behind, images without and with sub-images, depth 2..4)
    offs = [json.loads(x) for x in sorted({json.dumps(x) for x in offs_res.json_prints()})]
    offs_res.out = ""
    if len(offs) != offs_res.distinct:
        raise Machinery(f"offset-class GEN emitted {len(offs)} trees for {offs_res.distinct} states")
    reached, missing = offs_reach(offs)
    if missing:
        raise Machinery(f"offset-class GEN did not reach: {missing[:12]}")
    v.extra["offset_class_cells"] = reached

    def do_offs(ia):
        i, a = ia
        rr = rng(PROP, "offs", i)
        t = replay_tree(concretise_tree(a[0], rr), 90000000 + i, rr, all_nodes=(i % 3 == 0))
        t["cls"] = "offs"
        return t

    traces = pmap(do_offs, list(enumerate(offs)), chunksize=128)
    pipe.feed(traces, sample_at=len(traces) // 2)
    n_front = sum(1 for a in offs if any(x[2] in ("front", "cross") for x in a[1]))
    say(f"[C16] {len(offs)} trees of the offset-class space replayed ({n_front} with an image in front of its parent; {v.timer.s()}s)")

    import bincopy  # noqa: F401 - imported once here, not in every forked worker
    import spsdk.utils.schema_validator  # noqa: F401

    # ---- every merge configuration of the bounded space, built through the real load_from_config (dictionary / YAML / JSON in turn)
    acfgs = []
    for g in [cfg_res] + cfgneg_res:
        got = g.json_prints()
        g.out = ""
        if len(got) < 1000 or g.distinct <= len(got):   # Config is the only action: it fired iff there are states besides the initial one
            raise Machinery(f"configuration GEN emitted {len(got)} configurations for {g.distinct} states")
        acfgs += got
    # TLC prints in the order its workers reach the states: fix the numbering (the two enumerations share the configurations without a negative offset)
    acfgs = [json.loads(x) for x in sorted({json.dumps(x) for x in acfgs})]
    front_kinds = {(reg[0], len(a[2])) for a in acfgs for reg in a[2] if reg[1] and reg[2] < 0}
    lacking = [(kd, n) for kd in ("block", "bin", "hex1", "hex2") for n in (1, 2) if (kd, n) not in front_kinds]
    if lacking:
        raise Machinery(f"configuration GEN: no region in front of the merged image for {lacking}")
    n_rcfg = 600 if quick else 8000

    def do_cfg(ia):
        i, a = ia
        rr = rng(PROP, "cfg", i)
        return replay_config(concretise_cfg(a, rr), 70000000 + i, rr, entry=entry_of(i), adjust=(i % 7 == 3), all_nodes=(i % 5 == 0))

    def do_rcfg(i):
        rr = rng(PROP, "rcfg", i)
        return replay_config(random_cfg(rr, big=(i % 10 == 0), front=(i % 6 == 2)), 80000000 + i, rr, entry=entry_of(i), adjust=(i % 7 == 3), all_nodes=(i % 4 == 0))

    traces = pmap(do_cfg, list(enumerate(acfgs)), chunksize=64) + pmap(do_rcfg, range(n_rcfg), chunksize=32)
    pipe.feed(traces, sample_at=len(acfgs) // 3)
    n_cfg_built = sum(1 for t in traces if t["ev"][0]["a"] == "Config")
    say(f"[C16] {len(traces)} merge configurations ({len(acfgs)} enumerated by TLC) built through load_from_config, {n_cfg_built} trees observed ({v.timer.s()}s)")
    # (a configuration that is refused or crashes is a trace of its own - one Crash event - which TLC rejects below)

    # ---- sampled trees beyond the enumerated space (depth 4, bigger numbers), valid-by-construction trees for the format lanes
    n_rand = 2000 if quick else 40000
    n_pack = 1200 if quick else 20000

    def do_rand(i):
        rr = rng(PROP, "rand", i)
        return replay_tree(random_tree(rr, big=(i % 10 == 0), front=(i % 8 == 5)), 10000000 + i, rr, all_nodes=(i % 4 == 0),
                           fmt={"fmt": rr.choice(FMTS), "base": rr.choice(BNAMES), "exec": rr.choice(EXECS)})

    def do_pack(i):
        rr = rng(PROP, "pack", i)
        return replay_tree(packed_tree(rr, big=(i % (40 if quick else 8) == 0), front=(i % 7 == 4)), 20000000 + i, rr,
                           fmt={"fmt": FMTS[i % 3], "base": BNAMES[(i // 3) % len(BNAMES)], "exec": rr.choice(EXECS)})

    traces = pmap(do_rand, range(n_rand), chunksize=64) + pmap(do_pack, range(n_pack), chunksize=64)
    traces += [lookalike_trace(30000000 + i, p, rng(PROP, "look", i)) for i, p in enumerate(LOOKALIKES)]

    # ---- files of an independent encoder, loaded by SPSDK
    n_raw = 500 if quick else 6000
    traces += pmap(lambda i: raw_file_trace(60000000 + i, rng(PROP, "raw", i)), range(n_raw), chunksize=64)
    pipe.feed(traces, sample_at=n_rand + 1)
    say(f"[C16] {len(traces)} sampled trees / raw files replayed ({v.timer.s()}s)")

    # ---- histories: exhaustive on small menus, simulated on big menus, seeded random against the real objects
    hists = []
    for g, (nodes, depth, cap) in zip(gen_res, gens):
        got = g.json_prints()
        g.out = ""
        if len(got) < 1000:
            raise Machinery(f"history GEN ({nodes} images, depth {depth}) emitted only {len(got)} behaviours")
        if cap and len(got) > cap:
            rng(PROP, "cap", nodes, depth).shuffle(got)
            got = got[:cap]
        hists += got
    sim = sim_res.json_prints()
    if len(sim) < n_sim // 2:
        raise Machinery(f"simulation produced only {len(sim)} behaviours\n{sim_res.out[-1500:]}")
    hists += sim
    n_rh = 600 if quick else 20000
    n_hist = 0
    for k in range(0, len(hists), 60000):
        part = hists[k:k + 60000]
        htraces = pmap(lambda ih, k=k: replay_history(ih[1], 40000000 + k + ih[0], rng(PROP, "hist", k + ih[0])), list(enumerate(part)), chunksize=64)
        if k == 0:
            htraces += pmap(lambda i: random_history(50000000 + i, rng(PROP, "rhg", i), 12), range(n_rh), chunksize=64)
        pipe.feed(htraces, sample_at=len(htraces) - 1)
        n_hist += len(htraces)
    say(f"[C16] {n_hist} histories ({len(hists)} generated by TLC) replayed ({v.timer.s()}s)")
    pipe.flush()

    v.sample(strip(good), limit=7)
    v.extra["tv_runs"] = pipe.stats
    v.extra["tv_states"] = sum(s["distinct"] for s in pipe.stats)
    v.extra["events_validated"] = pipe.n_events
    v.extra["file_round_trips"] = pipe.n_fmt
    v.extra["traces_by_class"] = pipe.by_class
    v.extra["bin_payloads_text_like_loaded_somehow"] = pipe.outside
    say(f"[C16] {pipe.n_traces} traces, {pipe.n_events} events, {pipe.n_fmt} file round trips decided by TLC ({v.timer.s()}s)")
    v.cov["rule"] = (
        f"trees = every tree of the bounded space enumerated by TLC ({n_abstract}: <= {3 if quick else 4} images, offsets/sizes/alignments/binary lengths from small menus) "
        f"+ every tree of the offset-class space enumerated by TLC ({len(offs)}: 2..4 images, every image below the root - without or with sub-images, depth 2..4, parent size explicit "
        f"or derived - wholly in front of its parent / straddling offset 0 / at 0 / inside / touching the end / sticking out behind / wholly behind; every cell reached by a tree "
        f"with no other defect, see offset_class_cells) "
        f"+ {n_rand} seeded random trees (depth <= 4, offsets < 300, lengths <= 600, alignment 1..16, 8 patterns; every 8th with one image in front of its parent) "
        f"+ {n_pack} valid-by-construction trees (every 7th with one image moved in front of its parent as the only defect); "
        f"merge configurations = every configuration of the bounded space enumerated by TLC ({len(acfgs)}: <= 3 regions in listing order, each a pattern block / binary file / "
        f"HEX or S19 file with one or two segments, offset given (0 included; with <= 2 regions also landing 2 / 4 bytes in front of the merged image" + ("" if quick else ", with 3 regions 2 bytes") + f") or omitted, "
        f"overall size derived with alignment 1 / 4 or explicit with alignment 1) + {n_rcfg} seeded random ones "
        f"(<= 5 regions, <= 3 segments, file addresses < 2^30, negative offsets; every 6th with one region that lands below 0), built through load_from_config from a dictionary (13 of 16), a YAML file (2 of 16) or a JSON file (1 of 16; files go through load_configuration + check_config), every 7th followed by update_offsets; "
        f"histories = behaviours of length 5{'' if quick else ' / 6'} over small per-image menus (creation first; 2 images: all, 3 images: {'seeded subset' if quick else 'all / seeded subset'}) "
        f"+ {len(sim)} simulated behaviours of length 10 over big menus (1 offset of 16 negative) + {n_rh} seeded random histories chosen against the real objects (6 % of the images "
        f"created with a negative offset); every {fmt_every}th enumerated tree and "
        f"every sampled valid tree goes through one BIN/HEX/S19 round trip at one of 9 base-address classes; {n_raw} HEX/S19 files of an independent encoder are loaded; "
        "distinct by (class, inputs), non-trivial = at least one validate() or load observation was decided by TLC"
    )
    v.cov["exhaustive"] = True
    v.cov["checker_cmd"] = "TLC BinImageMC (lemmas over histories); TLC BinImageTrees (lemmas + enumeration); TLC BinImageOffs (offset classes: lemmas + enumeration); TLC BinImageCfg (configuration lemmas + enumeration); TLC BinImageGen (histories); TLC BinImageTrace (decides every observation)"
    v.cov["trusted_base"] = ["TLC", "hex-pair tokenisation of file lines (bytes.fromhex)", "Python's own text decoding for the `textlike` fact",
                             "the independent HEX/S19 encoder of the raw-file lane (its output is itself decoded by the TLA+ automata before it counts)"]
    v.assumptions += [
        "an image whose own binary is longer than its explicit size is outside the domain (export() is then longer than len(); the property does not call it invalid) - never generated",
        "for an image that has both an own binary and children only len(), validate() and the children's bytes are asserted (the uncovered bytes of the own binary are free)",
        "export() content is asserted for valid trees only; for invalid trees the property defines only the verdict of validate()",
        "a zero-length image strictly inside a sibling: verdict not asserted (no byte overlaps, the code reports an overlap); the absolute address of a zero-length image is not asserted "
        "(observation: a child of an empty parent reports its own offset, `if self.parent:` is false for an image of length 0)",
        "multi-byte / inc patterns: phase counted from the start of the image that owns the gap; rand patterns: length only, no file round trip",
        "HEX / S19 files need not store gap bytes owned by an image without pattern (if present their value is free: SPSDK writes an enclosing image's pattern there, BIN has zeros)",
        "a BIN payload that is itself decodable text (or starts with the ELF magic) may be loaded as whatever the sniffer sees (inherent ambiguity); only a refused load is reported",
        "execution start address: asserted for HEX / S19 when one was set; images end at or below 2^32; empty images are not saved",
        "a child at a negative offset sticks out of its parent (in front), also when it has no byte at all (as a child without bytes placed behind the end does); for such "
        "trees only the verdict of validate() is asserted (no export(), no absolute address of images below an image without bytes); validate() of an image whose OWN offset "
        "is negative (a root, or a sub-image validated on its own): verdict not asserted - the clause speaks about children inside their parents (the code refuses it)",
        "merge configuration: an omitted offset may be read as 'behind the region listed just before' or 'behind all regions listed before' (both accepted; they coincide for "
        "listings in address order); the first region without offset starts at 0; a region WITH an offset that lands below 0 is a child in front of the merged image (validate() must "
        "refuse); a HEX / S19 region file with non-zero addresses and no offset, a region (with or without offset) listed behind regions that all end below 0 (load_from_config refuses the configuration itself: 'Wrong alignment'), "
        "numbers written as quoted strings (the schema allows them, load_from_config does not convert them: TypeError) and ELF region files are outside the domain; gaps between the "
        "segments of a region file hold the pattern of the merge (the file has none of its own)",
        "the nxpimage CLI wrappers (binary-image create / merge / convert) are not driven themselves; the merge lane calls what `binary-image merge` calls "
        "(load_configuration, check_config, load_from_config, optionally update_offsets, validate, export)",
    ]
    return v.finish()


def rebuild(recipe, tid=0):
    r = rng(PROP, "replay")
    if recipe["kind"] == "tree":
        return replay_tree(recipe["nodes"], tid, r, fmt=recipe.get("fmt"), all_nodes=recipe.get("all_nodes", False))
    if recipe["kind"] == "hist":
        return replay_history(recipe["hist"], tid, r)
    if recipe["kind"] == "raw":
        return load_raw(tid, recipe["fmt"], recipe["text"], recipe["base"])
    if recipe["kind"] == "cfg":
        return replay_config(recipe["cfg"], tid, r, entry=recipe["entry"], adjust=recipe["adjust"], all_nodes=recipe["all_nodes"])
    raise Machinery(f"unknown recipe {recipe['kind']}")


def replay(path):
    import_spsdk()
    w = json.load(open(path))["witness"]
    t = rebuild(w["recipe"])
    rej, res = tlc.tv("C16", "BinImageTrace", [strip(t)], env=TV_ENV)
    check_complete(res, 1)
    for e in t["ev"]:
        say(json.dumps(e)[:400])
    if rej:
        m = rej[0][0]
        say(f"VIOLATION property=C16 replay={path}")
        say(f"  rejected at event {m + 1}: key={key_of(t, m)}")
        return 1
    say("replay: trace accepted by the spec")
    return 0
