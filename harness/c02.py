"""C02 - every Master Boot Image SPSDK exports passes the boot ROM's acceptance checks for its type.

spec/C02/MbiRom.tla is the R-spec: the ROM's acceptance procedure as an automaton over the file (ReadIvt -> CheckCrc |
CheckHmac -> CertBlockV1 / CertV1* / RkhTable / VerifySigV1 / Decrypt | CertBlockV21 / RootKeyRecord / IskCert /
CertBlockEnd / Manifest / ManifestCrc / VerifySigV21 / CheckDigest -> Accept with the coverage clause).
 MC : MbiRomMC - abstract images of every shape built by the documented layout rules, one tampered region: untampered
      images are accepted, every tampered region except the key store is rejected, every region is inside an authenticated
      interval at Accept (lemmas; every action fires).
 GEN: the same run emits (kind, field class, verdict) - the tamper plan of the harness.
 exec: real images are built through the public configuration route (get_mbi_class / load_from_config / export) over the
      mixin compositions of the device database x key material (RSA 2048/3072/4096 chains of depth 1..4, P-256/P-384 root
      sets of size 1..4 with every signing index, with / without ISK and user data) x TrustZone x relocation table x key
      store x payload length classes; lib/mbi_rom.walk walks the exported bytes along the automaton with an independent
      trusted base and logs one event per step with every number.
 TV : TLC (MbiRomTrace) decides every trace: ranges recomputed from the logged header fields, crypto facts TRUE, coverage.
 tamper: single-bit flips per field class (all bits of small images in the thorough tier) must end in Reject
      (key store: Accept), as TLC predicted in the GEN run.
 Strengthening round (seeds C02-m5, C02-m6): the GEN run also emits (a) the payload lengths around byte 64 (0x38, 0x3C, 64 -
      the smallest sizes the image classes accept; with a relocation table the image is ordinary, without one a load-to-RAM
      image with HMAC is the unsettled corner of MbiRom.tla: ReadIvt + CheckHmac asserted, then CertSplit) and (b) the special
      value classes of chained computations (running / final CRC exactly 0 or all ones at every natural split offset, manifest
      CRC likewise, AES-CTR counter start 0 / all ones / carry out of the low word(s)).  Every one of them is built
      deterministically in every image class it applies to; CRC classes are reached by solving a payload word over GF(2)
      (lib/crc_craft.py, bit-serial CRC) and confirmed on the exported bytes with the table-driven CRC of the executor.
 Strengthening round (seed C02-m8): the SIGNING BACK END is a dimension of the case space (MbiRomMC: BackEnds, be): who produces
      the image signature and who produces the ISK certificate signature (root key) - key file, built-in file provider, the
      same with der_format, a plug-in provider (lib/mbi_sigprov.py, minimal interface) delivering r || s, DER, DER of a signature
      with a leading zero byte.  The GEN run emits every (kind, curve, ISK, back end pair) together with the lemma that the ROM
      model accepts the image of the format whoever signed and rejects a DER blob stored as delivered; every one is built in
      EVERY composition with a certificate block (v1: x RSA size), deterministically in both tiers, and decided by TLC like any
      other image.  The plug-in records its calls, so that the harness can confirm that the named back end did sign.
 Strengthening round (seed C02-m10): the LENGTH CLASS OF THE ISK USER DATA is a dimension of the case space (MbiRomMC: UdPlan, udx,
      UdRoutes): none / a multiple of 4 (small, the limit) / 1, 2, 3 mod 4 (small, just below the limit).  The GEN run emits every
      (kind, curve, ISK, length) with the lemmas that the ROM model accepts the image of the format for every length class and rejects
      user data exported padded but signed as given; every one is built in EVERY composition with certificate block v2.1 through three
      routes: the configuration route (iskCertData), the classes with the family (CertBlockV21(family=...) + class constructor) and
      the classes without a family.  The tool may refuse a length (a refusal exports nothing: recorded, not judged); whatever it
      exports is walked and decided by TLC like any other image - IskOK: the ISK signature verifies over the bytes in front of it
      exactly as they stand in the file.
 Strengthening round (seed C02-m11): HISTORIES of the objects an image is built from (spec/C02/MbiHist.tla, on top of MbiRomMC):
      the certificate block object in hand and the live MasterBootImage object have a life before the export that is judged -
      NewCb / NewMbi(payload) / SetApp(payload) / Export / Sb (an SB2.1 container signed with the block) / Parse (the last image
      read back: new MBI object, new block object) / CbBin (the block cut out of the last image, read through `certBlock:`).
      TLC walks every exported abstract image through the ROM model (lemma HistoryAccepted: the format has no memory; lemma
      KeptRejected: an exporter that keeps what the block object holds is rejected exactly where the history left the length of
      something else) and, with the program outside the VIEW, prints ONE shortest program per (abstract state, Export).  The
      harness replays every maximal program on real objects in EVERY composition of the kind (all kinds: CRC, v1, v2.1),
      deterministically in both tiers; every exported image is walked and decided by TLC like any other image (certificate block
      v1: Sig1OK demands header length = signed length).  The register of the real block object is read in front of every
      export only to confirm that the planned class was reached.
 Strengthening round (seed C02-m13): WHO CHOOSES THE COUNTER START of an encrypted image is a class of the ctr special (MbiRomMC:
      SpCtr, cls "drawn"): the image is built by the class constructor from the members of the case with the optional
      ctr_init_vector left out, so SPSDK draws the value itself.  Built in every encrypted composition with and without a key
      store, exported once and twice, deterministically in both tiers; the ROM model decrypts with the value it finds in the image
      (DecOK, decided by TLC like any other image).  The object is looked at in front of the export only to confirm that it holds
      no counter start of anybody's choice.
"""
import json
import os
import struct

import yaml

from lib import mbi_keys as K
from lib import crc_craft
from lib import mbi_rom2 as R
from lib import tlc
from lib.common import Machinery, import_spsdk, rng, say, scratch, sha
from lib.par import pmap
from lib.verdict import Verdict

PROP = "C02"
IMAGE_TYPE = {"PLAIN_IMAGE": 0, "SIGNED_RAM_IMAGE": 1, "CRC_RAM_IMAGE": 2, "ENCRYPTED_RAM_IMAGE": 3, "SIGNED_XIP_IMAGE": 4,
              "CRC_XIP_IMAGE": 5, "SIGNED_XIP_NXP_IMAGE": 8}
AUTH_CFG = {"crc": "crc", "signed": "signed", "nxp_signed": "signed-nxp", "encrypted": "signed-encrypted"}
LENS = [56, 57, 60, 64, 65, 70, 128, 256, 300, 1021, 1024, 4096, 4100, 20001]
FREE_WORD = 0x1C  # vector 7: a payload word in front of every split offset that no tool and no ROM touches
RELOC_MARKER = 0x4C54424C


# ------------------------------------------------------------------ compositions of the device database
def acronym(mixins):
    out = []
    for m in mixins:
        if "Export" in m:
            continue
        m = m.replace("Mbi_Mixin", "")
        out.append("".join(c for c in m if c.isupper() or c.isdigit()))
    return "-".join(out)


def compositions():
    """Distinct (image type, mixin list) of the database with their families -> list of composition records."""
    from spsdk.image.mbi.mbi import mbi_get_supported_families
    from spsdk.image.trustzone import TrustZone
    from spsdk.utils.database import DatabaseManager, get_db

    comps = {}
    for fam in mbi_get_supported_families():
        db = get_db(fam, "latest")
        images = db.get_dict(DatabaseManager.MBI, "images")
        classes = db.get_dict(DatabaseManager.MBI, "mbi_classes")
        try:
            tz = TrustZone.get_preset_data_size(fam)
        except Exception:  # noqa: BLE001 - family without TrustZone presets
            tz = 0
        try:
            ud_limit = db.get_int(DatabaseManager.CERT_BLOCK, "isk_data_limit")
        except Exception:  # noqa: BLE001
            ud_limit = 0
        for target, auths in images.items():
            for auth, cname in auths.items():
                if auth == "plain":
                    continue
                mix = tuple(classes[cname]["mixins"])
                typ = IMAGE_TYPE[classes[cname]["image_type"]]
                key = (typ, mix)
                c = comps.setdefault(key, {"type": typ, "mixins": list(mix), "members": []})
                c["members"].append({"family": fam, "target": target, "auth": auth, "tz": tz, "ud_limit": ud_limit})
    res = []
    for (typ, mix), c in sorted(comps.items()):
        data_mix = [m for m in mix if m.startswith("Mbi_Mixin")]
        has = lambda s: any(s in m for m in data_mix)  # noqa: E731
        if not has("Mbi_MixinIvt"):
            c["kind"] = "dsc"  # BCA based images of the DSC families: outside the asserted domain (see assumptions)
            c["id"] = f"dsc:{acronym(mix)}"
            res.append(c)
            continue
        cb = 1 if has("CertBlockV1") else 21 if has("CertBlockV21") else 0
        man = 1 if has("ManifestDigest") else 2 if has("ManifestCrc") else 0
        if cb == 0:
            kind = "crc_xip" if typ == 5 else "crc_ram"
        elif cb == 1:
            kind = {4: "v1_xip", 1: "v1_ram", 3: "v1_enc"}[typ]
        else:
            kind = "v21_dig" if man == 1 else "v21_crc"
        c.update(kind=kind, cb=cb, man=man, hmac=has("Mbi_MixinHmac"), id=f"{kind}.t{typ}:{acronym(mix)}")
        c["tz_kind"] = "mandatory" if (has("TrustZoneMandatory") or has("Manifest")) else "optional" if "Mbi_MixinTrustZone" in data_mix else "none"
        c["opts"] = {"load": has("LoadAddress"), "hwkey": has("HwKey"), "ver": has("ImageVersion"), "sub": has("ImageSubType"),
                     "fw": has("FwVersion") or has("Manifest"), "reloc": has("RelocTable"), "ks": has("KeyStore"), "iv": has("CtrInitVector")}
        res.append(c)
    return res


# ------------------------------------------------------------------ cases
def gen_bytes(n, seed):
    r = rng(PROP, "bytes", seed)
    return bytes(r.getrandbits(8) for _ in range(n))


def gen_app(n, seed, patch=None):
    d = bytearray(gen_bytes(n, seed))
    d[0:12] = struct.pack("<3I", 0x20008000, 0x000001C1 + 4 * (seed % 1000), 0x000002C1)  # SP, reset vector, NMI: pairwise distinct
    if patch:
        struct.pack_into("<I", d, patch["off"], patch["word"])  # a crafted payload word (see craft)
    return bytes(d)


def aligned(n):
    return (n + 3) // 4 * 4


def v1_material(bits, nroots, used, depth):
    """File names of the pool for a v1 chain: (config entries, private key of the last certificate)."""
    cfg = {}
    if bits == "mix":
        cfg["rootCertificate0File"] = K.p("rsamix_r_ca.der")
        cfg["chainCertificate0File0"] = K.p("rsamix_l1_leaf.der")
        cfg["mainRootCertId"] = 0
        return cfg, K.p("rsa4096_c1.pem")
    for i in range(nroots):
        cfg[f"rootCertificate{i}File"] = K.p(f"rsa{bits}_r{i}_{'leaf' if depth == 1 else 'ca'}.der")
    cfg["mainRootCertId"] = used
    if depth >= 2:
        cfg[f"chainCertificate{used}File0"] = K.p(f"rsa{bits}_r{used}_l1_{'leaf' if depth == 2 else 'ca'}.der")
    if depth >= 3:
        cfg[f"chainCertificate{used}File1"] = K.p(f"rsa{bits}_l2_{'leaf' if depth == 3 else 'ca'}.der")
    if depth >= 4:
        cfg[f"chainCertificate{used}File2"] = K.p(f"rsa{bits}_l3_leaf.der")
    key = K.p(f"rsa{bits}_r{used}.pem") if depth == 1 else K.p(f"rsa{bits}_c{depth - 1}.pem")
    return cfg, key


def common_opts(comp, mem, r, tier):
    """Seeded choice of everything that is not key material."""
    o = {"len": r.choice(LENS), "seed": r.getrandbits(30)}
    tzk = comp["tz_kind"]
    if tzk == "none":
        o["tz"] = "none"
    else:
        menu = ["default"] + (["custom", "custom"] if mem["tz"] else []) + (["disabled"] if tzk == "optional" else [])
        o["tz"] = r.choice(menu)
    op = comp["opts"]
    if op["load"]:
        o["load"] = r.choice([0, 0x1000, 0x20000000, 0x80001000, r.getrandbits(32) & ~3])
    if op["hwkey"]:
        o["hwkey"] = r.random() < 0.5
    if op["ver"]:
        o["ver"] = r.choice([0, 1, 0x7FFF, 0xFFFF, r.getrandbits(16)])
    if op["sub"]:
        o["sub"] = r.choice(["main", "main", "alt"])
    if op["fw"]:
        o["fw"] = r.choice([0, 1, r.getrandbits(31)])
    if op["reloc"]:
        k = r.choice([0, 0, 1, 2])
        o["reloc"] = [{"len": r.choice([4, 5, 16, 100, 1023]), "seed": r.getrandbits(30), "dst": r.getrandbits(32) & ~3} for _ in range(k)]
    if op["ks"]:
        o["ks"] = r.random() < 0.5
    if comp.get("hmac"):
        o["uk"] = r.getrandbits(256)
        if r.random() < 0.1:
            o["uk"] &= (1 << 240) - 1  # leading zero bytes in the user key
    if op["iv"]:
        o["iv"] = r.choice([None, r.getrandbits(128)])
    return o


def iv_of(cls, r):
    """A counter start value of the class the GEN run named."""
    if cls == "zero":
        return 0
    if cls == "ones":
        return (1 << 128) - 1
    if cls == "lo64ones":
        return ((r.getrandbits(63) << 1) << 64) | ((1 << 64) - 1)  # bit 64 clear: not all ones
    if cls == "lo32ones":
        return (r.getrandbits(96) << 32 | 0xFFFFFFFF) & ~(1 << 32 + r.randrange(32))  # one bit of the next word clear: not lo64ones
    raise Machinery(f"GEN named a counter class the harness cannot build: {cls}")


def make_cases(comps, tier, r, gen):
    cases = []

    def add(comp, mem, **kw):
        c = {"comp": comp["id"], "kind": comp["kind"], "family": mem["family"], "target": mem["target"], "auth": mem["auth"]}
        c.update(common_opts(comp, mem, r, tier))
        c.update(kw)
        c["route"] = r.choice(["cli"] * 3 + ["api2"] * 3 + ["api"] * 14)
        if c.get("udr", "cfg") != "cfg":
            c["route"] = r.choice(["api", "api", "api2"])  # the class routes: an object, exported once or twice
        c["id"] = f"c{len(cases)}"
        cases.append(c)

    quick = tier == "quick"
    for comp in comps:
        if comp["kind"] == "dsc":
            continue
        mems = comp["members"]
        # families: distinct TrustZone block sizes first (they are the ROM models that differ), then the rest
        by_tz = {}
        for m in mems:
            by_tz.setdefault(m["tz"], []).append(m)
        reps = [v[0] for v in by_tz.values()]
        pick = lambda: r.choice(reps) if r.random() < 0.7 else r.choice(mems)  # noqa: E731
        if comp["cb"] == 0:
            for _ in range(10 if quick else 40):
                add(comp, pick())
            for ln in (LENS if not quick else [64, 65, 4100]):
                for mem in ([pick()] if quick else mems):
                    add(comp, mem, len=ln)
        elif comp["cb"] == 1:
            sets = [(n, u) for n in range(1, 5) for u in range(n)]
            for bits in K.RSA_BITS:
                for depth in range(1, 5):
                    for (n, u) in (r.sample(sets, 2) if quick else sets + r.sample(sets, 4)):
                        add(comp, pick(), v1={"bits": bits, "nroots": n, "used": u, "depth": depth})
            add(comp, pick(), v1={"bits": "mix", "nroots": 1, "used": 0, "depth": 2})
            if comp["kind"] == "v1_enc" or comp["opts"]["reloc"]:
                # encrypted images / relocation tables with custom TrustZone data, every combination (cheap key class)
                mem_tz = [m for m in mems if m["tz"]] or mems
                for tz in ("custom", "default", "disabled"):
                    for nrel in (0, 1, 2):
                        for ks in (False, True):
                            if quick and comp["kind"] != "v1_enc" and r.random() < 0.5:
                                continue
                            rel = [{"len": r.choice([4, 5, 100]), "seed": r.getrandbits(30), "dst": r.getrandbits(32) & ~3} for _ in range(nrel)]
                            add(comp, r.choice(mem_tz), v1={"bits": 2048, "nroots": r.randrange(1, 5), "used": 0, "depth": r.choice([1, 2])},
                                tz=tz, reloc=rel, ks=ks if comp["opts"]["ks"] else None)
        else:
            sets = [(n, u) for n in range(1, 5) for u in range(n)]
            combos = [("p256", None), ("p256", "p256"), ("p384", None), ("p384", "p256"), ("p384", "p384")]
            for curve, isk in combos:
                for (n, u) in (r.sample(sets, 4) if quick else sets):
                    mem = pick()
                    uds = [0] if isk is None else ([r.choice([0, 4, 32, mem["ud_limit"]])] if quick else [0, 4, 32, mem["ud_limit"]])
                    for ud in uds:
                        add(comp, mem, v21={"curve": curve, "roots": [f"r{i}" for i in range(n)], "used": u, "isk": isk and f"{isk}_isk",
                                            "ud": ud, "cons": r.getrandbits(31)},
                            digest=(r.choice([None, "add", "explicit"]) if comp["man"] == 1 else None))
            # keys with a leading zero byte in X resp. Y: as the signing root, as another root of the table, as ISK
            for curve in (["p256", "p384"] if not quick else [r.choice(["p256", "p384"])]):
                for lz in ("lzx", "lzy"):
                    for role in (("root", "other", "isk") if not quick else (r.choice(["root", "other"]), "isk")):
                        n = r.randrange(2, 5)
                        u = r.randrange(n)
                        roots = [f"r{i}" for i in range(n)]
                        isk = None
                        if role == "root":
                            roots[u] = lz
                        elif role == "other":
                            roots[(u + 1) % n] = lz
                        else:
                            isk = f"{curve}_{lz}"
                        if role != "isk" and r.random() < 0.5:
                            isk = f"{curve}_isk"
                        add(comp, pick(), v21={"curve": curve, "roots": roots, "used": u, "isk": isk, "ud": r.choice([0, 8]) if isk else 0,
                                               "cons": r.getrandbits(31)}, digest=(r.choice([None, "add"]) if comp["man"] == 1 else None))
            # a single root which has a leading zero (no table: the fuse value is the key hash itself)
            for lz in ("lzx", "lzy"):
                curve = r.choice(["p256", "p384"])
                add(comp, pick(), v21={"curve": curve, "roots": [lz], "used": 0, "isk": None, "ud": 0, "cons": 0},
                    digest=("add" if comp["man"] == 1 and r.random() < 0.5 else None))

    # ---- the lanes TLC planned in the GEN run: payload lengths around byte 64, special values of chained computations.
    # Deterministic in both tiers: every class x every composition it applies to (key material: the cheapest class).
    for comp in comps:
        if comp["kind"] == "dsc":
            continue
        mems, kind = comp["members"], comp["kind"]
        mem_tz = [m for m in mems if m["tz"]] or mems

        def cheap(no_isk=False):
            if comp["cb"] == 1:
                return {"v1": {"bits": 2048, "nroots": r.randrange(1, 5), "used": 0, "depth": r.choice([1, 2])}}
            if comp["cb"] == 21:
                curve, n = r.choice(["p256", "p384"]), r.randrange(1, 5)
                isk = None if no_isk or r.random() < 0.5 else "p256_isk"
                return {"v21": {"curve": curve, "roots": [f"r{i}" for i in range(n)], "used": r.randrange(n), "isk": isk, "ud": 0,
                                "cons": r.getrandbits(31)}, "digest": None}
            return {}

        bounds = sorted(gen["small"].get(kind, ())) + [64]  # aligned payload lengths: below byte 64 (from TLC) and exactly 64
        if comp.get("hmac"):
            # the HMAC field at byte 64 meets the end of the payload: every combination of what can sit there
            menu = ["default", "custom", "disabled"] if comp["tz_kind"] == "optional" else ["default", "custom"]
            for a in bounds:
                for nrel in ((0, 1) if comp["opts"]["reloc"] else (0,)):
                    for ks in ((False, True) if comp["opts"]["ks"] else (None,)):
                        for tz in menu:
                            rel = [{"len": r.choice([4, 5, 100]), "seed": r.getrandbits(30), "dst": r.getrandbits(32) & ~3} for _ in range(nrel)]
                            add(comp, r.choice(mem_tz), len=r.choice([a, a - 3]), reloc=rel, ks=ks, tz=tz, **cheap())
        else:
            for a in bounds:
                for raw in (a, a - 3):
                    add(comp, r.choice(mem_tz), len=raw, **cheap())
        for sp in gen["special"].get(kind, ()):
            if sp["what"] == "crc":
                add(comp, r.choice(mems), special=sp, len=r.choice([64, 65, 72, 300]) if sp["cut"] <= 64 else sp["cut"] + r.choice([0, 1, 300]))
            elif sp["what"] == "mancrc":  # no ISK: its ECDSA signature (fresh per export) lies inside the CRC range
                add(comp, r.choice(mems), special=sp, len=r.choice([56, 64, 100, 300]), **cheap(no_isk=True))
            elif sp["what"] == "ctr" and sp["cls"] == "drawn":  # nobody names a counter start: class constructor without ctr_init_vector
                for ks in (False, True):
                    for route in ("api", "api2"):
                        add(comp, r.choice(mems), special=sp, iv=None, ctor=True, ks=ks, len=r.choice([64, 65, 300, 1024, 4100]), **cheap())
                        cases[-1]["route"] = route
            elif sp["what"] == "ctr":
                for ks in (False, True):
                    add(comp, r.choice(mems), special=sp, iv=iv_of(sp["cls"], r), ks=ks, len=r.choice([64, 65, 300, 1024, 4100]), **cheap())
            else:
                raise Machinery(f"GEN named a special the harness cannot build: {sp}")

    # ---- the signing back ends TLC planned: every (curve, ISK, back end of the image signature, back end of the ISK certificate
    # signature) x every composition with a certificate block (v1: x every RSA size). Deterministic in both tiers.
    for comp in comps:
        if comp["kind"] == "dsc" or comp["cb"] == 0:
            continue
        mems = comp["members"]
        by_tz = {}
        for m in mems:
            by_tz.setdefault(m["tz"], []).append(m)
        reps = [v[0] for v in by_tz.values()]
        long = [n for n in LENS if n >= 64]  # not the unsettled corner of the HMAC compositions: the signatures are to be checked
        for b in gen["backends"][comp["kind"]]:
            be = {"img": b["img"], "isk": b["isk"], "lz": [r.choice("rs"), r.choice("rs")]}
            for mem in ([r.choice(reps) if r.random() < 0.7 else r.choice(mems)] if quick else reps):
                if comp["cb"] == 1:
                    for bits in K.RSA_BITS:
                        n = r.randrange(1, 5)
                        add(comp, mem, be=be, v1={"bits": bits, "nroots": n, "used": r.randrange(n), "depth": r.choice([1, 1, 2, 3])},
                            **({"len": r.choice(long)} if comp.get("hmac") else {}))
                else:
                    curve = {32: "p256", 48: "p384"}[b["curve"]]
                    isk = {0: None, 64: "p256_isk", 96: "p384_isk"}[b["iskLen"]]
                    n = r.randrange(1, 5)
                    add(comp, mem, be=be, v21={"curve": curve, "roots": [f"r{i}" for i in range(n)], "used": r.randrange(n), "isk": isk,
                                               "ud": r.choice([0, 0, 4, 32, mem["ud_limit"]]) if isk else 0, "cons": r.getrandbits(31)},
                        digest=(r.choice([None, "add", "explicit"]) if comp["man"] == 1 else None))
    # ---- the length classes of the ISK user data TLC planned: every (curve, ISK, length) x every route x every composition with
    # certificate block v2.1. Deterministic in both tiers.
    for comp in comps:
        if comp["kind"] == "dsc" or comp["cb"] != 21:
            continue
        mems = comp["members"]
        by_tz = {}
        for m in mems:
            by_tz.setdefault(m["tz"], []).append(m)
        reps = [v[0] for v in by_tz.values()]
        for u in gen["udplan"][comp["kind"]]:
            curve = {32: "p256", 48: "p384"}[u["curve"]]
            isk = {64: "p256_isk", 96: "p384_isk"}[u["iskLen"]]
            for udr in gen["udroutes"]:
                for mem in ([r.choice(reps) if r.random() < 0.7 else r.choice(mems)] if quick else reps):
                    n = r.randrange(1, 5)
                    add(comp, mem, udr=udr, udcls=u["cls"],
                        v21={"curve": curve, "roots": [f"r{i}" for i in range(n)], "used": r.randrange(n), "isk": isk, "ud": u["ud"],
                             "cons": r.getrandbits(31)},
                        digest=(r.choice([None, "add", "explicit"]) if comp["man"] == 1 else None))
    return cases


def class_route(mbi0, case, v, family):
    """The class route of a v2.1 image: the certificate block from CertBlockV21(...) - with the family or without one - and the image
    from the class constructor, with the members a configuration-loaded object of the same case carries (all but the block)."""
    from spsdk.crypto.signature_provider import SignatureProvider
    from spsdk.utils.crypto.cert_blocks import CertBlockV21

    rd = lambda name: open(K.p(name), "rb").read()  # noqa: E731
    root_key = K.p(f"{v['curve']}_{v['roots'][v['used']]}.pem")
    cb = CertBlockV21(root_certs=[rd(f"{v['curve']}_{nm}_pub.pem") for nm in v["roots"]], used_root_cert=v["used"], ca_flag=False,
                      signature_provider=SignatureProvider.create(f"type=file;file_path={root_key}"), isk_cert=rd(f"{v['isk']}_pub.pem"),
                      user_data=gen_bytes(v["ud"], case["seed"] + 3) if v["ud"] else None, constraints=v["cons"], family=family)
    cb.calculate()
    kw = {}
    for base in type(mbi0).__mro__:
        for name in getattr(base, "NEEDED_MEMBERS", {}):
            kw[name] = getattr(mbi0, name)
    if "cert_block" not in kw:
        raise Machinery(f"class route: {type(mbi0).__name__} has no member cert_block")
    kw.update(cert_block=cb, family=mbi0.family, revision=mbi0.revision)
    return type(mbi0)(**kw)


def ctor_route(mbi0, leave_out):
    """The class constructor with the members a configuration-loaded object of the same case carries, the optional ones named in
    leave_out not handed over (the class default stands). Returns (object, {member: value in front of any export})."""
    kw = {}
    for base in type(mbi0).__mro__:
        for name in getattr(base, "NEEDED_MEMBERS", {}):
            if name not in leave_out:
                kw[name] = getattr(mbi0, name)
    if not all(hasattr(type(mbi0), name) for name in leave_out):
        raise Machinery(f"constructor route: {type(mbi0).__name__} has no class default for {leave_out}")
    kw.update(family=mbi0.family, revision=mbi0.revision)
    mbi = type(mbi0)(**kw)
    return mbi, {name: vars(mbi).get(name, getattr(type(mbi0), name)) for name in leave_out}


def set_signer(cfg, be, role, key_file, plain_key):
    """Who signs: the plain key-file entry of the configuration, or `signProvider` of the back end the case names."""
    sp = None
    if be:
        from lib import mbi_sigprov  # imports spsdk: only inside a build

        sp = mbi_sigprov.spec(be[role], key_file, be["lz"][role == "isk"])
    if sp is None:
        cfg[plain_key] = key_file
    else:
        cfg["signProvider"] = sp
    return key_file


def be_reached(be, cb, signers, calls):
    """Did the plug-in back ends a case names produce the signatures (measured by the plug-in itself)? None: nothing to measure."""
    res = None
    for role in ("img", "isk"):
        kind = be[role]
        if not kind.startswith("plugin"):
            continue  # key file / built-in provider: the configuration entry is all there is to observe
        mine = [c for c in calls if c["key"] == signers.get(role)]
        if kind == "plugin_raw":
            ok = any(c["wire"] == "raw" and c["len"] == c["width"] for c in mine)
        elif kind == "plugin_der":
            ok = any(c["wire"] == "der" and c["lz"] == "none" and (c["len"] > c["width"]) == (cb == 21) for c in mine)
        else:  # a DER blob of a signature with a leading zero byte in r resp. s is at most 2c + 7 bytes long
            ok = any(c["wire"] == "der" and c["lz"] == be["lz"][role == "isk"] and c["width"] < c["len"] <= c["width"] + 7 for c in mine)
        res = ok if res is None else res and ok
    return res


# ------------------------------------------------------------------ building a case through SPSDK's configuration route
def reloc_bytes(entries, start):
    """Relocation table as the format defines it: images (4-aligned) || entries (src, dst, len, flags) || header (marker, 0, n, ptr)."""
    imgs, recs, src = b"", b"", start
    for e in entries:
        img = gen_bytes(e["len"], e["seed"])
        pad = img + bytes(-len(img) % 4)
        recs += struct.pack("<4I", src, e["dst"], len(img), 1)
        imgs += pad
        src += len(pad)
    return imgs + recs + struct.pack("<4I", RELOC_MARKER, 0, len(entries), start + len(imgs))


def craft(data, rom, sec, sp):
    """The payload word that drives the chained CRC of the exported image `data` through the value class sp at its cut:
    {"off", "word"} or None. The bytes the CRC runs over are taken from a real export, so no layout is assumed."""
    target = crc_craft.TARGETS[sp["cls"]]
    if sp["what"] == "crc":
        stream = data[:0x28] + data[0x2C:]  # the ROM's pass: the image without the CRC word
        cut = len(stream) if sp["cut"] == 0 else sp["cut"] if sp["cut"] <= 0x28 else sp["cut"] - 4
    else:
        ev, _ = R.walk(data, rom, sec)
        at = next((e["at"] for e in ev if e["ev"] == "ManifestCrc"), None)
        if at is None:
            return None
        stream = data[:at]  # everything in front of the manifest CRC word
        cut = at if sp["cut"] == 0 else sp["cut"]
    w = crc_craft.solve_word(stream, FREE_WORD, cut, target)
    return None if w is None else {"off": FREE_WORD, "word": w}


def build(case, comp, d):
    """Returns (exported bytes, rom, sec, info). Raises whatever SPSDK raises. A case with a CRC special is built twice:
    once as it is, to see the bytes the CRC runs over, and once with the crafted payload word (kept in info for the replay)."""
    patch = case.get("patch")
    sp = case.get("special")
    if sp and sp["what"] in ("crc", "mancrc") and patch is None:
        data0, rom0, sec0, _ = build_once(case, comp, d, None)
        patch = craft(data0, rom0, sec0, sp)
    data, rom, sec, info = build_once(case, comp, d, patch)
    info["patch"] = patch
    return data, rom, sec, info


def make_cfg(case, comp, d, patch):
    """The configuration of a case (all input files written under d) -> (cfg, ctx); ctx: what the ROM model is told about the image."""
    os.makedirs(d, exist_ok=True)
    signers = {}
    mem = next(m for m in comp["members"] if m["family"] == case["family"] and m["target"] == case["target"] and m["auth"] == case["auth"])
    f = lambda name: os.path.join(d, name)  # noqa: E731
    app = gen_app(case["len"], case["seed"], patch)
    open(f("app.bin"), "wb").write(app)
    cfg = {"family": case["family"], "outputImageExecutionTarget": "xip" if case["target"] == "xip" else "load-to-ram",
           "outputImageAuthenticationType": AUTH_CFG[case["auth"]], "masterBootOutputFile": f("mbi.bin"), "inputImageFile": f("app.bin")}
    op = comp["opts"]
    if op["load"]:
        cfg["outputImageExecutionAddress"] = case["load"]
    if op["hwkey"]:
        cfg["enableHwUserModeKeys"] = bool(case["hwkey"])
    tz_data = b""
    if case["tz"] != "none":
        if comp["tz_kind"] == "optional":
            cfg["enableTrustZone"] = case["tz"] != "disabled"
        if case["tz"] == "custom":
            tz_data = gen_bytes(mem["tz"], case["seed"] + 1)
            open(f("tz.bin"), "wb").write(tz_data)
            cfg["trustZonePresetFile"] = f("tz.bin")
    if op["ver"]:
        cfg["imageVersion"] = case["ver"]
    if op["sub"]:
        alt = "nbu" if case["family"].startswith(("kw", "k32", "mcxw7")) else "recovery"
        cfg["outputImageSubtype"] = "main" if case["sub"] == "main" else alt
    if op["fw"]:
        cfg["firmwareVersion"] = case["fw"]
    rel = case.get("reloc") or []
    if op["reloc"] and rel:
        tab = []
        for i, e in enumerate(rel):
            open(f(f"rel{i}.bin"), "wb").write(gen_bytes(e["len"], e["seed"]))
            tab.append({"binary": f(f"rel{i}.bin"), "destAddress": e["dst"], "load": True})
        cfg["applicationTable"] = tab
    uk = None
    if comp["hmac"]:
        uk = case["uk"].to_bytes(32, "big")
        open(f("userkey.txt"), "w").write(uk.hex())
        cfg["outputImageEncryptionKeyFile"] = f("userkey.txt")
    if op["ks"] and case.get("ks"):
        open(f("ks.bin"), "wb").write(gen_bytes(R.KS_LEN, case["seed"] + 2))
        cfg["keyStoreFile"] = f("ks.bin")
    if op["iv"] and case.get("iv") is not None:
        cfg["CtrInitVector"] = "0x" + case["iv"].to_bytes(16, "big").hex()
    if comp["cb"] == 1:
        v = case["v1"]
        c, key = v1_material(v["bits"], v["nroots"], v["used"], v["depth"])
        if case.get("route") == "cli" or case["seed"] % 2:  # certificate block described in its own file / inline
            yaml.safe_dump(c, open(f("cert_block.yaml"), "w"))
            cfg["certBlock"] = f("cert_block.yaml")
        else:
            cfg.update(c)
        signers["img"] = set_signer(cfg, case.get("be"), "img", key, "signPrivateKey")
    elif comp["cb"] == 21:
        v = case["v21"]
        cb = {f"rootCertificate{i}File": K.p(f"{v['curve']}_{nm}_pub.pem") for i, nm in enumerate(v["roots"])}
        cb["mainRootCertId"] = v["used"]
        cb["useIsk"] = bool(v["isk"])
        root_key = K.p(f"{v['curve']}_{v['roots'][v['used']]}.pem")
        if v["isk"]:
            signers["isk"] = set_signer(cb, case.get("be"), "isk", root_key, "mainRootCertPrivateKeyFile")
            cb["iskPublicKey"] = K.p(f"{v['isk']}_pub.pem")
            cb["iskCertificateConstraint"] = v["cons"]
            if v["ud"] and case.get("udr", "cfg") == "cfg":  # the class routes hand the same bytes to CertBlockV21(user_data=...)
                open(f("iskdata.bin"), "wb").write(gen_bytes(v["ud"], case["seed"] + 3))
                cb["iskCertData"] = f("iskdata.bin")
            signers["img"] = set_signer(cfg, case.get("be"), "img", K.p(f"{v['isk']}.pem"), "signPrivateKey")
        else:
            signers["img"] = set_signer(cfg, case.get("be"), "img", root_key, "signPrivateKey")
        yaml.safe_dump(cb, open(f("cert_block.yaml"), "w"))
        cfg["certBlock"] = f("cert_block.yaml")
        if case.get("digest") == "add":
            cfg["addManifestDigest"] = True
        elif case.get("digest") == "explicit":
            signer_curve = (v["isk"] or v["curve"])[:4]
            cfg["manifestDigestHashAlgorithm"] = "sha256" if signer_curve == "p256" else "sha384"
    return cfg, {"app": app, "uk": uk, "tz_data": tz_data, "rel": rel, "signers": signers, "mem": mem}


def rom_of(comp, mem):
    return {"type": comp["type"], "cb": comp["cb"], "hmac": bool(comp["hmac"]), "tz": mem["tz"], "man": comp["man"], "ksdev": False}


def payload_of(comp, app, rel):
    appa = app + bytes(-len(app) % 4)
    return appa + (reloc_bytes(rel, len(appa)) if comp["opts"]["reloc"] and rel else b"")


def build_once(case, comp, d, patch):
    from spsdk.image.mbi.mbi import get_mbi_class

    if case.get("be"):
        from lib import mbi_sigprov

        mbi_sigprov.take_calls()
    cfg, ctx = make_cfg(case, comp, d, patch)
    app, uk, tz_data, rel, signers, mem = (ctx[k] for k in ("app", "uk", "tz_data", "rel", "signers", "mem"))
    op = comp["opts"]
    f = lambda name: os.path.join(d, name)  # noqa: E731
    if case.get("route") == "cli":
        # the nxpimage route: schema validation, export, output file, RKTH as printed for the user
        import contextlib
        import io

        from spsdk.apps import nxpimage

        yaml.safe_dump(cfg, open(f("mbi.yaml"), "w"))
        buf = io.StringIO()
        with contextlib.redirect_stdout(buf):
            nxpimage.mbi_export(f("mbi.yaml"))
        data = open(f("mbi.bin"), "rb").read()
        fuse = None
        for line in buf.getvalue().splitlines():
            if line.startswith("RKTH:"):
                fuse = bytes.fromhex(line.split(":", 1)[1].strip())
    else:
        cls = get_mbi_class(cfg)
        mbi = cls()
        mbi.load_from_config(cfg, search_paths=[d])
        if case.get("udr", "cfg") != "cfg":
            mbi = class_route(mbi, case, case["v21"], case["family"] if case["udr"] == "class_family" else None)
        drawn = None
        if case.get("ctor"):
            mbi, held = ctor_route(mbi, ("_ctr_init_vector",))
            drawn = held["_ctr_init_vector"] is None  # nobody has chosen a counter start for this object
        data = mbi.export()
        if case.get("route") == "api2":  # the same object exported a second time: that image has to boot as well
            data = mbi.export()
        fuse = mbi.rkth
    rom = rom_of(comp, mem)
    sec = {"userKey": uk, "fuse": fuse if comp["cb"] else None, "plain": None}
    payload = payload_of(comp, app, rel)
    if comp["type"] == 3:
        sec["plain"] = R.mask_rom_words(payload) + tz_data
    info = {"cfg": cfg, "pay": len(payload)}
    if case.get("ctor"):
        info["drawn"] = drawn
    if case.get("be"):
        info["be_reached"] = be_reached(case["be"], comp["cb"], signers, mbi_sigprov.take_calls())
    return data, rom, sec, info


def key_class(case):
    if "v1" in case:
        v = case["v1"]
        return f"rsa{v['bits']}-d{v['depth']}"
    if "v21" in case:
        v = case["v21"]
        lz = "-lz" if any(x.startswith("lz") for x in v["roots"]) or (v["isk"] or "").endswith(("lzx", "lzy")) else ""
        return f"{v['curve']}-n{len(v['roots'])}-isk:{(v['isk'] or 'none')[:4]}{'+ud' if v['ud'] else ''}{lz}"
    return f"len%4={case['len'] % 4}"


def feature_class(case):
    f = []
    if case.get("tz") == "custom":
        f.append("tz")
    if case.get("reloc"):
        f.append("reloc")
    if case.get("ks"):
        f.append("ks")
    if aligned(case["len"]) == 64:
        f.append("len64")  # the payload ends where the HMAC goes
    elif aligned(case["len"]) < 64:
        f.append("sub64")  # the payload ends inside the first 64 bytes
    sp = case.get("special")
    if sp:
        f.append(f"{sp['what']}@{sp['cut']}={sp['cls']}")
    if case.get("be"):
        f.append(f"be:{case['be']['img']}/{case['be']['isk']}")  # who signed the image / the ISK certificate
    if case.get("udr"):
        f.append(f"ud:{case['udcls']}{'' if case['v21']['ud'] < 8 else '-big'}/{case['udr']}")  # length class of the ISK user data / route
    if case.get("hstep"):
        h = case["hstep"]["pre"]
        f.append(f"hist:{h['src']}/{h['age']}/{h['rel']}/{h['chg']}")  # who wrote the block in hand last / age of the MBI object / its length register vs this image / payload vs last image
    return "+".join(f) or "base"


def tamper_plan(reg, n, r, mode):
    """Bit positions to flip: [(class, byte, bit)]. mode 'classes': first / last / one inner byte of every region; 'all': every bit."""
    plan = []
    if mode == "all":
        for name, a, z in reg:
            for pos in range(a, z):
                for bit in range(8):
                    plan.append((name, pos, bit))
        return plan
    for name, a, z in reg:
        for pos in sorted({a, z - 1, r.randrange(a, z)}):
            plan.append((name, pos, r.randrange(8)))
    return plan


def run_case(job):
    """Worker: build, walk, tamper. Returns {'trace':..., 'tamper': [...], 'outcome':...}."""
    case, comp, tamper = job
    d = os.path.join(scratch(), "c02", case["id"])
    try:
        data, rom, sec, _info = build(case, comp, d)
    except Exception as x:  # noqa: BLE001 - a refusal is an observation about the builder, not about an exported image
        from spsdk.exceptions import SPSDKError

        return {"id": case["id"], "outcome": "refused" if isinstance(x, SPSDKError) else "crash", "exc": f"{type(x).__name__}: {str(x)[:200]}"}
    ev, reg = R.walk(data, rom, sec)
    res = {"id": case["id"], "outcome": "exported", "trace": {"id": case["id"], "rom": rom, "pay": _info["pay"], "ev": ev}, "n": len(data),
           "tamper": [], "reg": reg, "sha": sha(data.hex()), "patch": _info.get("patch")}
    if case.get("be"):
        res["be_reached"] = _info.get("be_reached")
    sp = case.get("special")
    if sp:  # did the exported image really reach the class TLC planned? (measured by the executor on the real bytes)
        if sp["what"] == "ctr" and sp["cls"] == "drawn":
            res["reached"] = bool(_info.get("drawn")) and any(e["ev"] == "Decrypt" and e.get("rd") for e in ev)
        elif sp["what"] == "ctr":
            res["reached"] = any(e["ev"] == "Decrypt" and e.get("ivClass") == sp["cls"] for e in ev)
        else:
            name = "CheckCrc" if sp["what"] == "crc" else "ManifestCrc"
            res["reached"] = any(e["ev"] == name and [sp["cut"], sp["cls"]] in e.get("chain", []) for e in ev)
    if tamper and ev and ev[-1]["ev"] in ("Accept", "CertSplit"):
        r = rng(PROP, "tamper", case["id"])
        for name, pos, bit in tamper_plan(reg, len(data), r, tamper):
            b2 = bytearray(data)
            b2[pos] ^= 1 << bit
            ev2, _ = R.walk(bytes(b2), rom, sec)
            res["tamper"].append({"id": f"{case['id']}#{pos}.{bit}", "cls": name, "rom": rom, "pay": _info["pay"], "ev": ev2})
    return res


# ------------------------------------------------------------------ histories of the objects an image is built from (MbiHist.tla)
HIST_SRC = ("own", "other", "sb", "parsed", "bin")


def hist_mc(tier):
    """TLC on MbiHist: lemmas + one shortest program per (abstract state, Export). One worker: breadth first, deterministic."""
    return tlc.mc("C02", "MbiHist", "MbiHist.cfg", env={"MC_FULL": "0" if tier == "quick" else "1"}, workers=1, heap="2g", timeout=600, deadlock=False,
                  require_actions=("NewCb", "NewMbi", "SetApp", "Sb", "Parse", "CbBin", "Export", "Rom", "Judge"))


def hist_plan(v, g):
    """What the history run planned: per kind the maximal programs (a program that is the beginning of another one is run with it) and
    the classes (who wrote the block in hand last, age of the MBI object, its length register vs the image) of every export."""
    v.add_mc(g)
    progs, classes, kept = {}, {}, {}
    for j in g.json_prints():
        ops = [(o["op"], o["a"]) for o in j["prog"]]
        pre = j["pre"]
        if j["hx"] == "kept":  # the lemma KeptRejected, not a plan: which sources of a stale length the model exporter trips over
            want = "Rejected" if pre["rel"] in ("sb", "longer", "shorter") else "Accepted"
            if j["verdict"] != want:
                raise Machinery(f"GEN: the ROM model says {j['verdict']} to an image whose header keeps the length the block held ({pre})")
            if j["verdict"] == "Rejected":
                kept.setdefault(j["kind"], set()).add((pre["src"], pre["rel"]))
            continue
        if j["verdict"] != "Accepted":
            raise Machinery(f"GEN: the ROM model does not accept the image of the format after the history {ops}")
        progs.setdefault(j["kind"], []).append(j["prog"])
        classes.setdefault(j["kind"], set()).add((pre["src"], pre["age"], pre["rel"], pre["chg"]))
    for k in ("v1_xip", "v1_ram", "v1_enc"):
        need = {(s, r) for s in HIST_SRC for r in ("longer", "shorter") if s != "sb"} | {("sb", "sb")}
        if not need <= kept.get(k, set()):
            raise Machinery(f"GEN: the stale-length lemma of kind {k} is vacuous for {sorted(need - kept.get(k, set()))}")
        if not {x for x in classes.get(k, ()) if x[2] in ("sb", "longer", "shorter")}:
            raise Machinery(f"GEN planned no history of kind {k} that leaves the length of something else in the block")
    plan = {}
    for k, ps in progs.items():
        keys = [tuple((o["op"], o["a"]) for o in p) for p in ps]
        plan[k] = [p for p, key in zip(ps, keys) if not any(len(o) > len(key) and o[:len(key)] == key for o in keys)]
    if set(plan) != {"crc_xip", "crc_ram", "v1_xip", "v1_ram", "v1_enc", "v21_dig", "v21_crc"} or not all(plan.values()):
        raise Machinery(f"GEN planned no history for some kind: { {k: len(x) for k, x in plan.items()} }")
    return {"progs": plan, "classes": classes, "kept": {k: sorted(x) for k, x in kept.items()}}


def make_hist_cases(comps, tier, r, hplan, first):
    """Every maximal program x every composition of its kind (thorough: x every TrustZone block size of the composition)."""
    cases = []
    quick = tier == "quick"
    for comp in comps:
        if comp["kind"] == "dsc":
            continue
        mems = comp["members"]
        by_tz = {}
        for m in mems:
            by_tz.setdefault(m["tz"], []).append(m)
        reps = [x[0] for x in by_tz.values()]
        long = sorted({aligned(n): n for n in LENS if n >= 64}.values())  # payloads of pairwise different aligned size, not the unsettled corner
        for prog in hplan["progs"][comp["kind"]]:
            for mem in ([r.choice(reps) if r.random() < 0.7 else r.choice(mems)] if quick else reps):
                c = {"comp": comp["id"], "kind": comp["kind"], "family": mem["family"], "target": mem["target"], "auth": mem["auth"]}
                c.update(common_opts(comp, mem, r, tier))
                sizes = sorted({o["a"] for o in prog if o["a"]})
                parse = any(o["op"] == "Parse" for o in prog)
                if parse:  # what the reader gives back of custom TrustZone data / relocation tables is the subject of C01 (known findings there)
                    if c["tz"] == "custom":
                        c["tz"] = "default"
                    c["reloc"] = []
                pick = sorted(r.sample(range(len(long)), len(sizes)))
                c["hist"] = {"prog": [{k: o[k] for k in ("op", "a", "cbl", "src", "age", "rel", "chg")} for o in prog],
                             "lens": {str(a): long[i] for a, i in zip(sizes, pick)},  # the order of the abstract sizes is kept
                             "setapp": r.choice(["attr", "file"]), "sections": r.randrange(1, 3)}
                c["len"] = c["hist"]["lens"][str(sizes[0])]
                if comp["cb"] == 1:
                    c["v1"] = {"bits": 2048 if quick else r.choice(K.RSA_BITS), "nroots": r.randrange(1, 5), "used": 0, "depth": r.choice([1, 2])}
                elif comp["cb"] == 21:
                    curve, n = r.choice(["p256", "p384"]), r.randrange(1, 5)
                    isk = r.choice([None, "p256_isk"])
                    c.update(v21={"curve": curve, "roots": [f"r{i}" for i in range(n)], "used": r.randrange(n), "isk": isk, "ud": r.choice([0, 4]) if isk else 0,
                                  "cons": r.getrandbits(31)}, digest=None)
                c["route"] = "hist"
                c["id"] = f"h{first + len(cases)}"
                cases.append(c)
    return cases


def hist_replay(case, comp, d, upto=None):
    """Replays the program of a history case on real objects. Returns (exports, failure): exports = one record per Export of the program
    (bytes, what the ROM model is told, the register of the block object in front of the export); failure = None or (op index, exception)."""
    from spsdk.crypto.signature_provider import SignatureProvider
    from spsdk.image.mbi.mbi import MasterBootImage, get_mbi_class
    from spsdk.utils.crypto.cert_blocks import CertBlockV1, CertBlockV21

    os.makedirs(d, exist_ok=True)
    CB = {0: None, 1: CertBlockV1, 21: CertBlockV21}[comp["cb"]]
    h = case["hist"]
    cfgs = {}

    def cfg_of(a):  # the configuration of the case with the payload of abstract size a (same options, same keys, same TrustZone data)
        if a not in cfgs:
            cfgs[a] = make_cfg(dict(case, len=h["lens"][str(a)]), comp, os.path.join(d, f"app{a}"), None)
        return cfgs[a]

    first = next(o["a"] for o in h["prog"] if o["a"])
    st = {"hand": None, "bin": None, "m": None, "ctx": None, "app": None, "last": None}

    def provider():
        return SignatureProvider.create(f"type=file;file_path={cfg_of(first)[1]['signers']['img']}")

    def hand():
        if st["hand"] is None:  # a block nobody has used yet: from the configuration
            st["hand"] = CB.from_config(cfg_of(first)[0], search_paths=[d])
        return st["hand"]

    exports = []
    for i, o in enumerate(h["prog"]):
        try:
            if o["op"] == "NewCb":
                st.update(hand=None, bin=None, m=None)
            elif o["op"] == "NewMbi":
                cfg, ctx = cfg_of(o["a"])
                if CB and st["bin"]:  # the block cut out of an image: the configuration names the binary
                    cfg = {k: x for k, x in cfg.items() if not k.startswith(("rootCertificate", "chainCertificate", "mainRootCertId"))}
                    cfg["certBlock"] = st["bin"]
                m = get_mbi_class(cfg)()
                m.load_from_config(cfg, search_paths=[d])
                if CB and not st["bin"] and st["hand"] is not None:  # the block in hand goes into the new object: the class constructor
                    kw = {}
                    for base in type(m).__mro__:
                        for name in getattr(base, "NEEDED_MEMBERS", {}):
                            kw[name] = getattr(m, name)
                    kw.update(cert_block=st["hand"], family=m.family, revision=m.revision, search_paths=[d])
                    m = type(m)(**kw)
                if CB:
                    st["hand"] = m.cert_block
                st.update(m=m, ctx=ctx, app=ctx["app"], bin=None)
            elif o["op"] == "SetApp":
                cfg, ctx = cfg_of(o["a"])
                if h["setapp"] == "file":
                    st["m"].load_binary_image_file(cfg["inputImageFile"])
                else:
                    st["m"].app = ctx["app"]
                st["app"] = ctx["app"]
            elif o["op"] == "Sb":
                from spsdk.sbfile.sb2.commands import CmdErase
                from spsdk.sbfile.sb2.images import BootImageV21, BootSectionV2

                sbf = BootImageV21(kek=bytes(32), product_version="1.0.0", component_version="1.0.0", build_number=1)
                sbf.cert_block = hand()
                sbf.signature_provider = provider()
                for k in range(h["sections"]):
                    sbf.add_boot_section(BootSectionV2(k, CmdErase(address=0x1000 * k, length=0x1000)))
                sbf.export()
                st["bin"] = None
            elif o["op"] == "Parse":
                ctx = st["last"]["ctx"]
                m = MasterBootImage.parse(case["family"], st["last"]["data"], dek=ctx["uk"].hex() if ctx["uk"] else None)
                if CB:
                    m.signature_provider = provider()  # the reader cannot know the private key
                    st["hand"] = m.cert_block
                if ctx["uk"] and not getattr(m, "hmac_key", None):
                    m.hmac_key = ctx["uk"]
                st.update(m=m, ctx=ctx, app=st["last"]["app"], bin=None)
            elif o["op"] == "CbBin":
                ev = st["last"]["ev"]
                if comp["cb"] == 1:
                    a = next(e["at"] for e in ev if e["ev"] == "CertBlockV1")
                    z = next(aligned(e["at"] + e["len"]) for e in ev if e["ev"] == "RkhTable")
                else:
                    a = next(e["at"] for e in ev if e["ev"] == "CertBlockV21")
                    z = next(e["at"] for e in ev if e["ev"] == "CertBlockEnd")
                path = os.path.join(d, f"certblock{i}.bin")
                open(path, "wb").write(st["last"]["data"][a:z])
                st.update(hand=CB.from_config({"certBlock": path}, search_paths=[d]), bin=path, m=None)
            elif o["op"] == "Export":
                m, ctx = st["m"], st["ctx"]
                reg_len = m.cert_block.image_length if comp["cb"] == 1 else None
                data = m.export()
                rom = rom_of(comp, ctx["mem"])
                sec = {"userKey": ctx["uk"], "fuse": m.rkth if comp["cb"] else None, "plain": None}
                payload = payload_of(comp, st["app"], ctx["rel"])
                if comp["type"] == 3:
                    sec["plain"] = R.mask_rom_words(payload) + ctx["tz_data"]
                ev, reg = R.walk(data, rom, sec)
                prev = st["last"]
                st["last"] = {"data": data, "ev": ev, "ctx": ctx, "app": st["app"]}
                st["bin"] = None
                # did the real block object hold what the model says it holds in front of this export?
                reached = None
                if comp["cb"] == 1:
                    prev_hdr = next((e["imgLen"] for e in (prev["ev"] if prev else ()) if e["ev"] == "CertBlockV1"), None)
                    reached = (reg_len == 0) if o["cbl"] == 0 else (reg_len != 0) if o["src"] == "sb" else (reg_len != 0 and reg_len == prev_hdr)
                exports.append({"k": len(exports), "op": i, "data": data, "rom": rom, "sec": sec, "pay": len(payload), "ev": ev, "reg": reg,
                                "len": len(st["app"]), "reached": reached, "pre": {k: o[k] for k in ("cbl", "src", "age", "rel", "chg")}})
                if upto is not None and len(exports) > upto:
                    break
            else:
                raise Machinery(f"GEN named an operation the harness cannot replay: {o}")
        except Machinery:
            raise
        except Exception as x:  # noqa: BLE001 - the tool refuses a step: nothing is exported from here on, nothing is judged
            return exports, (i, x)
    return exports, None


def run_hist(job):
    """Worker: one history -> one result per exported image (+ one for a refused step)."""
    case, comp = job
    exports, failure = hist_replay(case, comp, os.path.join(scratch(), "c02", case["id"]))
    out = []
    for e in exports:
        cid = f"{case['id']}.e{e['k']}"
        out.append({"id": cid, "of": case["id"], "outcome": "exported", "trace": {"id": cid, "rom": e["rom"], "pay": e["pay"], "ev": e["ev"]},
                    "n": len(e["data"]), "tamper": [], "reg": e["reg"], "sha": sha(e["data"].hex()), "hist_reached": e["reached"],
                    "hstep": {"k": e["k"], "op": e["op"], "pre": e["pre"]}, "len": e["len"]})
    if failure:
        from spsdk.exceptions import SPSDKError

        i, x = failure
        out.append({"id": f"{case['id']}.x{i}", "of": case["id"], "outcome": "refused" if isinstance(x, SPSDKError) else "crash",
                    "exc": f"{case['hist']['prog'][i]['op']}: {type(x).__name__}: {str(x)[:200]}"})
    return out


# ------------------------------------------------------------------ run
def mc_run(tier):
    return tlc.mc("C02", "MbiRomMC", "MbiRomMC.cfg", env={"MC_FULL": "0" if tier == "quick" else "1"}, workers=4 if tier == "quick" else 16, heap="8g",
               timeout=900, deadlock=True,
               require_actions=("ReadIvt", "CheckCrc", "CheckHmac", "CertBlockV1", "CertV1", "RkhTable", "VerifySigV1", "Decrypt", "CertBlockV21",
                                "RootKeyRecord", "IskCert", "CertBlockEnd", "Manifest", "ManifestCrc", "VerifySigV21", "CheckDigest", "Accept", "Emit",
                                "CertSplit"))


def mc_plan(v, g):
    """What the GEN run planned: tamper verdicts per (kind, field class, corner), payload lengths below byte 64 per kind,
    special value classes of chained computations per kind."""
    v.add_mc(g)
    plan, small, special, backends, asis = {}, {}, {}, {}, 0
    udplan, udroutes, padded = {}, None, 0
    for j in g.json_prints():
        if j["udx"] != "exported":  # user data exported padded but signed as given: the lemma PaddedUnsignedRejected, not a plan
            if j["verdict"] != "Rejected" or j["udOut"] == j["ud"]:
                raise Machinery(f"GEN: the ROM model does not reject ISK user data that are exported padded and signed unpadded: {j}")
            padded += 1
            continue
        if j["udShape"] and j["cls"] == "none" and j["sp"]["what"] == "none" and j["be"] == {"img": "key", "isk": "key", "emb": "nxp"}:
            if j["verdict"] != "Accepted":
                raise Machinery(f"GEN: the ROM model does not accept ISK user data of {j['ud']} bytes (kind {j['kind']})")
            u = {"curve": j["curve"], "iskLen": j["isk"], "ud": j["ud"], "cls": j["udClass"]}
            if u not in udplan.setdefault(j["kind"], []):
                udplan[j["kind"]].append(u)
            if udroutes not in (None, sorted(j["udRoutes"])):
                raise Machinery("GEN: the routes of the user-data lane differ between lines")
            udroutes = sorted(j["udRoutes"])
        if j["be"]["emb"] != "nxp":  # a DER blob stored as delivered: the lemma AsDeliveredRejected, not a plan
            if j["verdict"] != "Rejected":
                raise Machinery(f"GEN: the ROM model does not reject a signature blob stored as delivered: {j}")
            asis += 1
            continue
        if j["beShape"] and j["cls"] == "none" and j["sp"]["what"] == "none":
            if j["verdict"] != "Accepted":
                raise Machinery(f"GEN: the ROM model does not accept the image signed by {j['be']} (kind {j['kind']})")
            b = {"img": j["be"]["img"], "isk": j["be"]["isk"], "curve": j["curve"], "iskLen": j["isk"]}
            if b not in backends.setdefault(j["kind"], []):
                backends[j["kind"]].append(b)
        k = (j["kind"], j["cls"], bool(j["corner"]))
        if plan.setdefault(k, j["verdict"]) != j["verdict"]:
            raise Machinery(f"GEN: field class {k} has both verdicts")
        if j["app"] < 64:
            small.setdefault(j["kind"], set()).add(j["app"])
        if j["sp"]["what"] != "none":
            if j["verdict"] != "Accepted":
                raise Machinery(f"GEN: the ROM model does not accept the special {j['sp']} of kind {j['kind']}")
            if j["sp"] not in special.setdefault(j["kind"], []):
                special[j["kind"]].append(j["sp"])
    for k in special:
        special[k].sort(key=lambda sp: (sp["what"], sp["cut"], sp["cls"]))
    if len(plan) < 80:
        raise Machinery(f"GEN emitted only {len(plan)} (kind, field class) pairs")
    if not all(small.get(k) for k in ("crc_xip", "crc_ram", "v1_xip", "v1_ram", "v1_enc", "v21_dig", "v21_crc")):
        raise Machinery(f"GEN emitted no payload length below byte 64 for some kind: {small}")
    if sum(len(x) for x in special.values()) < 40 or not all(special.get(k) for k in ("crc_xip", "crc_ram", "v21_crc", "v1_enc")):
        raise Machinery(f"GEN emitted too few special value classes: {special}")
    for k in backends:
        backends[k].sort(key=lambda b: (b["curve"], b["iskLen"], b["img"], b["isk"]))
    want = {"v1_xip": 5, "v1_ram": 5, "v1_enc": 5, "v21_dig": 2 * 6 + 3 * 36, "v21_crc": 2 * 6 + 3 * 36}
    if {k: len(x) for k, x in backends.items()} != want or not asis:
        raise Machinery(f"GEN emitted an unexpected plan of signing back ends: { {k: len(x) for k, x in backends.items()} }, stored-as-delivered lines: {asis}")
    for k in udplan:
        udplan[k].sort(key=lambda u: (u["curve"], u["iskLen"], u["ud"]))
    pairs = {(32, 64), (48, 64), (48, 96)}
    for k in ("v21_dig", "v21_crc"):
        got = {(u["curve"], u["iskLen"], u["cls"], u["ud"] >= 8) for u in udplan.get(k, ())}
        need = {(c, i, cls, big) for (c, i) in pairs for cls in ("aligned", "r1", "r2", "r3") for big in (False, True)} | {(c, i, "none", False) for (c, i) in pairs}
        if not need <= got:
            raise Machinery(f"GEN: the plan of ISK user data lengths of kind {k} lacks {sorted(need - got)[:5]}")
    if set(udroutes or ()) != {"cfg", "class_family", "class"} or not padded:
        raise Machinery(f"GEN emitted an unexpected plan of user-data routes: {udroutes}; padded-but-unsigned lines: {padded}")
    return {"plan": plan, "small": small, "special": special, "backends": backends, "asis": asis, "udplan": udplan, "udroutes": udroutes,
            "padded": padded}


def canary(good_trace):
    good = json.loads(json.dumps(good_trace))
    good["id"] = "canary-good"
    bads = []
    for i, e in enumerate(good["ev"]):
        if e["ev"] in ("VerifySigV1", "VerifySigV21"):
            b1 = json.loads(json.dumps(good))
            b1["id"] = "canary-bad-range"
            if e["ev"] == "VerifySigV1":
                b1["ev"][i]["segs"][1][1] -= 4  # the last word before the signature left unsigned
            else:
                b1["ev"][i]["to"] -= 4
            b2 = json.loads(json.dumps(good))
            b2["id"] = "canary-bad-fact"
            b2["ev"][i]["ok"] = False
            bads += [b1, b2]
    # the header of certificate block v1 names the authenticated length of THIS image: the same trace with the length of another image in it
    i = next((i for i, e in enumerate(good["ev"]) if e["ev"] == "CertBlockV1"), None)
    if i is None:
        raise Machinery("canary: no certificate block v1 in the known-good trace")
    for name, delta in (("canary-stale-header-length-longer", 4), ("canary-stale-header-length-shorter", -236)):
        b5 = json.loads(json.dumps(good))
        b5["id"] = name
        b5["ev"][i]["imgLen"] += delta
        bads.append(b5)
    b3 = json.loads(json.dumps(good))
    b3["id"] = "canary-skipped-step"
    del b3["ev"][-2]
    bads.append(b3)
    if len(bads) < 3:
        raise Machinery("canary: no signature step in the known-good trace")
    # the exit for the unsettled corner must not be open to an ordinary image: the same trace cut short behind its HMAC check
    k = next((i for i, e in enumerate(good["ev"]) if e["ev"] == "CheckHmac"), None)
    if k is None:
        raise Machinery("canary: no HMAC step in the known-good trace")
    w28 = good["ev"][0]["w28"][0] * 65536 + good["ev"][0]["w28"][1]
    for name, pay in (("canary-split-ordinary-image", w28), ("canary-split-claimed-short-payload", 56)):
        b4 = json.loads(json.dumps(good))
        b4.update(id=name, pay=pay, ev=b4["ev"][:k + 1] + [{"ev": "CertSplit", "at": w28}])
        bads.append(b4)
    return [good] + bads


def canary_ud(isk_trace):
    """ISK user data off a multiple of 4, independent of the tree: the trace of a golden image with an ISK certificate and user data,
    every offset behind the user data moved as if they were 1, 2, 3 bytes shorter (accepted: the ROM model decides no alignment),
    and of each the copy whose ISK signature range stops where the user data AS GIVEN ended while the file carries them padded to the
    next multiple of 4 - once reported by an honest executor (fact false), once with the fact claimed true (range clause)."""
    moved = {"ReadIvt": ("fileLen", "totalLen"), "CertBlockV21": ("size",), "IskCert": ("udLen", "sigOff", "sigAt", "to"), "CertBlockEnd": ("at", "size"),
             "Manifest": ("at",), "ManifestCrc": ("at", "to"), "VerifySigV21": ("to", "sigAt"), "CheckDigest": ("at", "to")}
    goods, bads = [], []
    for cut in (1, 2, 3):
        g = json.loads(json.dumps(isk_trace))
        g["id"] = f"canary-ud-good-{cut}"
        for e in g["ev"]:
            if e["ev"] not in moved and e["ev"] not in ("RootKeyRecord", "Accept"):
                raise Machinery(f"canary: no rule to move the event {e['ev']} of the golden ISK trace")
            for k in moved.get(e["ev"], ()):
                e[k] -= cut
        i = next(k for k, e in enumerate(g["ev"]) if e["ev"] == "IskCert")
        if g["ev"][i]["udLen"] % 4 == 0 or g["ev"][i]["udLen"] < 4:
            raise Machinery("canary: the golden ISK trace has no user data to shorten")
        goods.append(g)
        b1 = json.loads(json.dumps(g))
        b1["id"] = f"canary-ud-padded-unsigned-fact-{cut}"
        b1["ev"][i]["ok"] = False
        b2 = json.loads(json.dumps(g))
        b2["id"] = f"canary-ud-padded-unsigned-range-{cut}"
        b2["ev"][i]["to"] -= 4 - cut  # the padding bytes of the file are left out of the verified range
        bads += [b1, b2]
    return goods, bads


def canary_verdict(rej, can):
    got = {t["id"] for t in can if t["id"] in rej}
    want = {t["id"] for t in can if "-good" not in t["id"]}
    if got != want:
        raise Machinery(f"canary failed: rejected {sorted(got)}, expected exactly {sorted(want)}")
    return (f"{len(can) - len(want)} known-good traces accepted (a golden image; its ISK twin with user data of 1, 2, 3 mod 4 bytes); {len(want)} "
            f"corrupted copies (signed range short by one word, crypto fact false, step skipped, header of certificate block v1 holding the length of "
            f"another image, ordinary image leaving through the unsettled-corner exit, ISK user data padded in the file but outside the ISK signature) rejected")


def anchors():
    """Golden images of earlier tool versions (anchors/C02): the ROM model has to accept every one of them."""
    from lib.common import ROOT

    d = os.path.join(ROOT, "anchors", "C02")
    idx = json.load(open(os.path.join(d, "index.json")))
    tr = []
    for e in idx:
        b = open(os.path.join(d, e["file"]), "rb").read()
        sec = {"userKey": bytes.fromhex(e["userKey"]) if e["userKey"] else None, "fuse": R.ANY_FUSE, "plain": None}
        if e["plain"]:
            pa = open(os.path.join(d, e["plain"]), "rb").read()
            sec["plain"] = R.mask_rom_words(pa + bytes(-len(pa) % 4))
        ev, _ = R.walk(b, e["rom"], sec)
        tr.append({"id": "anchor:" + e["file"], "rom": e["rom"], "ev": ev})
    if len(tr) < 90:
        raise Machinery(f"only {len(tr)} golden images in {d}")
    return tr


def anchors_verdict(rej, anc):
    bad = {t["id"]: rej[t["id"]] for t in anc if t["id"] in rej}
    if bad:
        raise Machinery(f"the ROM model rejects {len(bad)} of {len(anc)} golden images: {sorted(bad.items())[:3]}")
    return len(anc)


def decide(v, cases_by_id, comps_by_id, results, plan, tier, can, anc):
    traces, tampers = [], []
    for res in results:
        if res["outcome"] != "exported":
            continue
        traces.append(res["trace"])
        tampers += res["tamper"]
    for t in traces + tampers:
        if not t["ev"] or t["ev"][-1]["ev"] not in ("Accept", "Reject", "CertSplit"):
            raise Machinery(f"executor produced an open-ended trace {t['id']}")
    rej = {}
    allt = can + anc + traces + [{"id": t["id"], "rom": t["rom"], "pay": t["pay"], "ev": t["ev"]} for t in tampers]
    chunk = 60000
    tv_states = 0
    for k in range(0, len(allt), chunk):
        rj, res = tlc.tv("C02", "MbiRomTrace", allt[k:k + chunk], heap="12g", timeout=1800)
        rej.update(rj)
        tv_states += res.distinct
    v.extra["tv_states"] = tv_states
    v.extra["canary"] = canary_verdict(rej, can)  # first of all: the monitor is bound to something
    v.extra["anchors_accepted"] = anchors_verdict(rej, anc)
    v.traces(len(traces) + len(tampers))
    by_id = {t["id"]: t for t in traces}
    n_acc = 0
    v.extra["unsettled_corner_prefix_accepted"] = 0
    for t in traces:
        case = cases_by_id[t["id"]]
        if t["id"] not in rej:
            n_acc += 1
            if t["ev"][-1]["ev"] == "CertSplit":  # ReadIvt + CheckHmac hold; TLC agreed that the rest is the unsettled corner
                v.extra["unsettled_corner_prefix_accepted"] += 1
            v.nontrivial((case["comp"], key_class(case), feature_class(case), case["len"] % 4, case["tz"]))
            continue
        matched, length, evname = rej[t["id"]]
        e = t["ev"][min(matched, len(t["ev"]) - 1)]
        step = evname if evname != "Reject" else f"Reject:{e.get('why', '')}"
        key = f"C02/{case['comp']}/{step}/{key_class(case)}/{feature_class(case)}"
        v.violation(key, f"{case['family']} {case['target']}/{case['auth']}: the ROM automaton rejects the exported image at step #{matched + 1} "
                    f"{json.dumps(e)[:300]}", {"case": case, "trace": t, "failed_event": matched + 1})
    # tamper verdicts as TLC predicted them in the GEN run
    tam_stats, mismatch = {}, []
    for t in tampers:
        case = cases_by_id[t["id"].split("#")[0]]
        if case["id"] in rej:
            continue
        corner = by_id[case["id"]]["ev"][-1]["ev"] == "CertSplit"
        exp = plan.get((case["kind"], t["cls"], corner))
        if exp is None:
            raise Machinery(f"executor named a field class the spec does not know: {case['kind']}/{t['cls']} (corner: {corner})")
        got = "Rejected" if t["id"] in rej else "Unsettled" if t["ev"][-1]["ev"] == "CertSplit" else "Accepted"
        st = tam_stats.setdefault(f"{case['kind']}{'~corner' if corner else ''}/{t['cls']}", {"Rejected": 0, "Accepted": 0, "Unsettled": 0, "expected": exp})
        st[got] += 1
        if got != exp:
            mismatch.append(f"tamper run {t['id']} ({case['kind']}/{t['cls']}, {case['comp']}): automaton says {got}, the model predicted {exp}: "
                            f"{json.dumps(t['ev'][-2:])[:300]}")
    return n_acc, tam_stats, mismatch


def run(tier):
    import_spsdk()
    from spsdk.apps import nxpimage  # noqa: F401 - imported before the workers are forked

    missing = K.verify_pool()
    if missing:
        raise Machinery(f"key pool incomplete ({K.POOL}): {missing[:5]} - run harness/lib/mbi_keys.py")
    v = Verdict(PROP, tier)
    r = rng(PROP)

    comps = compositions()
    comps_by_id = {c["id"]: c for c in comps}
    say(f"[C02] {len(comps)} protected mixin compositions in the database ({sum(1 for c in comps if c['kind'] == 'dsc')} DSC, outside the domain)")
    scratch()
    # MC + GEN first: lemmas of the ROM model, the tamper plan and the plan of the lengths / special values the cases have to reach
    # (the history model runs beside it in a thread; lib.tlc numbers its work directories with a counter: wait until the thread has made its own)
    import threading
    import time

    hbox, n0 = {}, tlc._counter[0]

    def _hist():
        try:
            hbox["res"] = hist_mc(tier)
        except BaseException as x:  # noqa: BLE001 - handed to the main thread
            hbox["exc"] = x

    th = threading.Thread(target=_hist)
    th.start()
    while th.is_alive() and not os.path.isdir(os.path.join(scratch(), f"tlc-{n0 + 1}")):
        time.sleep(0.02)
    gen = mc_plan(v, mc_run(tier))
    th.join()
    if "exc" in hbox:
        raise hbox["exc"]
    hplan = hist_plan(v, hbox["res"])
    plan = gen["plan"]
    n_sp = sum(len(x) for x in gen["special"].values())
    say(f"[C02] MC done {v.timer.s()}s: {v.cov['states']} states, {len(plan)} (kind, field class) verdicts, payload lengths below byte 64: "
        f"{sorted(set().union(*gen['small'].values()))}, {n_sp} special value classes of chained computations")
    cases = make_cases(comps, tier, r, gen)
    hcases = make_hist_cases(comps, tier, r, hplan, len(cases))
    say(f"[C02] histories: {sum(len(x) for x in hplan['progs'].values())} maximal programs planned by TLC "
        f"({', '.join(f'{k} {len(x)}' for k, x in sorted(hplan['progs'].items()))}), {len(hcases)} (program, composition) cases")
    cases_by_id = {c["id"]: c for c in cases}

    # tamper selection: per (composition, key class) one image with class-wise flips; thorough: + every bit of the smallest image per kind
    # (images with a special value / of the signing back-end lane are ordinary images as far as the regions go: not tampered with)
    seen, tam = set(), {}
    for c in cases:
        if c.get("special") or c.get("be") or c.get("udr") or c.get("hist"):
            continue
        k = (c["comp"], key_class(c).split("-")[0], feature_class(c)) if tier == "quick" else (c["comp"], key_class(c), feature_class(c))
        if k not in seen:
            seen.add(k)
            tam[c["id"]] = "classes"

    jobs = [(c, comps_by_id[c["comp"]], tam.get(c["id"])) for c in cases]
    # one pool for both lanes (the histories first: their programs are the longer jobs)
    parts = pmap(lambda j: run_hist(j) if len(j) == 2 else [run_case(j)], [(c, comps_by_id[c["comp"]]) for c in hcases] + jobs, chunksize=4)
    results = [part[0] for part in parts[len(hcases):]]
    # the histories: one result per exported image of a program (its case: the program's case + which export it is)
    hist_stats, hist_missed, hist_refused = {}, [], []
    hcase = {c["id"]: c for c in hcases}
    for res in (x for part in parts[:len(hcases)] for x in part):
        c0 = hcase[res["of"]]
        if res["outcome"] != "exported":
            hist_refused.append(f"{c0['comp']}: {res['exc']}")
            continue
        c = dict(c0, id=res["id"], len=res["len"], hstep=res["hstep"])
        cases_by_id[c["id"]] = c
        results.append(res)
        h = res["hstep"]["pre"]
        st = hist_stats.setdefault(f"{c['kind']}/{h['src']}/{h['age']}/{h['rel']}/{h['chg']}", {"exported": 0, "compositions": set(), "register_confirmed": 0})
        st["exported"] += 1
        st["compositions"].add(c["comp"])
        st["register_confirmed"] += res["hist_reached"] is True
        if res["hist_reached"] is False:
            hist_missed.append(f"{c['id']} {c['comp']} {h}")
    # every class TLC planned has to be exported in every composition of its kind (a refused step would hide the rest of its program)
    hist_holes = []
    for cp in comps:
        if cp["kind"] == "dsc":
            continue
        for (src, age, rel, chg) in sorted(hplan["classes"][cp["kind"]]):
            if cp["id"] not in hist_stats.get(f"{cp['kind']}/{src}/{age}/{rel}/{chg}", {"compositions": ()})["compositions"]:
                hist_holes.append(f"{cp['id']}: {src}/{age}/{rel}/{chg}")
    for st in hist_stats.values():
        st["compositions"] = len(st["compositions"])
    v.extra["histories"] = hist_stats
    v.extra["histories_refused_steps"] = sorted(set(hist_refused))[:20]
    v.extra["histories_not_reached"] = (hist_missed + hist_holes)[:20]
    v.extra["stale_length_rejected_by_model"] = hplan["kept"]
    say(f"[C02] histories: {sum(st['exported'] for st in hist_stats.values())} images exported along {len(hcases)} programs, {len(hist_stats)} "
        f"(kind, block written by, object age, register vs image, payload vs last image) classes, register of the real block object confirmed in front of "
        f"{sum(st['register_confirmed'] for st in hist_stats.values())} exports, {len(hist_refused)} steps refused by the tool")
    v.count(len(results))
    out = {}
    for res in results:
        out[res["outcome"]] = out.get(res["outcome"], 0) + 1
    say(f"[C02] {len(results)} cases built and walked {v.timer.s()}s: {out}")
    # the length classes of the ISK user data: a refusal (SPSDKError) of a length that is no multiple of 4 / above the family's limit
    # exports nothing and is no judgement about an image - recorded; every other refusal counts as one of the builder below
    ud_stats, ud_refusal = {}, set()
    for res in results:
        c = cases_by_id[res["id"]]
        if c.get("udr"):
            st = ud_stats.setdefault(f"{c['kind']}/{c['udcls']}/{c['udr']}", {"planned": 0, "exported": 0, "refused": 0})
            st["planned"] += 1
            st["exported"] += res["outcome"] == "exported"
            mem = next(m for m in comps_by_id[c["comp"]]["members"] if (m["family"], m["target"], m["auth"]) == (c["family"], c["target"], c["auth"]))
            if res["outcome"] == "refused" and (c["v21"]["ud"] % 4 or c["v21"]["ud"] > mem["ud_limit"]):
                st["refused"] += 1
                ud_refusal.add(res["id"])
    n_plan = sum(len(gen["udplan"][cp["kind"]]) * len(gen["udroutes"]) for cp in comps if cp["kind"] != "dsc" and cp["cb"] == 21)
    if len({(c["comp"], c["udr"], c["v21"]["curve"], c["v21"]["isk"], c["v21"]["ud"]) for c in cases if c.get("udr")}) != n_plan:
        raise Machinery(f"the user-data lane does not cover the {n_plan} (composition, curve, ISK, length, route) combinations TLC planned")
    v.extra["isk_user_data_lengths"] = ud_stats
    v.extra["isk_user_data_refusals"] = sorted({f"{cases_by_id[res['id']]['udcls']}/{cases_by_id[res['id']]['udr']}: {res['exc']}"
                                                for res in results if res["id"] in ud_refusal})[:12]
    v.extra["padded_but_unsigned_rejected_by_model"] = gen["padded"]
    say(f"[C02] ISK user data: {sum(st['exported'] for st in ud_stats.values())}/{sum(st['planned'] for st in ud_stats.values())} images of "
        f"{len(ud_stats)} (kind, length class, route) classes exported, {len(ud_refusal)} lengths off a multiple of 4 refused by the tool "
        f"(classes with an exported image off a multiple of 4: {sorted(k for k, st in ud_stats.items() if st['exported'] and k.split('/')[1] in ('r1', 'r2', 'r3'))})")
    bad = [res for res in results if res["outcome"] != "exported" and res["id"] not in ud_refusal]
    v.extra["builder_refusals"] = [f"{cases_by_id[b['id']]['comp']}: {b['exc']}" for b in bad[:20]]
    if len(bad) > len(results) // 20:
        raise Machinery(f"{len(bad)} of {len(results)} configurations were refused by the builder, e.g. {bad[0]['exc']} for {cases_by_id[bad[0]['id']]}")

    # the planned special values: every one has to be reached on the exported bytes (else the generator did not do its job)
    sp_stats, missed = {}, []
    for res in results:
        c = cases_by_id[res["id"]]
        if res["outcome"] == "exported" and c.get("special"):
            if res.get("patch"):
                c["patch"] = res["patch"]  # the witness of a violation replays the crafted word
            st = sp_stats.setdefault(f"{c['kind']}/{c['special']['what']}", {"planned": 0, "reached": 0})
            st["planned"] += 1
            st["reached"] += bool(res.get("reached"))
            if not res.get("reached"):
                missed.append(f"{c['id']} {c['comp']} {c['special']}")
    v.extra["special_values"] = sp_stats
    v.extra["special_values_not_reached"] = missed[:20]
    say(f"[C02] special values of chained computations reached on the exported bytes: "
        + ", ".join(f"{k} {st['reached']}/{st['planned']}" for k, st in sorted(sp_stats.items())))

    # the planned signing back ends: every one built in every composition; the plug-in back ends confirm that they signed
    be_stats, be_missed = {}, []
    for res in results:
        c = cases_by_id[res["id"]]
        if c.get("be"):
            st = be_stats.setdefault(f"{c['kind']}/{c['be']['img']}/{c['be']['isk']}", {"planned": 0, "exported": 0, "plugin_confirmed": 0})
            st["planned"] += 1
            if res["outcome"] == "exported":
                st["exported"] += 1
                st["plugin_confirmed"] += res.get("be_reached") is True
                if res.get("be_reached") is False:
                    be_missed.append(f"{c['id']} {c['comp']} {c['be']}")
    n_plan = sum(len(gen["backends"][cp["kind"]]) for cp in comps if cp["kind"] != "dsc" and cp["cb"])
    if len({(c["comp"], c["be"]["img"], c["be"]["isk"], str(c.get("v21", {}).get("curve")), str(c.get("v21", {}).get("isk")))
            for c in cases if c.get("be")}) != n_plan:
        raise Machinery(f"the signing back-end lane does not cover the {n_plan} (composition, curve, ISK, back end pair) combinations TLC planned")
    v.extra["signing_back_ends"] = be_stats
    v.extra["signing_back_ends_not_confirmed"] = be_missed[:20]
    v.extra["stored_as_delivered_rejected_by_model"] = gen["asis"]
    say(f"[C02] signing back ends: {sum(st['exported'] for st in be_stats.values())}/{sum(st['planned'] for st in be_stats.values())} images of "
        f"{len(be_stats)} (kind, image signer, ISK certificate signer) classes exported, "
        f"{sum(st['plugin_confirmed'] for st in be_stats.values())} confirmed by the plug-in provider's own call record")

    if tier == "thorough":  # every bit of the smallest accepted image per kind (<= 4 KiB)
        best = {}
        for res in results:
            if res["outcome"] == "exported" and res["n"] <= 4096 and res["trace"]["ev"][-1]["ev"] == "Accept" and not cases_by_id[res["id"]].get("hist"):
                c0 = cases_by_id[res["id"]]
                feat = (c0["kind"], True) if c0.get("ks") else (c0["comp"], c0.get("tz") == "custom")
                if feat not in best or res["n"] < best[feat]["n"]:
                    best[feat] = res
        jobs2 = []
        for res in best.values():
            c = dict(cases_by_id[res["id"]])
            c["id"] = c["id"] + "all"
            cases_by_id[c["id"]] = c
            jobs2.append((c, comps_by_id[c["comp"]], "all"))
        # one image per worker is too coarse: split the bit plan instead
        results += all_bits(jobs2)
        say(f"[C02] every-bit tamper of {len(jobs2)} images done {v.timer.s()}s")

    anc = anchors()
    # known-good trace: a golden image (signed load-to-RAM image with HMAC), independent of the tree
    can = canary(next(t for t in anc if any(e["ev"] == "VerifySigV1" for e in t["ev"]) and any(e["ev"] == "CheckHmac" for e in t["ev"])))
    ud_good, ud_bad = canary_ud(next(t for t in anc if any(e["ev"] == "IskCert" and e["udLen"] == 96 for e in t["ev"]) and t["ev"][-1]["ev"] == "Accept"))
    can = can + ud_good + ud_bad

    n_acc, tam_stats, mismatch = decide(v, cases_by_id, comps_by_id, results, plan, tier, can, anc)
    v.extra["tamper_mismatches"] = mismatch[:20]
    n_tam = sum(s["Rejected"] + s["Accepted"] + s["Unsettled"] for s in tam_stats.values())
    v.extra["tamper_rejected"] = sum(s["Rejected"] for s in tam_stats.values())
    v.extra["tamper_accepted_dont_care"] = sum(s["Accepted"] for s in tam_stats.values())
    v.extra["tamper_behind_unsettled_corner"] = sum(s["Unsettled"] for s in tam_stats.values())
    v.extra["tamper_by_class"] = tam_stats
    planned = {f"{k[0]}{'~corner' if k[2] else ''}/{k[1]}" for k in plan if k[1] != "none"}
    v.extra["tamper_classes_not_exercised"] = sorted(planned - set(tam_stats))
    say(f"[C02] canary: {v.extra['canary']}; {v.extra['anchors_accepted']} golden images of earlier tool versions accepted by the ROM model")
    say(f"[C02] TV done {v.timer.s()}s: {n_acc} exported images pass the ROM automaton ({v.extra['unsettled_corner_prefix_accepted']} of them up to "
        f"the HMAC check: unsettled corner), {n_tam} tampered copies decided ({v.extra['tamper_rejected']} rejected, "
        f"{v.extra['tamper_accepted_dont_care']} key-store flips accepted, {v.extra['tamper_behind_unsettled_corner']} flips behind the unsettled corner, "
        f"as predicted)")
    ex = [res for res in results if res["outcome"] == "exported"]
    for res in (ex[0], ex[len(ex) // 3], ex[len(ex) // 2], ex[-1]):
        v.sample({"case": cases_by_id[res["id"]], "bytes": res["n"], "trace": res["trace"]["ev"]})
    if any(res["tamper"] for res in ex):
        t = next(res for res in ex if res["tamper"])["tamper"][0]
        v.sample({"tampered": t["id"], "class": t["cls"], "trace": t["ev"]})
    v.cov["rule"] = (
        "cases = protected mixin compositions of the device database x key material (v1: RSA 2048/3072/4096 x chain depth 1..4 x root-table "
        "size/index, one mixed-size chain; v2.1: P-256/P-384 x root-set size 1..4 x signing index x ISK none/P-256/P-384 x user data, keys with a "
        "leading zero coordinate byte) x seeded options (payload length class, TrustZone default/custom/disabled, relocation table 0..2, key store, "
        "HW-key flag, versions, sub-type, load address, counter IV) + the lanes TLC plans in the GEN run, built for every composition they apply "
        "to: payload lengths 0x38 / 0x3C / 64 (HMAC compositions: x relocation table x key store x TrustZone mode) and the special value classes "
        "of chained computations (running / final image CRC and manifest CRC = 0 / FFFFFFFF at offsets 0x20, 0x24, 0x28, 0x30, 0x34, 0x38, 0x40 "
        "(thorough: + 0x200, 0x400, 0x1000) and at the end, reached by a payload word solved over GF(2); AES-CTR counter start 0 / all ones / low 32 / low 64 bits all ones / drawn by SPSDK: class constructor without ctr_init_vector, exported once and twice) "
        "and the SIGNING BACK ENDS (who produces the image signature x who produces the ISK certificate signature: key file, signProvider type=file, "
        "the same with der_format=true, a plug-in SignatureProvider subclass of the minimal interface delivering r || s / ASN.1 DER / DER of a signature "
        "with a leading zero byte in r or s; every pair x P-256 / P-384 root x no ISK / P-256 / P-384 ISK for certificate block v2.1, every back end x "
        "RSA 2048/3072/4096 for certificate block v1, in every composition with a certificate block) "
        "and the LENGTH CLASSES OF THE ISK USER DATA (none / 4 / 96 / 1, 2, 3 / 93, 94, 95 bytes (thorough: + 5..7, 32..35, 61..64) x P-256 / P-384 root x "
        "P-256 / P-384 ISK x route: iskCertData of the configuration, CertBlockV21(family=...) + class constructor, the same without a family; in every "
        "composition with certificate block v2.1; a length the tool refuses exports nothing and is recorded, not judged) "
        "and the HISTORIES of the objects an image is built from (MbiHist.tla: NewCb / NewMbi(payload) / SetApp(payload) / Export / Sb (SB2.1 container signed "
        "with the same certificate block object) / Parse (last image read back) / CbBin (block cut out of the last image, read through `certBlock:`); one "
        "shortest program per abstract state (block written last by: nobody / export of this object / of an earlier object / SB2.1 / parse / binary; MBI object "
        "new / exported / parsed; length register of the block none / same / longer / shorter / the container's; payload first / same / grown / shrunk against the last image), every maximal program in every "
        "composition of its kind, every exported image of a program judged); each "
        "case is built by load_from_config/export, walked by the executor and "
        "decided by TLC; non-trivial = the trace reaches Accept (unsettled corner: CertSplit); distinct by (composition, key class, feature class, "
        "length mod 4, TrustZone mode)"
    )
    v.cov["checker_cmd"] = "TLC MbiRomMC (lemmas + tamper plan) ; TLC MbiRomTrace (decides every executor trace)"
    v.cov["trusted_base"] = ["hashlib", "hmac", "own CRC-32/MPEG-2 (table from the polynomial; bit-serial for the construction of special values)", "cryptography: RSA PKCS1v15 verify, ECDSA verify, AES-ECB, AES-CTR, X.509 DER parser",
                             "TLC + MbiRom.tla clauses"]
    v.assumptions += [
        "the ROM model per family (image type, certificate block version, HMAC / key store, manifest kind, TrustZone block size) is read from the device database",
        "the fuse value (RKTH) the ROM compares with is the one the tool reports (MasterBootImage.rkth); the hash over the embedded table / key is recomputed independently",
        "load-to-RAM images with HMAC whose payload (incl. relocation table) ends before byte 64: the HMAC field splits the certificate block; "
        "asserted are the header clauses and 'HMAC = HMAC-SHA256(AES-ECB(userKey, 0^16), first 64 bytes of the final file)' (the property text, "
        "independent of what follows); what the ROM does with the split block is not settled offline - the automaton stops in 'Unsettled' "
        "(SplitOK decides that only such images leave that way) and signature / chain / decryption of these images are NOT asserted",
        "AES-CTR counter: the standard 128-bit big-endian increment of the trusted base, also where the start value makes it carry or wrap",
        "DSC families (mc56f81xxx, mwct20xx: BCA-based CRC and Vx-signed images) are outside the domain: no offline description of that ROM's checks",
        "plain images carry nothing the ROM verifies and are not built",
        "the key store is a device-bound blob the ROM does not authenticate with the image: flips inside it are expected to be accepted",
        "ISK curves stronger than the root curve and manifest digests with another hash than the signature's are not generated (the tool itself says such images do not boot)",
        "v1 chains with mixed key sizes: one representative (2048-bit root, 4096-bit signing certificate)",
        "ISK user data whose length is no multiple of 4: no offline source says whether the ROM refuses them; the tool refuses them wherever it knows the "
        "family (configuration route, CertBlockV21(family=...)) and exports them when the classes are used without a family. The ROM model decides no "
        "alignment: asserted for whatever IS exported are the clauses of every image - the ISK signature verifies under the selected root key over the "
        "bytes in front of it exactly as they stand in the file, block size, manifest, image signature over all preceding bytes",
        "histories: the objects are used through their public interface only (load_from_config, class constructor with cert_block=, the `app` property / "
        "load_binary_image_file, export, MasterBootImage.parse + the signature provider and HMAC key the reader cannot know, `certBlock:` naming a binary "
        "block, BootImageV21.cert_block); a step the tool refuses exports nothing and is recorded, not judged; programs with Parse use default / disabled "
        "TrustZone and no relocation table (what the reader gives back of those is C01's subject, known findings there); containers other than SB2.1 "
        "(SB2.0: refuses a block left at alignment 16; SB3.1: certificate block v2.1 holds no field that depends on the image) are not generated; "
        "what is asserted for every exported image is the ROM model and nothing about the objects (their registers are read only to confirm the plan)",
        "signing back ends: a provider is used through the documented configuration entry (signPrivateKey / mainRootCertPrivateKeyFile / signProvider) and "
        "implements the documented interface (sign, signature_length); DER blobs are the ones `cryptography` (OpenSSL) emits, i.e. minimal-length INTEGERs; "
        "providers that return anything else (wrong width, other containers) are not generated; a remote proxy provider (type=proxy) is not run",
    ]
    rc = v.finish()
    if mismatch and rc == 0:  # the measurement of the verifier itself failed: not a verdict about SPSDK
        raise Machinery(f"{len(mismatch)} tamper runs did not end as the model predicted, e.g. {mismatch[0]}")
    if missed and rc == 0:  # the generator did not reach what TLC planned: the run proves less than it says
        raise Machinery(f"{len(missed)} planned special values were not reached on the exported bytes, e.g. {missed[0]}")
    if be_missed and rc == 0:
        raise Machinery(f"{len(be_missed)} images were not signed by the plug-in back end their case names, e.g. {be_missed[0]}")
    if (hist_missed or hist_holes) and rc == 0:
        raise Machinery(f"{len(hist_missed)} exports of the history lane did not find the block object as planned, {len(hist_holes)} planned classes were "
                        f"not exported in some composition, e.g. {(hist_missed + hist_holes)[0]}; refused steps: {sorted(set(hist_refused))[:3]}")
    return rc


def all_bits(jobs):
    """Every-bit tamper of a few small images, split over the workers by byte ranges."""
    out = []
    for case, comp, _ in jobs:
        d = os.path.join(scratch(), "c02", case["id"])
        data, rom, sec, _info = build(case, comp, d)
        ev, reg = R.walk(data, rom, sec)
        if ev[-1]["ev"] != "Accept":
            continue
        plan = tamper_plan(reg, len(data), None, "all")
        parts = [plan[i:i + 512] for i in range(0, len(plan), 512)]

        def work(part, data=data, rom=rom, sec=sec, cid=case["id"], pay=_info["pay"]):
            res = []
            for name, pos, bit in part:
                b2 = bytearray(data)
                b2[pos] ^= 1 << bit
                ev2, _ = R.walk(bytes(b2), rom, sec)
                res.append({"id": f"{cid}#{pos}.{bit}", "cls": name, "rom": rom, "pay": pay, "ev": ev2})
            return res

        tam = [t for part in pmap(work, parts, chunksize=1) for t in part]
        out.append({"id": case["id"], "outcome": "exported", "trace": {"id": case["id"], "rom": rom, "pay": _info["pay"], "ev": ev}, "n": len(data),
                    "tamper": tam, "reg": reg})
    return out


def replay(path):
    import_spsdk()
    w = json.load(open(path))["witness"]
    case = w["case"]
    comps = {c["id"]: c for c in compositions()}
    comp = comps.get(case["comp"])
    if comp is None:
        raise Machinery(f"composition {case['comp']} is not in the database any more")
    if case.get("hist"):  # a history: replayed up to the export the witness names
        k = case["hstep"]["k"]
        exports, failure = hist_replay(case, comp, os.path.join(scratch(), "c02-replay"), upto=k)
        if len(exports) <= k:
            raise Machinery(f"replay: the history does not reach its export #{k + 1} any more: {failure}")
        e = exports[k]
        data, rom, sec, info = e["data"], e["rom"], e["sec"], {"pay": e["pay"]}
        say(f"history: {' '.join(o['op'] + (str(o['a']) if o['a'] else '') for o in case['hist']['prog'][:e['op'] + 1])}; "
            f"length register of the block object in front of this export as planned: {e['reached']}")
    else:
        data, rom, sec, info = build(case, comp, os.path.join(scratch(), "c02-replay"))
    ev, _ = R.walk(data, rom, sec)
    for e in ev:
        say(json.dumps(e)[:400])
    rej, _ = tlc.tv("C02", "MbiRomTrace", [{"id": case["id"], "rom": rom, "pay": info["pay"], "ev": ev}])
    if rej:
        m, n, name = rej[case["id"]]
        say(f"VIOLATION property=C02 replay={path}")
        say(f"  the ROM automaton rejects the exported image at event #{m + 1} ({name})")
        return 1
    say("replay: the exported image passes the ROM automaton" + (" up to the HMAC check (unsettled corner)" if ev[-1]["ev"] == "CertSplit" else ""))
    return 0
