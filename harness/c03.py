"""C03 - the root-of-trust hash and the certificate blocks are a pure function of the root keys.

spec/C03/Rot.tla is the R-spec: the documented constructions as symbolic terms (H(alg, Cat(...)), lengths concrete in TLA+),
the documented layout of certificate block v1 / v2.1, and a state machine of the operations the property talks about.
  GEN+MC (RotGen) : TLC enumerates the case space (key-set shapes x orders x used index x encodings x tool paths), checks the
                    term lemmas on every case and EMITS every case together with its term; the DEVICE sweep (every family x every
                    silicon revision of the device table, "latest" included, x every entry point that takes a revision; the RoT
                    type of a case is the one the table gives for THAT revision); it also enumerates histories of the
                    certificate blocks (Build / Export / Parse / SetUserData / Export ...) and of key files (Write; Read by
                    path; Rewrite; Read by path again); and CONSTRUCTION HISTORIES of one table object (mode "tab": every
                    order of filling 1..4 slots of RKHTv1 / CertBlockV1 by index, every single replacement at every position,
                    append / replace / clear-and-refill of the HAB and AHAB SRK tables; objects that start empty, from a key
                    list or parsed; a CMPA page that is new or HELD the ROTKH of another key list - of either hash width - before,
                    from a configuration or a parsed binary, for every family with a ROTKH field) - the value after ANY history is
                    the documented construction over the FINAL contents.
  MC (RotMC)      : the state machine with small constants; RotMC_asbuilt.cfg is the I-spec of the cached ISK signature (TLC
                    predicts the stale signature, never a verdict).
  Python          : evaluates every emitted term INDEPENDENTLY (hashlib over numbers taken from `cryptography` key objects),
                    drives every real tool path / replays every history in one process, logs what came back.
  TV (RotTrace)   : TLC recomputes every term and decides every observation (all paths = the term, parsed = built, ISK
                    signature verified under the selected root key over exactly the stated range).
"""
import hashlib
import json
import os
import re
import shutil
import struct
import threading

from lib import tlc
from lib.common import ROOT, Machinery, import_spsdk, rng, say, scratch, sha
from lib.par import pmap
from lib.verdict import Verdict

PROP = "C03"
KDIR = os.path.join(ROOT, "keys", "rot")
ADIR = os.path.join(ROOT, "anchors", "C03")
ECC_NAMES = ["r0", "lzx", "lzy", "r1", "r2", "r3", "isk"]
RSA_NAMES = ["r0", "r1", "r2", "r3"]
PASSWORD = "verif"
UD_LIMIT, UD_ALIGN = 96, 4


# ------------------------------------------------------------------ key pool (numbers through `cryptography` only)
def kname(k):
    names = RSA_NAMES if k["cls"].startswith("rsa") else ECC_NAMES
    if not 1 <= k["id"] <= len(names):
        raise Machinery(f"no pool key {k}")
    return f"{k['cls']}_{names[k['id'] - 1]}"


def kfile(name, fmt):
    return os.path.join(KDIR, f"{name}.{fmt}")


_material = {}


def material(name):
    """(a, b) = (n, e) / (X, Y) as fixed-width big-endian bytes, read from the key file with `cryptography`."""
    if name not in _material:
        from cryptography.hazmat.primitives import serialization
        from cryptography.hazmat.primitives.asymmetric import rsa

        with open(kfile(name, "pub.pem"), "rb") as f:
            pub = serialization.load_pem_public_key(f.read())
        n = pub.public_numbers()
        if isinstance(pub, rsa.RSAPublicKey):
            _material[name] = (n.n.to_bytes(pub.key_size // 8, "big"), n.e.to_bytes((n.e.bit_length() + 7) // 8, "big"))
        else:
            size = (pub.curve.key_size + 7) // 8
            _material[name] = (n.x.to_bytes(size, "big"), n.y.to_bytes(size, "big"))
    return _material[name]


def check_pool():
    """The pool is what its README says (leading zero bytes, e = 65537, full-length moduli)."""
    info = json.load(open(os.path.join(KDIR, "pool.json")))
    for name, i in info.items():
        a, b = material(name)
        if a.hex() != i["a"] or b.hex() != i["b"]:
            raise Machinery(f"key pool: {name} does not match pool.json")
        if i["kind"] == "rsa" and (b != b"\x01\x00\x01" or a[0] < 0x80):
            raise Machinery(f"key pool: {name} is not a full-length RSA key with e = 65537")
        if name.endswith("_lzx") and not (a[0] == 0 and b[0] != 0):
            raise Machinery(f"key pool: {name} has no leading zero byte in X")
        if name.endswith("_lzy") and not (b[0] == 0 and a[0] != 0):
            raise Machinery(f"key pool: {name} has no leading zero byte in Y")
    return len(info)


def ud_bytes(salt, v, n):
    out = b""
    i = 0
    while len(out) < n:
        out += hashlib.sha256(f"ud|{salt}|{v}|{i}".encode()).digest()
        i += 1
    return out[:n]


# ------------------------------------------------------------------ term interpreter (trusted base: hashlib, cryptography)
class Env:
    def __init__(self, salt="", override=None):
        self.salt = salt
        self.override = override or {}

    def material(self, k):
        key = (k["cls"], k["id"])
        if self.override:
            return self.override.get(key)           # anchors: only the golden key material exists
        return material(kname(k))

    def blob(self, bid, n):
        if "ud" in bid:
            return ud_bytes(self.salt, bid["ud"], n)
        m = self.material(bid)
        if m is None:
            return None                             # unknown content (anchors with partial key material)
        return m[0] if bid["part"] == "a" else m[1]


def ev(t, env):
    op = t["op"]
    if op == "blob":
        b = env.blob(t["id"], t["len"])
        if b is None:
            return None
        if len(b) != t["len"]:
            raise Machinery(f"blob {t['id']} has {len(b)} bytes, the spec says {t['len']}")
        return b
    if op == "zero":
        return bytes(t["len"])
    if op == "lit":
        return bytes(t["bytes"])
    if op == "cat":
        parts = [ev(a, env) for a in t["args"]]
        if any(x is None for x in parts):
            return None
        r = b"".join(parts)
        if len(r) != t["len"]:
            raise Machinery("cat length")
        return r
    if op == "hash":
        arg = ev(t["arg"], env)
        return None if arg is None else hashlib.new(t["alg"], arg).digest()
    if op == "named":
        return ev(t["arg"], env)
    raise Machinery(f"term operator {op} cannot be evaluated")


def verify_sig(t, sig, env):
    from cryptography.exceptions import InvalidSignature
    from cryptography.hazmat.primitives import hashes
    from cryptography.hazmat.primitives.asymmetric import ec
    from cryptography.hazmat.primitives.asymmetric.utils import encode_dss_signature

    sch = t["scheme"]
    if sch["name"] != "ecdsa-raw" or len(sig) != sch["len"]:
        return False
    a, b = env.material(t["key"])
    curve = {32: ec.SECP256R1(), 48: ec.SECP384R1(), 66: ec.SECP521R1()}[len(a)]
    pub = ec.EllipticCurvePublicNumbers(int.from_bytes(a, "big"), int.from_bytes(b, "big"), curve).public_key()
    h = {"sha256": hashes.SHA256(), "sha384": hashes.SHA384(), "sha512": hashes.SHA512()}[sch["hash"]]
    half = len(sig) // 2
    der = encode_dss_signature(int.from_bytes(sig[:half], "big"), int.from_bytes(sig[half:], "big"))
    try:
        pub.verify(der, ev(t["arg"], env), ec.ECDSA(h))
        return True
    except InvalidSignature:
        return False


def match(t, data, off, env, label="?"):
    """Walk the bytes along the term: name of the first field that is not what the term says, 'ok' if none."""
    op = t["op"]
    if op == "named":
        return match(t["arg"], data, off, env, t["name"])
    if op == "cat":
        for a in t["args"]:
            r = match(a, data, off, env, label)
            if r != "ok":
                return r
            off += a["len"]
        return "ok"
    chunk = data[off:off + t["len"]]
    if len(chunk) != t["len"]:
        return label
    if op == "sig":
        return "ok" if verify_sig(t, chunk, env) else label
    want = ev(t, env)
    return "ok" if want is None or chunk == want else label


# ------------------------------------------------------------------ supplying keys, driving the tool paths
def supply(k, enc, files=None, slot=None):
    """The object / bytes / path handed to SPSDK for key k in encoding enc."""
    from spsdk.crypto.certificate import Certificate
    from spsdk.crypto.keys import PrivateKey, PublicKey

    name, form, fmt = kname(k), enc["form"], enc["fmt"]
    if form == "obj":
        if fmt == "pub":
            return PublicKey.load(kfile(name, "pub.pem"))
        if fmt == "priv":
            return PrivateKey.load(kfile(name, "priv.pem"))
        return Certificate.load(kfile(name, "crt.der" if fmt == "crt" else "ca.der"))
    if form == "bytes":
        with open(kfile(name, fmt), "rb") as f:
            return f.read()
    if form == "path":
        return files[slot] if files else kfile(name, fmt)
    raise Machinery(f"encoding {enc}")


def fail(e):
    from spsdk.exceptions import SPSDKError

    return {"k": "err" if isinstance(e, SPSDKError) else "exc", "v": [], "msg": f"{type(e).__name__}: {str(e)[:160]}"}


def val(b):
    if not isinstance(b, (bytes, bytearray)):
        return {"k": "badtype", "v": [], "msg": repr(b)[:100]}
    return {"k": "val", "v": list(b), "msg": ""}


_fam = {}


def families():
    """rot type / tool path -> families of the device database that offer it (data, re-read every run)."""
    if _fam:
        return _fam
    from spsdk.dat.debug_credential import DebugCredentialCertificate
    from spsdk.pfr.pfr import CMPA
    from spsdk.utils.crypto.rot import Rot
    from spsdk.utils.database import DatabaseManager, get_db

    # which RoT type a family HAS is not SPSDK's to change: frozen table (anchors/C03/rot_types.json); families added later
    # are classified by the database
    frozen = json.load(open(os.path.join(ADIR, "rot_types.json")))
    by_rot = {}
    for f in sorted(Rot.get_supported_families()):
        by_rot.setdefault(frozen.get(f) or get_db(f).get_str(DatabaseManager.CERT_BLOCK, "rot_type"), []).append(f)
    cmpa, dat = set(CMPA.get_supported_families()), set(DebugCredentialCertificate.get_supported_families())
    for rot, fams in by_rot.items():
        _fam[(rot, "rot")] = fams
        _fam[(rot, "pfr")] = [f for f in fams if f in cmpa]
        _fam[(rot, "dc")] = [f for f in fams if f in dat]
    return _fam


_dev = []


def devices():
    """The device table the spec quantifies over (constant Devices): per family the revisions, the RoT type each revision HAS (frozen
    table anchors/C03/rot_types_rev.json; revisions / families added later are classified by the database), the revision "latest"
    stands for (the database's convention) and which device entry points the family has.  Written once per run for TLC."""
    if _dev:
        return _dev
    from spsdk.dat.debug_credential import DebugCredentialCertificate
    from spsdk.pfr.pfr import CMPA
    from spsdk.utils.crypto.rot import Rot
    from spsdk.utils.database import DatabaseManager, get_db

    frozen = json.load(open(os.path.join(ADIR, "rot_types_rev.json")))
    db = DatabaseManager().db
    cmpa, dat = set(CMPA.get_supported_families()), set(DebugCredentialCertificate.get_supported_families())
    for f in sorted(Rot.get_supported_families()):
        dev = db.devices.get(f)
        revs = [str(x) for x in dev.revisions.revision_names()]
        known = frozen.get(f, {}).get("revs", {})
        rots = [known.get(x) or get_db(f, x).get_str(DatabaseManager.CERT_BLOCK, "rot_type") for x in revs]
        latest = str(dev.latest_rev)
        if not revs or latest not in revs:
            raise Machinery(f"device table: family {f} has revisions {revs} and latest {latest}")
        width = 0  # bytes of the ROTKH field of the family's CMPA page (0: none) - what a held value must fit into
        if f in cmpa:
            try:
                width = CMPA(f).registers.find_reg("ROTKH").width // 8
            except Exception:  # noqa: BLE001 - a page without the field
                width = 0
        _dev.append({"fam": f, "revs": revs, "rots": rots, "latest": latest, "pfr": f in cmpa, "dc": f in dat, "rotkh": width})
    path = os.path.join(scratch(), "c03-devices.ndjson")
    tmp = f"{path}.{os.getpid()}"
    with open(tmp, "w") as fh:
        for d in _dev:
            fh.write(json.dumps(d) + "\n")
    os.replace(tmp, path)
    os.environ["C03_DEVICES"] = path  # lib.tlc hands the environment to TLC (IOEnv.C03_DEVICES)
    return _dev


def fam_kind(path):
    return "pfr" if path == "pfr" else "dc" if path in ("dc", "dc_parse") else "rot"


def family_for(rot, path, pick):
    kind = fam_kind(path)
    fams = families().get((rot, kind)) or []
    if not fams:
        raise Machinery(f"no family for {rot}/{path}")
    return fams[pick % len(fams)]


def compute(c, fam, files=None, workdir=None, rev="latest"):
    """Run ONE tool path of the real code -> (got, fieldLen).  rev: the silicon revision handed to the entry points that take one."""
    rot, path, used = c["rot"], c["path"], c["used"]
    keys, encs = c["keys"], c["encs"]
    pw = PASSWORD if any(e["fmt"] == "priv.enc.pem" for e in encs) else None
    try:
        ins = [supply(k, e, files, i) for i, (k, e) in enumerate(zip(keys, encs))]
        if path in ("rkht", "rkht_parse"):
            from spsdk.utils.crypto.rkht import RKHTv1, RKHTv21

            cls = RKHTv1 if rot == "cert_block_1" else RKHTv21
            r = cls.from_keys(ins, pw)
            if path == "rkht_parse":
                r = RKHTv1.parse(r.export()) if rot == "cert_block_1" else RKHTv21.parse(r.export(), r.hash_algorithm)
            return val(r.rkth()), 0
        if path in ("rot", "rot_table"):
            from spsdk.utils.crypto.rot import Rot

            r = Rot(fam, rev, keys_or_certs=ins, password=pw)
            return val(r.calculate_hash() if path == "rot" else r.export()), 0
        if path == "keyhash":
            from spsdk.pfr.pfr import calc_pub_key_hash

            return val(calc_pub_key_hash(ins[0], 384 if keys[0]["cls"] == "p384" else 256)), 0
        if path == "cli":
            from click.testing import CliRunner

            from spsdk.apps import nxpcrypto

            outp = os.path.join(workdir, f"rot-{os.getpid()}.bin")
            if os.path.exists(outp):
                os.remove(outp)
            args = ["rot", "calculate-hash", "-f", fam, "-o", outp]
            if rev != "latest":  # "latest" is also what the tool takes when no revision is given
                args += ["-r", rev]
            for p in ins:
                args += ["-k", p]
            if pw:
                args += ["-p", pw]
            r = CliRunner().invoke(nxpcrypto.main, args)
            if r.exit_code != 0 or not os.path.exists(outp):
                return {"k": "err", "v": [], "msg": f"exit {r.exit_code}: {(r.output or '')[-160:]}"}, 0
            with open(outp, "rb") as f:
                return val(f.read()), 0
        if path == "pfr":
            from spsdk.crypto.utils import extract_public_keys
            from spsdk.pfr.pfr import CMPA

            if all(e["form"] == "path" for e in encs):
                pubs = extract_public_keys(ins, pw)  # what `pfr export --rot-config` does
            else:
                from spsdk.crypto.utils import extract_public_key

                pubs = [extract_public_key(x, pw) if isinstance(x, str) else x for x in ins]
            area = CMPA(fam) if rev == "latest" else CMPA(fam, rev)
            data = area.export(keys=pubs, draw=False)
            reg = area.registers.find_reg("ROTKH")
            return val(data[reg.offset:reg.offset + reg.width // 8]), reg.width // 8
        if path in ("certblock", "certblock_parse", "certblock_cfg", "certblock_fuses"):
            return val(certblock_rkth(c, ins, fam, workdir)), 0
        if path in ("dc", "dc_parse"):
            from spsdk.dat.debug_credential import DebugCredentialCertificate

            uk = keys[used - 1]
            dck = {"cls": uk["cls"], "id": 7} if uk["cls"] in ("p256", "p384") else {"cls": uk["cls"], "id": 4 if uk["id"] != 4 else 3}
            cfg = {"family": fam, "revision": rev, "rot_meta": ins, "rot_id": used - 1, "dck": kfile(kname(dck), "pub.pem"),
                   "rotk": kfile(kname(uk), "priv.pem"), "uuid": "00" * 16, "cc_socu": "0x3FF", "cc_vu": 0, "cc_beacon": 0}
            dc = DebugCredentialCertificate.create_from_yaml_config(cfg)
            if path == "dc_parse":  # the credential file carries the RoT meta: what a reader of the file computes
                dc.sign()
                dc = DebugCredentialCertificate.parse(dc.export())
            return val(dc.calculate_hash()), 0
        if path in ("srk", "srk_parse", "srk_cfg", "srk_fuses"):
            return val(srk_hash(c, ins)), 0
    except Exception as e:  # noqa: BLE001 - recorded, decided by the spec
        return fail(e), 0
    raise Machinery(f"unknown tool path {path}")


def certblock_rkth(c, ins, fam, workdir):
    from spsdk.utils.crypto.cert_blocks import CertBlockV1, CertBlockV21

    rot, path, used = c["rot"], c["path"], c["used"]
    if path == "certblock_cfg":
        cfg = {f"rootCertificate{i}File": p for i, p in enumerate(ins)}
        priv = kfile(kname(c["keys"][used - 1]), "priv.pem")
        # which key signs is given by the index or - in every second case - only by the private key (SPSDK finds the index);
        # the latter only when the used key occurs once in the list
        if int(sha(c), 16) % 2 == 0 or c["keys"].count(c["keys"][used - 1]) > 1:
            cfg["mainRootCertId"] = used - 1
        if rot == "cert_block_1":
            cfg["mainCertPrivateKeyFile"] = priv
            return CertBlockV1.from_config(cfg, search_paths=[workdir]).rkth
        cfg.update({"useIsk": False, "signPrivateKey": priv, "family": fam})
        return CertBlockV21.from_config(cfg, search_paths=[workdir]).rkth
    if rot == "cert_block_1":
        cb = CertBlockV1()
        cb.add_certificate(ins[used - 1])
        for i, cert in enumerate(ins):
            cb.set_root_key_hash(i, cert)
        if path == "certblock_parse":
            cb = CertBlockV1.parse(cb.export())
        if path == "certblock_fuses":  # the list of fuse words for blhost: little-endian words of the RKTH, in order
            return b"".join(w.to_bytes(4, "little") for w in cb.rkth_fuses)
        return cb.rkth
    cb = CertBlockV21(root_certs=ins, used_root_cert=used - 1, ca_flag=True)
    cb.calculate()
    if path == "certblock_parse":
        cb = CertBlockV21.parse(cb.export())
    return cb.rkth


def srk_hash(c, ins):
    rot, path = c["rot"], c["path"]
    if rot == "srk_table_hab":
        from spsdk.image.secret import SrkItem, SrkTable

        t = SrkTable()
        for cert in ins:
            t.append(SrkItem.from_certificate(cert))
        if path == "srk_parse":
            t = SrkTable.parse(t.export())
        if path == "srk_fuses":  # the eight fuse words (efuse_write_once format): little-endian words of the hash
            return b"".join(struct.pack("<I", t.get_fuse(i)) for i in range(8))
        return t.export_fuses()
    from spsdk.image.ahab.ahab_srk import SRKRecord, SRKRecordV2, SRKTable, SRKTableV2

    v2 = rot == "srk_table_ahab_v2"
    cls = SRKTableV2 if v2 else SRKTable
    if path == "srk_cfg":
        t = cls.load_from_config({"srk_array": ins})
    elif v2:
        t = cls([SRKRecordV2.create_from_key(k, srk_id=i) for i, k in enumerate(ins)])
    else:
        t = cls([SRKRecord.create_from_key(k) for k in ins])
    t.update_fields()
    if path == "srk_parse":
        t = cls.parse(t.export())
    return t.compute_srk_hash()


def run_case(job):
    """One Compute case -> trace with one event."""
    tid, c, term, pick = job
    fam = family_for(c["rot"], c["path"], pick)
    want = ev(term, Env())
    got, flen = compute(c, fam, workdir=os.path.join(scratch(), "c03-work"))
    return {"id": tid, "fam": fam, "ev": [{"a": "Compute", "c": c, "term": term, "want": list(want), "got": got, "fieldLen": flen}]}


def run_dev(job):
    """One ComputeFor case (an entry point that is given family AND revision) -> trace with one event."""
    tid, e = job
    c, term = e["c"], e["term"]
    want = ev(term, Env())
    got, flen = compute(c, e["fam"], workdir=os.path.join(scratch(), "c03-work"), rev=e["rev"])
    return {"id": tid, "fam": e["fam"], "ev": [{"a": "ComputeFor", "fam": e["fam"], "rev": e["rev"], "c": c, "term": term, "want": list(want), "got": got, "fieldLen": flen}]}


# ------------------------------------------------------------------ certificate block v2.1 histories
def replay_cb21(job):
    from spsdk.crypto.signature_provider import get_signature_provider
    from spsdk.utils.crypto.cert_blocks import CertBlockV21

    tid, beh, pick = job
    r = rng(PROP, "cb21", tid)
    env = Env(salt=tid)
    fams = families()[("cert_block_21", "rot")]
    fam = fams[pick % len(fams)]
    evs, cb, data, exported_ud, ud_v = [], None, None, b"", 0
    for a in beh["hist"]:
        e = {k: v for k, v in a.items() if k not in ("rkth", "block")}
        try:
            if a["a"] == "Build21":
                form = r.choice(["obj", "pem", "raw", "der"])
                roots = []
                for k in a["keys"]:
                    roots.append(supply(k, {"form": "obj", "fmt": "pub"}) if form == "obj" else
                                 supply(k, {"form": "bytes", "fmt": {"pem": "pub.pem", "raw": "pub.raw", "der": "pub.der"}[form]}))
                kw = {}
                if a["isk"]:
                    kw = {"signature_provider": get_signature_provider(local_file_key=kfile(kname(a["keys"][a["used"] - 1]), "priv.pem")),
                          "isk_cert": supply(a["iskKey"], {"form": "bytes", "fmt": r.choice(["pub.pem", "pub.raw", "pub.der"])}),
                          "user_data": ud_bytes(tid, 0, a["udLen"]), "constraints": a["cons"], "family": fam}
                cb = CertBlockV21(root_certs=roots, used_root_cert=a["used"] - 1, ca_flag=not a["isk"], **kw)
                cb.calculate()
                ud_v = 0
                e.update({"want": list(ev(a["term"], env)), "got": val(cb.rkth)})
            elif a["a"] == "Export21":
                e.update({"rkth_term": a["rkth"], "rkth_want": list(ev(a["rkth"], env))})
                data = cb.export()
                exported_ud = bytes(cb.isk_certificate.user_data) if cb.isk_certificate else b""
                e.update({"got": val(data), "len": len(data), "match": match(a["term"], data, 0, env), "rkth_got": val(cb.rkth),
                          "sha": hashlib.sha256(data).hexdigest()})
                e["got"]["v"] = []  # the bytes are in the replay (hex), the spec needs the facts
                e["hex"] = data.hex()
            elif a["a"] == "Parse21":
                p = CertBlockV21.parse(data)
                isk = p.isk_certificate
                e["want"] = list(ev(a["term"], env))
                e["got"] = val(p.rkth)
                ia, ib = material(kname(beh["hist"][0]["iskKey"])) if isk is not None and beh["hist"][0]["isk"] else (b"", b"")
                facts = {"n": p.root_key_record.number_of_certificates, "used": p.root_key_record.used_root_cert + 1,
                         "ca": bool(p.root_key_record.ca_flag), "isk": isk is not None,
                         "udLen": len(isk.user_data) if isk is not None else 0,
                         "ud_ok": (bytes(isk.user_data) == exported_ud) if isk is not None else True,
                         "cons": isk.constraints if isk is not None else 0,
                         "isk_key_ok": (isk.isk_cert is not None and isk.isk_cert.x == int.from_bytes(ia, "big")
                                        and isk.isk_cert.y == int.from_bytes(ib, "big")) if (isk is not None and ia) else isk is None}
                try:
                    facts["reexport_sha"] = hashlib.sha256(p.export()).hexdigest()
                except Exception as x:  # noqa: BLE001
                    facts["reexport_sha"] = f"raised {type(x).__name__}"
                e.update(facts)
                cb = p
            elif a["a"] == "SetUserData":
                cb.isk_certificate.user_data = ud_bytes(tid, a["v"], a["len"])
                ud_v = a["v"]
            elif a["a"] == "SetConstraints":
                cb.isk_certificate.constraints = a["cons"]
            else:
                raise Machinery(f"action {a['a']}")
        except Machinery:
            raise
        except Exception as x:  # noqa: BLE001 - a public operation that raises is an observation (no spec action matches)
            e = crashed(a, e, x)
            evs.append(e)
            break
        evs.append(e)
    return {"id": tid, "fam": fam, "gen": beh.get("gen"), "ev": evs}


def crashed(a, e, x):
    """Keep the event type-stable: the value that should have come back is the failure."""
    e = dict(e)
    f = fail(x)
    for k in ("got", "rkth_got"):
        e[k] = f
    e.setdefault("want", [])
    e.setdefault("rkth_want", [])
    e.setdefault("rkth_term", a.get("rkth", a.get("term", {})))
    e.setdefault("table_term", a.get("table", {}))
    e.setdefault("table_want", [])
    e.update({"len": 0, "match": "raised", "sha": "", "crash": f["msg"]})
    if a["a"] == "Parse21":
        e.update({"n": 0, "used": 0, "ca": False, "isk": False, "udLen": 0, "ud_ok": False, "cons": 0, "isk_key_ok": False, "reexport_sha": ""})
    if a["a"] == "Parse1":
        e.update({"img": 0, "build": 0, "ver": [0, 0], "flags": [0, 0, 0, 0], "rkh_index": -1, "cert_count": 0, "cert_ok": False, "reexport_sha": ""})
    if a["a"] == "Export1":
        e["f"] = EMPTY_F
    return e


# ------------------------------------------------------------------ certificate block v1: executor + histories
EMPTY_F = {"magic_ok": False, "major": 0, "minor": 0, "hdr_len": 0, "flags": [0, 0, 0, 0], "build": 0, "image_length": 0, "cert_count": 0,
           "entries": [], "table_len": 0, "rkht_at": 0, "total": 0, "tail_zero": False, "used_matches": False, "table": [], "rkh_index": -1}


def der_len(b):
    """Length of the DER element at the start of b (0 if it is not one)."""
    if len(b) < 2 or b[0] != 0x30:
        return 0
    if b[1] < 0x80:
        return 2 + b[1]
    n = b[1] & 0x7F
    if n == 0 or n > 3 or len(b) < 2 + n:
        return 0
    return 2 + n + int.from_bytes(b[2:2 + n], "big")


def exec_cb1(data, der_expected, rkh_used):
    """Walk an exported v1 block along the documented layout and report every number (total on any input)."""
    f = dict(EMPTY_F)
    f["total"] = len(data)
    if len(data) < 32:
        return f
    f["magic_ok"] = data[:4] == b"cert"
    f["major"], f["minor"] = struct.unpack_from("<2H", data, 4)
    words = struct.unpack_from("<6I", data, 8)
    f["flags"] = list(data[12:16])  # the flags word as its four bytes (every bit of it is reported; TLC's integers end at 2^31)
    if any(w >= 2**31 for w in words[:1] + words[2:]):
        return f
    f["hdr_len"], _, f["build"], f["image_length"], f["cert_count"], f["table_len"] = words
    off, entries = 32, []
    for i in range(min(f["cert_count"], 4)):
        if off + 4 > len(data):
            break
        (ln,) = struct.unpack_from("<I", data, off)
        off += 4
        body = data[off:off + ln]
        if ln > len(data) or len(body) != ln:
            break
        dl = der_len(body)
        entries.append({"len": ln, "der_len": dl, "der_ok": i == 0 and dl > 0 and body[:dl] == der_expected, "pad_zero": not any(body[dl:])})
        off += ln
    f["entries"] = entries
    f["rkht_at"] = off
    table = data[off:off + 128]
    f["table"] = list(table)
    f["tail_zero"] = not any(data[off + 128:])
    slots = [table[32 * i:32 * i + 32] for i in range(4)]
    f["rkh_index"] = slots.index(rkh_used) if rkh_used in slots else -1
    f["used_matches"] = f["rkh_index"] >= 0
    return f


def replay_cb1(job):
    from spsdk.crypto.certificate import Certificate
    from spsdk.crypto.crypto_types import SPSDKEncoding
    from spsdk.utils.crypto.cert_blocks import CertBlockV1

    tid, beh, _ = job
    env = Env(salt=tid)
    evs, cb, data = [], None, None
    b0 = beh["hist"][0]
    used_key = b0["keys"][b0["used"] - 1]
    with open(kfile(kname(used_key), "crt.der"), "rb") as fh:
        der = fh.read()
    ua, ub = material(kname(used_key))
    rkh_used = hashlib.sha256(ua + ub).digest()
    for a in beh["hist"]:
        e = {k: v for k, v in a.items() if k not in ("rkth", "table")}
        try:
            if a["a"] == "Build1":
                cb = CertBlockV1(version=f"{a['ver'][0]}.{a['ver'][1]}", flags=int.from_bytes(bytes(a["flags"]), "little"), build_number=a["build"])
                cb.add_certificate(Certificate.load(kfile(kname(used_key), "crt.der")))
                for i, k in enumerate(a["keys"]):
                    cb.set_root_key_hash(i, Certificate.load(kfile(kname(k), "crt.pem")))
                if a["img"]:
                    cb.image_length = a["img"]
                e.update({"want": list(ev(a["term"], env)), "got": val(cb.rkth)})
            elif a["a"] == "Export1":
                e.update({"rkth_term": a["rkth"], "rkth_want": list(ev(a["rkth"], env)), "table_term": a["table"], "table_want": list(ev(a["table"], env))})
                data = cb.export()
                e.update({"got": {"k": "val", "v": [], "msg": ""}, "f": exec_cb1(data, der, rkh_used), "rkth_got": val(cb.rkth),
                          "sha": hashlib.sha256(data).hexdigest(), "hex": data.hex()})
            elif a["a"] == "Parse1":
                p = CertBlockV1.parse(data)
                e["want"] = list(ev(a["term"], env))
                e["got"] = val(p.rkth)
                idx = p.rkh_index
                facts = {"img": p.image_length, "build": p.header.build_number, "rkh_index": -1 if idx is None else idx,
                         "ver": [int(x) for x in p.header.version.split(".")], "flags": list(int(p.header.flags).to_bytes(4, "little")),
                         "cert_count": len(p.certificates), "cert_ok": len(p.certificates) == 1 and p.certificates[0].export(SPSDKEncoding.DER) == der}
                try:
                    facts["reexport_sha"] = hashlib.sha256(p.export()).hexdigest()
                except Exception as x:  # noqa: BLE001
                    facts["reexport_sha"] = f"raised {type(x).__name__}"
                e.update(facts)
                cb = p
            elif a["a"] == "SetImageLength":
                cb.image_length = a["img"]
            else:
                raise Machinery(f"action {a['a']}")
        except Machinery:
            raise
        except Exception as x:  # noqa: BLE001
            evs.append(crashed(a, e, x))
            break
        evs.append(e)
    return {"id": tid, "fam": "", "gen": beh.get("gen"), "ev": evs}


# ------------------------------------------------------------------ construction histories of ONE table object
NA = {"k": "na", "v": [], "msg": ""}


def try_obs(fn):
    try:
        return val(fn())
    except Exception as x:  # noqa: BLE001 - recorded, decided by the spec
        return fail(x)


def rkh_of(k):
    a, b = material(kname(k))
    return hashlib.sha256(a + b).digest()


def make_cb1(der, table):
    """A v1 certificate block written by hand along the documented layout (one certificate): what a parsed object is parsed from."""
    entry = der + bytes(-len(der) % 4)
    body = struct.pack("<4s2H6I", b"cert", 1, 0, 32, 0, 0, 0, 1, 4 + len(entry)) + struct.pack("<I", len(entry)) + entry + table
    return body + bytes(-len(body) % 16)


def tab_cert(k, form):
    from spsdk.crypto.certificate import Certificate

    return Certificate.load(kfile(kname(k), "ca.der" if form == "ca" else "crt.der"))


def pfr_family(fl, scen, pick):
    """The family of a PFR history: the one the scenario names, else the families of that RoT type take turns."""
    fams = families()[("cert_block_1" if fl == "pfr1" else "cert_block_21", "pfr")]
    return (scen or {}).get("fam") or fams[pick % len(fams)]


def tab_start(a, env, pick=0, scen=None):
    fl, origin, init = a["fl"], a["origin"], a["init"]
    image = ev(a["image"], env)
    if fl in ("pfr1", "pfr21"):  # a CMPA page object of a family of that RoT type
        from spsdk.pfr.pfr import CMPA, BaseConfigArea

        fam = pfr_family(fl, scen, pick)
        if origin == "new":
            return CMPA(fam)
        # the object HELD a value before: a page whose ROTKH field carries the value of the held list (the spec's term, evaluated here,
        # zero padded to the field and written into a blank page by hand) is parsed; "cfg": the configuration `pfr parse-binary` writes
        # for that page is loaded (what `pfr generate-binary -c` starts from)
        blank = CMPA(fam)
        reg = blank.registers.find_reg("ROTKH")
        width = reg.width // 8
        if len(image) > width:
            raise Machinery(f"history {pick}: a held value of {len(image)} bytes and a ROTKH field of {width} ({fam})")
        held = image + bytes(width - len(image))
        page = blank.export(draw=False)
        page = page[:reg.offset] + held + page[reg.offset + width:]
        obj = CMPA(fam)
        obj.parse(page)
        if origin == "cfg":
            obj = BaseConfigArea.load_from_config(obj.get_config())
        if not isinstance(obj, CMPA) or obj.export(draw=False)[reg.offset:reg.offset + width] != held:
            raise Machinery(f"history {pick}: the start state was not reached - the {fam} page object ({origin}) does not hold the value it was given")
        return obj
    if fl == "rkht1":
        from spsdk.utils.crypto.rkht import RKHTv1

        if origin == "new":
            return RKHTv1([])
        if origin == "keys":
            return RKHTv1.from_keys([tab_cert(s["k"], "crt") for s in init])
        return RKHTv1.parse(image)
    if fl == "cb1":
        from spsdk.utils.crypto.cert_blocks import CertBlockV1

        if origin == "new":
            return CertBlockV1()
        with open(kfile(kname(a["cert"]), "crt.der"), "rb") as fh:
            return CertBlockV1.parse(make_cb1(fh.read(), image))
    if fl == "hab":
        from spsdk.image.secret import SrkTable

        return SrkTable() if origin == "new" else SrkTable.parse(image)
    from spsdk.crypto.keys import PublicKey
    from spsdk.image.ahab.ahab_srk import SRKRecord, SRKRecordV2, SRKTable, SRKTableV2

    cls = SRKTableV2 if fl == "ahab2" else SRKTable
    if origin == "new":
        return cls()
    if origin == "rot":  # the table the front end builds from the key list and HOLDS: read through the front end from then on
        from spsdk.utils.crypto.rot import Rot

        fams = families()[("srk_table_ahab_v2" if fl == "ahab2" else "srk_table_ahab", "rot")]
        ins = []
        for s in init:
            with open(kfile(kname(s["k"]), "pub.pem"), "rb") as fh:
                ins.append(fh.read())
        return RotHeld(Rot(fams[pick % len(fams)], "latest", keys_or_certs=ins))
    if origin == "parsed":
        return cls.parse(image)
    pubs = [(PublicKey.load(kfile(kname(s["k"]), "pub.pem")), 0x80 if s["ca"] else 0) for s in init]
    if fl == "ahab2":
        return cls([SRKRecordV2.create_from_key(k, srk_flags=f, srk_id=i) for i, (k, f) in enumerate(pubs)])
    return cls([SRKRecord.create_from_key(k, srk_flags=f) for k, f in pubs])


class RotHeld:
    """The front end object Rot(family, keys) and the SRK table it holds (public attributes rot_obj.srk)."""

    def __init__(self, rot):
        self.rot = rot
        self.table = rot.rot_obj.srk


_pub = {}


def pub_of(k):
    """The public key object of a pool key (loaded once; the objects are only read)."""
    from spsdk.crypto.keys import PublicKey

    if kname(k) not in _pub:
        _pub[kname(k)] = PublicKey.load(kfile(kname(k), "pub.pem"))
    return _pub[kname(k)]


def ahab_record(fl, k, flags, i):
    from spsdk.image.ahab.ahab_srk import SRKRecord, SRKRecordV2

    if fl == "ahab2":
        return SRKRecordV2.create_from_key(pub_of(k), srk_flags=flags, srk_id=i)
    return SRKRecord.create_from_key(pub_of(k), srk_flags=flags)


def tab_change(fl, obj, a):
    """An in-place change of an SRK table through the public fields of the table and of its records."""
    kind, i = a["a"], a["i"] - 1
    if fl == "hab":
        from spsdk.image.secret import SrkItem, SrkItemRSA

        if kind == "SetCa":
            for j in (range(len(obj)) if i < 0 else [i]):
                obj[j].flag = 0x80 if a["ca"] else 0
        else:  # Rekey: the key material of the entry, the entry object and its flag stay
            new = SrkItem.from_certificate(tab_cert(a["k"], "crt"))
            if isinstance(obj[i], SrkItemRSA):
                obj[i].modulus, obj[i].exponent = new.modulus, new.exponent
            else:
                obj[i].x_coordinate, obj[i].y_coordinate = new.x_coordinate, new.y_coordinate
        return
    recs = obj.srk_records
    if kind == "SetCa":
        for rec in recs:
            rec.srk_flags = (rec.srk_flags & ~0x80) | (0x80 if a["ca"] else 0)
    elif kind == "SetSlot":  # the entry of the record list is replaced by a new record (key rotation)
        recs[i] = ahab_record(fl, a["k"], 0x80 if a["form"] == "pubca" else 0, i)
    else:  # Rekey: the record object stays, its key material is that of the new key
        new = ahab_record(fl, a["k"], recs[i].srk_flags, i)
        new.update_fields()
        recs[i].src_key, recs[i].crypto_params = new.src_key, new.crypto_params
        if fl == "ahab2":
            recs[i].srk_data = new.srk_data
    obj.update_fields()  # what SPSDK does with a table before it uses it (lengths, the data hashes of new version-2 records)


def tab_write(fl, obj, a):
    """One call of the builder's public incremental API."""
    kind = a["a"]
    obj = getattr(obj, "table", obj)  # the front end's table is changed, the front end is read
    if kind in ("Rekey", "SetCa") or (kind == "SetSlot" and fl in ("ahab", "ahab2")):
        return tab_change(fl, obj, a)
    if kind == "SetAll":
        return  # the list is handed over with the export itself (ComputeT)
    if kind == "ClearT":
        obj.clear()
    elif kind == "AddCertificate":
        obj.add_certificate(tab_cert(a["k"], "crt"))
    elif kind == "SetSlot":
        i, k, form = a["i"] - 1, a["k"], a["form"]
        if fl == "rkht1":
            obj.set_rkh(i, rkh_of(k))
        elif fl == "cb1":
            obj.set_root_key_hash(i, rkh_of(k) if form == "hash" else tab_cert(k, form))
        elif fl == "hab":
            from spsdk.image.secret import SrkItem

            obj[i] = SrkItem.from_certificate(tab_cert(k, a["form"]))
        else:
            raise Machinery(f"SetSlot on {fl}")
    elif kind == "AppendSlot":
        if fl == "hab":
            from spsdk.image.secret import SrkItem

            obj.append(SrkItem.from_certificate(tab_cert(a["k"], a["form"])))
        else:
            from spsdk.crypto.keys import PublicKey

            obj.add_record(PublicKey.load(kfile(kname(a["k"]), "pub.pem")), srk_flags=0x80 if a["form"] == "pubca" else 0)
    else:
        raise Machinery(f"action {kind}")


def tab_observe(fl, obj, a):
    """Everything the object hands out: the value, the table it holds, the fuse words, the value of the exported and re-parsed object."""
    o = {"got": NA, "tbl": NA, "fuses": NA, "parsed": NA, "f": EMPTY_F, "fieldLen": 0}
    if fl in ("pfr1", "pfr21"):
        from spsdk.crypto.keys import PublicKey

        reg = obj.registers.find_reg("ROTKH")
        o["fieldLen"] = reg.width // 8
        o["got"] = try_obs(lambda: obj.export(keys=[PublicKey.load(kfile(kname(k), "pub.pem")) for k in a["keys"]], draw=False)[reg.offset:reg.offset + reg.width // 8])
    elif fl == "rkht1":
        from spsdk.utils.crypto.rkht import RKHTv1

        o["got"] = try_obs(obj.rkth)
        o["tbl"] = try_obs(obj.export)
        o["parsed"] = try_obs(lambda: RKHTv1.parse(obj.export()).rkth())
    elif fl == "cb1":
        from spsdk.utils.crypto.cert_blocks import CertBlockV1

        o["got"] = try_obs(lambda: obj.rkth)
        o["tbl"] = try_obs(lambda: (lambda t: t + bytes(max(0, 128 - len(t))))(b"".join(obj.rkh)))
        o["fuses"] = try_obs(lambda: b"".join(w.to_bytes(4, "little") for w in obj.rkth_fuses))
        if a["index"] > 0:  # the certificate's key is in the table: the block can be exported
            ck = a["keys"][a["index"] - 1]
            with open(kfile(kname(ck), "crt.der"), "rb") as fh:
                der = fh.read()
            try:
                data = obj.export()
                o["f"] = exec_cb1(data, der, rkh_of(ck))
                o["parsed"] = try_obs(lambda: CertBlockV1.parse(data).rkth)
            except Exception as x:  # noqa: BLE001
                o["parsed"] = fail(x)
    elif fl == "hab":
        from spsdk.image.secret import SrkTable

        o["got"] = try_obs(obj.export_fuses)
        o["tbl"] = try_obs(obj.export)
        o["fuses"] = try_obs(lambda: b"".join(struct.pack("<I", obj.get_fuse(i)) for i in range(8)))
        o["parsed"] = try_obs(lambda: SrkTable.parse(obj.export()).export_fuses())
    elif isinstance(obj, RotHeld):  # the front end hands out the value and the table of the SRK table it holds
        o["got"] = try_obs(obj.rot.calculate_hash)
        o["tbl"] = try_obs(obj.rot.export)
        o["parsed"] = try_obs(lambda: type(obj.table).parse(obj.rot.export()).compute_srk_hash())
    else:
        def value():
            obj.update_fields()
            return obj.compute_srk_hash()

        o["got"] = try_obs(value)
        o["tbl"] = try_obs(obj.export)
        o["parsed"] = try_obs(lambda: type(obj).parse(obj.export()).compute_srk_hash())
    return o


def replay_tab(job):
    tid, beh = job
    env = Env()
    fl = beh["scen"]["fl"]
    evs, obj = [], None
    for a in beh["hist"]:
        e = {k: v for k, v in a.items() if k not in ("term", "table")}
        try:
            if a["a"] == "StartT":
                if fl in ("pfr1", "pfr21"):
                    e["fam"] = pfr_family(fl, beh["scen"], tid)
                obj = tab_start(a, env, tid, beh["scen"])
            elif a["a"] == "ComputeT":
                e.update({"term": a["term"], "table_term": a["table"], "want": list(ev(a["term"], env)), "table_want": list(ev(a["table"], env))})
                e.update(tab_observe(fl, obj, a))
            else:
                tab_write(fl, obj, a)
        except Machinery:
            raise
        except Exception as x:  # noqa: BLE001 - a documented write that is refused is an observation (no spec action matches)
            e["crash"] = fail(x)["msg"]
            evs.append(e)
            break
        evs.append(e)
    return {"id": tid, "fam": "", "gen": beh.get("gen"), "scen": beh["scen"], "ev": evs}


def tab_class(evs, upto):
    """How the object was built up to event `upto`: origin + what kinds of writes happened (part of the finding key)."""
    origin, filled, tags = "new", set(), set()
    for e in evs[:upto + 1]:
        if e["a"] == "StartT":
            origin = e["origin"]
            filled = set(range(1, len(e["init"]) + 1))
            if e["fl"] in ("pfr1", "pfr21") and e["init"]:  # the page held the value of another list: its key type is part of the class
                origin += f"-held-{e['init'][0]['k']['cls']}x{len(e['init'])}"
        elif e["a"] in ("Rekey", "SetCa"):
            tags.add("rekey" if e["a"] == "Rekey" else "ca-flag")
        elif e["a"] == "SetSlot":
            if e["i"] in filled:
                tags.add("replace")
            elif any(j > e["i"] for j in filled):
                tags.add("out-of-order")
            filled.add(e["i"])
        elif e["a"] == "AppendSlot":
            tags.add("append")
            filled.add(len(filled) + 1)
        elif e["a"] == "ClearT":
            tags.add("clear")
            filled = set()
        elif e["a"] == "SetAll":
            if filled:
                tags.add("re-export")
            filled = set(range(1, len(e["keys"]) + 1))
        elif e["a"] == "ComputeT" and e is not evs[upto]:
            tags.add("read-on-the-way")
    return origin + "".join("+" + t for t in sorted(tags)) if tags else origin + "+in-order"


def tab_short(e):
    a = e["a"]
    if a == "StartT":
        return f"{e['origin']}({','.join(str(x['k']['id']) for x in e['init'])})"
    if a == "SetSlot":
        return f"set[{e['i'] - 1}]={e['k']['cls']}#{e['k']['id']}"
    if a == "AppendSlot":
        return f"append({e['k']['cls']}#{e['k']['id']})"
    if a == "AddCertificate":
        return f"add_certificate(#{e['k']['id']})"
    if a == "SetAll":
        return f"keys=({','.join(str(k['id']) for k in e['keys'])})"
    if a == "Rekey":
        return f"rekey[{e['i'] - 1}]={e['k']['cls']}#{e['k']['id']}"
    if a == "SetCa":
        return f"ca[{'all' if e['i'] == 0 else e['i'] - 1}]={int(e['ca'])}"
    return {"ClearT": "clear()", "ComputeT": "read"}.get(a, a)


def canary_tab(behs):
    """Canaries of the history lane, all made from a SPEC-GENERATED history and independently evaluated terms (never from what the code under
    test returned): the good observation is accepted; the values of a builder that INSERTS instead of replacing (the earlier slots shift),
    a history with its last write lost, and a refused write are rejected."""
    b = next(x for x in behs if x["scen"]["fl"] == "rkht1" and x["scen"]["origin"] == "new" and x["scen"]["n"] == 3 and x["scen"]["repl"] == 0
             and not x["scen"]["peek"] and [e["i"] for e in x["hist"] if e["a"] == "SetSlot"] == [2, 1, 3])
    env = Env()
    evs = []
    for a in b["hist"]:
        e = {k: v for k, v in a.items() if k not in ("term", "table")}
        if a["a"] == "ComputeT":
            want, table = ev(a["term"], env), ev(a["table"], env)
            e.update({"term": a["term"], "table_term": a["table"], "want": list(want), "table_want": list(table), "got": val(want), "tbl": val(table),
                      "fuses": NA, "parsed": val(want), "f": EMPTY_F, "fieldLen": 0})
        evs.append(e)
    good = {"id": "canary-tab-good", "ev": evs}
    # the same calls on a builder whose write is list.insert(index, hash): 2, 1, 3 -> [k1, 0, k3, k2]
    lst = []
    for a in b["hist"]:
        if a["a"] == "SetSlot":
            i = a["i"] - 1
            lst.extend([bytes(32)] * (i - len(lst)))
            lst.insert(i, rkh_of(a["k"]))
    shifted = b"".join(lst)[:128].ljust(128, b"\0")
    bad1 = json.loads(json.dumps(good))
    bad1["id"] = "canary-tab-shift"
    bad1["ev"][-1].update({"got": val(hashlib.sha256(shifted).digest()), "tbl": val(shifted), "parsed": val(hashlib.sha256(shifted).digest())})
    bad2 = json.loads(json.dumps(good))
    bad2["id"] = "canary-tab-lostwrite"
    del bad2["ev"][-2]
    bad3 = json.loads(json.dumps(good))
    bad3["id"] = "canary-tab-refused"
    bad3["ev"][2]["crash"] = "SPSDKError: refused"
    bad3["ev"] = bad3["ev"][:3]
    bad4 = json.loads(json.dumps(good))
    bad4["id"] = "canary-tab-table"
    bad4["ev"][-1]["tbl"]["v"][40] ^= 4
    if shifted == bytes(good["ev"][-1]["table_want"]):
        raise Machinery("history canary: the shifted table equals the documented one")
    # a PFR page that held the value of a list of the LONGER hash and is exported with a list of the shorter one: the field is the new value,
    # zero padded (accepted); the field of a page that only overwrites the words the shorter value covers - new value, then the tail of the
    # held one - is rejected
    h = next(x for x in behs if x["scen"]["fl"] == "pfr21" and x["scen"]["origin"] == "parsed" and x["scen"]["cls"] == "p256" and x["scen"]["hcls"] == "p384")
    width = next(d["rotkh"] for d in devices() if d["fam"] == h["scen"]["fam"])
    held_value = ev(h["hist"][0]["image"], env)
    hevs = []
    for a in h["hist"]:
        e = {k: v for k, v in a.items() if k not in ("term", "table")}
        if a["a"] == "ComputeT":
            want, table = ev(a["term"], env), ev(a["table"], env)
            e.update({"term": a["term"], "table_term": a["table"], "want": list(want), "table_want": list(table), "got": val(want + bytes(width - len(want))),
                      "tbl": NA, "fuses": NA, "parsed": NA, "f": EMPTY_F, "fieldLen": width})
        hevs.append(e)
    good_h = {"id": "canary-tab-held-good", "ev": hevs}
    bad5 = json.loads(json.dumps(good_h))
    bad5["id"] = "canary-tab-held-stale"
    first = next(e for e in bad5["ev"] if e["a"] == "ComputeT")
    if not (len(first["want"]) < len(held_value) <= width) or not any(held_value[len(first["want"]):]):
        raise Machinery("history canary: the held value is not longer than the new one")
    first["got"]["v"] = first["want"] + list((held_value + bytes(width - len(held_value)))[len(first["want"]):])
    # a change history (table complete, READ, one record re-keyed in place, read again): the documented values are accepted; an object that
    # answers the second read with what it computed for the first - while the table it exports is the new one - is rejected
    c = next(x for x in behs if x["scen"]["fl"] == "ahab" and x["scen"]["chg"] == 1 and x["scen"]["origin"] == "new" and x["scen"]["cls"] == "p256"
             and x["scen"]["ca"] == "none" and x["hist"][-2]["a"] == "Rekey")
    cevs = []
    for a in c["hist"]:
        e = {k: v for k, v in a.items() if k not in ("term", "table")}
        if a["a"] == "ComputeT":
            want, table = ev(a["term"], env), ev(a["table"], env)
            e.update({"term": a["term"], "table_term": a["table"], "want": list(want), "table_want": list(table), "got": val(want), "tbl": val(table),
                      "fuses": NA, "parsed": val(want), "f": EMPTY_F, "fieldLen": 0})
        cevs.append(e)
    good_c = {"id": "canary-tab-change-good", "ev": cevs}
    reads = [e for e in cevs if e["a"] == "ComputeT"]
    if len(reads) != 2 or reads[0]["want"] == reads[1]["want"]:
        raise Machinery("history canary: the change history does not read twice / the change does not show")
    bad6 = json.loads(json.dumps(good_c))
    bad6["id"] = "canary-tab-change-stale"
    bad6["ev"][-1]["got"] = val(bytes(reads[0]["want"]))
    return [good, bad1, bad2, bad3, bad4, good_h, bad5, good_c, bad6], {"canary-tab-shift": "value", "canary-tab-lostwrite": "term", "canary-tab-refused": "refused",
                                                                        "canary-tab-table": "table", "canary-tab-held-stale": "value",
                                                                        "canary-tab-change-stale": "value"}


# ------------------------------------------------------------------ key files: write, read by path, rewrite, read again
def replay_files(job):
    tid, beh, pick = job
    d = os.path.join(scratch(), "c03-files", str(tid))
    os.makedirs(d, exist_ok=True)
    paths = {f: os.path.join(d, f"root{f}.key") for f in (1, 2, 3, 4)}
    fs, evs = {}, []
    for a in beh["hist"]:
        e = {k: v for k, v in a.items() if k != "c"}
        if a["a"] == "WriteFile":
            with open(kfile(kname(a["k"]), a["enc"]["fmt"]), "rb") as src, open(paths[a["f"]], "wb") as dst:
                dst.write(src.read())
            fs[a["f"]] = (a["k"], a["enc"])
        elif a["a"] == "ReadByPath":
            c = {"rot": a["rot"], "path": a["path"], "used": a["used"], "keys": [fs[f][0] for f in a["files"]], "encs": [fs[f][1] for f in a["files"]]}
            fam = family_for(a["rot"], a["path"], pick)
            got, flen = compute(c, fam, files=[paths[f] for f in a["files"]], workdir=d)
            e.update({"want": list(ev(a["term"], Env())), "got": got, "fieldLen": flen, "fam": fam})
        else:
            raise Machinery(f"action {a['a']}")
        evs.append(e)
    shutil.rmtree(d, ignore_errors=True)
    return {"id": tid, "fam": "", "gen": beh.get("gen"), "ev": evs}


# ------------------------------------------------------------------ sampled cases (beyond the menus of the generator)
def fmts_for(rot, path, is_used, r):
    """A random encoding the spec allows for this rot / path (mirrors nothing: illegal picks are refused by TLC's Assert)."""
    files = ["pub.pem", "pub.der", "pub.raw", "priv.pem", "priv.der", "priv.trad.pem", "crt.pem", "crt.der", "ca.pem", "ca.der"]
    certs = ["crt.pem", "crt.der", "ca.pem", "ca.der"]
    if rot == "srk_table_hab":
        if path in ("rot", "rot_table"):
            return r.choice([{"form": "obj", "fmt": "crt"}, {"form": "obj", "fmt": "ca"}] + [{"form": f, "fmt": x} for f in ("bytes", "path") for x in certs])
        if path == "cli":
            return {"form": "path", "fmt": r.choice(certs)}
        return {"form": "obj", "fmt": r.choice(["crt", "ca"])}
    if path in ("rkht", "rkht_parse", "rot", "rot_table"):
        return r.choice([{"form": "obj", "fmt": x} for x in ("pub", "priv", "crt", "ca")] + [{"form": f, "fmt": x} for f in ("bytes", "path") for x in files])
    if path in ("cli", "dc", "dc_parse", "srk_cfg"):
        return {"form": "path", "fmt": r.choice(files)}
    if path == "pfr":
        return r.choice([{"form": "obj", "fmt": "pub"}] + [{"form": "path", "fmt": x} for x in files])
    if path in ("srk", "srk_parse", "keyhash"):
        return {"form": "obj", "fmt": "pub"}
    if path in ("certblock", "certblock_parse", "certblock_fuses"):
        if rot == "cert_block_1":
            return {"form": "obj", "fmt": "crt" if is_used else r.choice(["crt", "ca"])}
        return r.choice([{"form": "obj", "fmt": "pub"}] + [{"form": "bytes", "fmt": x} for x in files])
    if rot == "cert_block_1":
        return {"form": "path", "fmt": r.choice(["crt.pem", "crt.der"] if is_used else certs)}
    return {"form": "path", "fmt": r.choice(files)}


PATHS = {"cert_block_1": ["rkht", "rkht_parse", "rot", "cli", "pfr", "certblock", "certblock_parse", "certblock_cfg", "certblock_fuses", "dc", "dc_parse",
                          "rot_table", "keyhash"],
         "cert_block_21": ["rkht", "rkht_parse", "rot", "cli", "pfr", "certblock", "certblock_parse", "certblock_cfg", "dc", "dc_parse", "rot_table", "keyhash"],
         "srk_table_ahab": ["rot", "cli", "srk", "srk_parse", "srk_cfg", "dc", "dc_parse", "rot_table"],
         "srk_table_ahab_v2": ["rot", "cli", "srk", "srk_parse", "srk_cfg", "rot_table"],
         "srk_table_hab": ["rot", "cli", "srk", "srk_parse", "srk_fuses", "rot_table"]}
USED_PATHS = ("certblock", "certblock_parse", "certblock_cfg", "certblock_fuses", "dc", "dc_parse")


def sampled_cases(r, n, quick):
    out = []
    while len(out) < n:
        rot = r.choice(list(PATHS))
        path = r.choice(PATHS[rot])
        if rot == "cert_block_1":
            classes = ["rsa2048"] * 3 + ["rsa3072", "rsa4096"] if quick else ["rsa2048", "rsa3072", "rsa4096"]
            cnt = r.randrange(1, 5)
            mixed = r.random() < 0.3
            cls = [r.choice(classes) if mixed else None for _ in range(cnt)]
            c0 = r.choice(classes)
            cls = [x or c0 for x in cls]
        else:
            c0 = r.choice({"cert_block_21": ["p256", "p384"], "srk_table_ahab_v2": ["p256", "p384", "p521"]}.get(
                rot, ["rsa2048", "p256", "p384", "p521"] if quick else ["rsa2048", "rsa3072", "rsa4096", "p256", "p384", "p521"]))
            cnt = 4 if "ahab" in rot else r.randrange(1, 5)
            cls = [c0] * cnt
        if path == "rkht_parse" and rot == "cert_block_21" and cnt < 2:
            continue
        if path in ("dc", "dc_parse"):  # the DAT protocol versions know RSA-2048 and RSA-4096 only
            cls = ["rsa2048" if x == "rsa3072" else x for x in cls]
        if path == "keyhash":
            cls = cls[:1]
            cnt = 1
        keys = [{"cls": x, "id": r.randrange(1, 5 if x.startswith("rsa") else 7)} for x in cls]
        used = r.randrange(1, cnt + 1) if path in USED_PATHS else 0
        encs = [fmts_for(rot, path, i + 1 == used, r) for i in range(cnt)]
        if "ahab" in rot:  # one CA flag for the whole table
            ca = encs[0]["fmt"].startswith("ca")
            for _ in range(50):
                if all(e["fmt"].startswith("ca") == ca for e in encs):
                    break
                encs = [e if e["fmt"].startswith("ca") == ca else fmts_for(rot, path, False, r) for e in encs]
            else:
                continue
        out.append({"rot": rot, "keys": keys, "encs": encs, "path": path, "used": used})
    return out


# ------------------------------------------------------------------ anchors: the terms reproduce frozen golden values
def anchor_check(cases):
    """Evaluate emitted terms with the KEY MATERIAL OF GOLDEN ARTEFACTS (copied from the repository's tests at the pinned
    commit) and compare with the stored hashes / table bytes: the documented constructions of the spec are bound to frozen
    artefacts, independently of spsdk/*.py."""
    from cryptography import x509
    from cryptography.hazmat.primitives import serialization
    from cryptography.hazmat.primitives.asymmetric import rsa

    idx = os.path.join(ADIR, "golden.json")
    if not os.path.exists(idx):
        raise Machinery("anchors/C03/golden.json missing")
    by_shape = {}
    for c, term in cases:
        if all(k["id"] == i + 1 for i, k in enumerate(c["keys"])) and len({k["cls"] for k in c["keys"]}) == 1:
            ca = all(e["fmt"].startswith("ca") for e in c["encs"])
            if ca or not any(e["fmt"].startswith("ca") for e in c["encs"]):
                by_shape.setdefault((c["rot"], c["keys"][0]["cls"], len(c["keys"]), ca), term)
    sizes = {"p256": (32, 32), "p384": (48, 48), "p521": (66, 66), "rsa2048": (256, 3), "rsa3072": (384, 3), "rsa4096": (512, 3)}
    n = 0
    for g in json.load(open(idx)):
        mats, table = {}, None
        if "keys" in g:
            for i, fn in enumerate(g["keys"]):
                raw = open(os.path.join(ADIR, fn), "rb").read()
                if fn.endswith((".crt", ".cert", "_crt.pem")):
                    pub = (x509.load_pem_x509_certificate(raw) if raw.startswith(b"-----") else x509.load_der_x509_certificate(raw)).public_key()
                else:
                    pub = serialization.load_pem_public_key(raw) if raw.startswith(b"-----") else serialization.load_der_public_key(raw)
                nums = pub.public_numbers()
                if isinstance(pub, rsa.RSAPublicKey):
                    mats[(g["cls"], i + 1)] = (nums.n.to_bytes(pub.key_size // 8, "big"), nums.e.to_bytes(3, "big"))
                else:
                    size = (pub.curve.key_size + 7) // 8
                    mats[(g["cls"], i + 1)] = (nums.x.to_bytes(size, "big"), nums.y.to_bytes(size, "big"))
            count = len(g["keys"])
        else:
            table = open(os.path.join(ADIR, g["table"]), "rb").read()
            la, lb = sizes[g["cls"]]
            count = 4
            if g["layout"] in ("hab", "ahab"):        # public-key records: 12-byte header, then a, then b
                rec = 12 + la + lb
                for i in range(4):
                    o = 4 + i * rec + 12
                    mats[(g["cls"], i + 1)] = (table[o:o + la], table[o + la:o + la + lb])
            else:                                      # v2: the records hold hashes; one SRK data block follows the table
                o = 4 + 4 * 76
                mats[(g["cls"], table[o + 4] + 1)] = (table[o + 8:o + 8 + la], table[o + 8 + la:o + 8 + la + lb])
        key = (g["rot"], g["cls"], count, g["ca"])
        if key not in by_shape:
            raise Machinery(f"anchor {g['name']}: the generator emitted no case of shape {key}")
        term, env = by_shape[key], Env(override=mats)
        if g.get("table_exact"):
            tt = term["arg"]                           # value = H(alg, table)
            if match(tt, table, 0, env, "table") != "ok" or tt["len"] > len(table):
                raise Machinery(f"anchor {g['name']}: the table term of the spec does not describe the golden table")
        else:
            want = g.get("value") or open(os.path.join(ADIR, g["value_file"]), "rb").read().hex()
            got = ev(term, env)
            if got is None or got.hex() != want:
                raise Machinery(f"anchor {g['name']}: the term of the spec evaluates to {got and got.hex()}, the golden value is {want}")
        n += 1
    return n


# ------------------------------------------------------------------ verdict helpers
def key_class(keys):
    cls = sorted({k["cls"] for k in keys})
    return ("mixed-rsa" if len(cls) > 1 else cls[0]) + f"x{len(keys)}"


def finding_key(t, matched, evname, why):
    evs = t["ev"]
    e = evs[min(matched, len(evs) - 1)]
    if evname == "Compute":
        c = e["c"]
        return f"C03/{c['rot']}/{c['path']}/{key_class(c['keys'])}/{why}"
    if evname == "ComputeFor":
        c = e["c"]
        return f"C03/{c['rot']}/{c['path']}/{e['fam']}@{e['rev']}/{key_class(c['keys'])}/{why}"
    if evname == "ReadByPath":
        rewritten = sum(1 for x in evs[:matched] if x["a"] == "ReadByPath") > 0
        n = len(e["files"])
        return f"C03/{e['rot']}/{e['path']}/files-x{n}/{'reread-after-rewrite' if rewritten else 'first-read'}/{why}"
    if evname in ("Build21", "Export21", "Parse21"):
        b = evs[0]
        kc = key_class(b["keys"]) + ("+isk" if b["isk"] else "")
        if b["isk"] and b["iskKey"]["cls"] != b["keys"][0]["cls"]:          # the ISK on another curve than the root keys
            kc += "-" + b["iskKey"]["cls"]
        if evname == "Export21":
            last_exp = max([i for i, x in enumerate(evs[:matched]) if x["a"] == "Export21"], default=-1)
            changed = sorted({x["a"] for x in evs[last_exp + 1:matched] if x["a"] in ("SetUserData", "SetConstraints")})
            first = "export" if last_exp < 0 else "reexport"
            stage = f"{first}-after-{'+'.join(changed)}" if changed else first
            return f"C03/cert_block_21/{stage}/{kc}/{why}"
        return f"C03/cert_block_21/{evname[:-2].lower()}/{kc}/{why}"
    if evname in ("Build1", "Export1", "Parse1"):
        b = evs[0]
        return f"C03/cert_block_1/{evname[:-1].lower()}/{key_class(b['keys'])}/{why}"
    if evname in TAB_EVENTS:
        sc = t["scen"]
        rot = {"rkht1": "cert_block_1", "cb1": "cert_block_1", "hab": "srk_table_hab", "ahab": "srk_table_ahab", "ahab2": "srk_table_ahab_v2",
               "pfr1": "cert_block_1", "pfr21": "cert_block_21"}[sc["fl"]]
        at = min(matched, len(evs) - 1)
        kc = f"{sc['cls']}x{len(evs[at].get('keys', [])) or sc['n']}"
        if sc["fl"] in ("pfr1", "pfr21") and evs[at].get("keys"):  # a page is handed lists of either key type: the type of THIS list
            kc = key_class(evs[at]["keys"])
        return f"C03/{rot}/history/{sc['fl']}/{tab_class(evs, at)}/{evname}/{kc}/{why}"
    return f"C03/{evname}/{why}"


TAB_EVENTS = ("StartT", "SetSlot", "AppendSlot", "ClearT", "AddCertificate", "SetAll", "Rekey", "SetCa", "ComputeT")


def lean_trace(t):
    """What TLC gets: the events without the raw bytes (they stay in the witness)."""
    return {"id": t["id"], "ev": [{k: x for k, x in e.items() if k != "hex"} for e in t["ev"]]}


def slug(msg):
    """Exception class + the first words of its message: part of the finding key of a refused / crashed call."""
    cls, _, text = msg.partition(":")
    words = re.findall(r"[A-Za-z_]+", text.replace("SPSDK", ""))[:5]
    return cls.strip() + ":" + "-".join(words)


def slim(t):
    """Replay witness: the trace without the bulky terms."""
    out = {"id": t["id"], "fam": t.get("fam", ""), "gen": t.get("gen"), "ev": [{k: v for k, v in e.items() if k not in ("term", "rkth_term", "table_term", "image")} for e in t["ev"]]}
    if "scen" in t:
        out["scen"] = t["scen"]
    return out


def gen(mode, menu, depth, extra="none", workers=2, timeout=600):
    r = tlc.run("C03", "RotGen", "RotGen.cfg", env={"GEN_MODE": mode, "MENU": menu, "GEN_DEPTH": depth, "EXTRA_CASES": extra},
                workers=workers, deadlock=False, heap="6g", timeout=timeout)
    if r.violated or not r.no_error:
        raise Machinery(f"RotGen ({mode}) did not pass: {r.violated}\n" + "\n".join(r.out.splitlines()[-40:]))
    return r


def canary_traces(c, term):
    want = list(ev(term, Env()))
    good = {"a": "Compute", "c": c, "term": term, "want": want, "got": {"k": "val", "v": want, "msg": ""}, "fieldLen": 0}
    bad1 = json.loads(json.dumps(good))
    bad1["got"]["v"][5] ^= 1                                       # one flipped bit of the returned value
    bad2 = json.loads(json.dumps(good))
    bad2["c"]["keys"] = list(reversed(bad2["c"]["keys"]))          # the value of another key order
    bad3 = json.loads(json.dumps(good))
    bad3["got"] = {"k": "err", "v": [], "msg": "refused"}
    return [{"id": "canary-good", "ev": [good]}, {"id": "canary-flip", "ev": [bad1]}, {"id": "canary-order", "ev": [bad2]},
            {"id": "canary-refused", "ev": [bad3]}]


def canary_dev(devcases):
    """Device canaries: a good observation of an entry point that was given (family, revision) is accepted; the same observation
    carrying the value of ANOTHER revision's RoT type is rejected ("value"); a case whose RoT type is not the table's is refused
    ("device").  Taken from a family whose revisions have different types when the table has one, else a flipped bit."""
    by = {}
    for e in devcases:
        if e["c"]["path"] == "rot":
            by.setdefault(e["fam"], []).append(e)
    pair = next(((a, b) for es in by.values() for a in es for b in es if a["c"]["rot"] != b["c"]["rot"] and a["rev"] != "latest"), None)
    a = pair[0] if pair else next(e for e in devcases if e["c"]["path"] == "rot")
    want = list(ev(a["term"], Env()))
    good = {"a": "ComputeFor", "fam": a["fam"], "rev": a["rev"], "c": a["c"], "term": a["term"], "want": want, "got": {"k": "val", "v": want, "msg": ""}, "fieldLen": 0}
    bad = json.loads(json.dumps(good))
    if pair:
        bad["got"]["v"] = list(ev(pair[1]["term"], Env()))             # what the entry point returns when it looks at the other revision
    else:
        bad["got"]["v"][7] ^= 0x10
    out = [{"id": "canary-dev-good", "ev": [good]}, {"id": "canary-dev-otherrev", "ev": [bad]}]
    expect = {"canary-dev-otherrev": "value"}
    if pair:
        bad2 = json.loads(json.dumps(good))
        bad2["c"], bad2["term"] = pair[1]["c"], pair[1]["term"]         # the case of the other revision's type under this revision's name
        bad2["want"] = bad2["got"]["v"] = list(ev(pair[1]["term"], Env()))
        out.append({"id": "canary-dev-wrongtype", "ev": [bad2]})
        expect["canary-dev-wrongtype"] = "device"
    return out, expect, bool(pair)


def tab_lane(menu, quick):
    """The construction-history lane, run beside the other generators: TLC generates the histories, they are replayed on the real objects in this
    process (a millisecond each), TLC decides them (the lane's canaries ride in the same batch)."""
    import time

    t0 = time.time()
    g = gen("tab", menu, 1, workers=2, timeout=1500)
    tabs = [dict(j, gen=[menu, 1]) for j in g.json_prints() if j["mode"] == "tab"]
    t1 = time.time()
    # the history lane must hold what it is there for: per indexed builder EVERY order of filling 2, 3 and 4 slots and a replacement of every
    # slot; append / replace / clear for the list-like builders
    orders = {}
    for b in tabs:
        sc = b["scen"]
        if sc["fl"] in ("rkht1", "cb1") and sc["origin"] == "new" and sc["repl"] == 0 and not sc["peek"] and sc["sel"] == list(range(1, sc["n"] + 1)):
            orders.setdefault((sc["fl"], sc["n"]), set()).add(tuple(e["i"] for e in b["hist"] if e["a"] == "SetSlot"))
    short = [(k, len(x)) for k, x in sorted(orders.items()) if len(x) != {1: 1, 2: 2, 3: 6, 4: 24}[k[1]]]
    repl = {(b["scen"]["fl"], b["scen"]["n"], b["scen"]["repl"]) for b in tabs if b["scen"]["repl"]}
    if len(orders) != 8 or short or any((fl, n, j) not in repl for fl in ("rkht1", "cb1", "hab") for n in (2, 3, 4) for j in range(1, n + 1)) \
            or not all(any(b["scen"]["fl"] == fl and b["scen"]["clear"] for b in tabs) for fl in ("ahab", "ahab2")) \
            or not all(any(b["scen"]["fl"] == fl for b in tabs) for fl in ("pfr1", "pfr21")):
        raise Machinery(f"history lane incomplete: orders {sorted((k, len(x)) for k, x in orders.items())}, {len(repl)} replacement classes")
    # ... and EVERY family with a ROTKH field x every key type the field takes x every key type of the value the page held before x both ways
    # of coming to hold it
    held = {(b["scen"]["fam"], b["scen"]["cls"], b["scen"]["hcls"], b["scen"]["origin"]) for b in tabs if b["scen"]["fl"] in ("pfr1", "pfr21")}
    need = set()
    for d in devices():
        rot = d["rots"][d["revs"].index(d["latest"])]
        cls = {"cert_block_1": ["rsa2048"], "cert_block_21": [c for c, n in (("p256", 32), ("p384", 48)) if n <= d["rotkh"]]}.get(rot, [])
        if d["pfr"] and d["rotkh"]:
            need |= {(d["fam"], c, h, o) for c in cls for h in cls for o in ("cfg", "parsed")}
    if not need or need - held or not any(c != h for _, c, h, _ in need):
        raise Machinery(f"history lane incomplete: {len(need - held)} of {len(need)} (family, key type, held key type, origin) missing, e.g. {sorted(need - held)[:3]}")
    # ... and the change histories: per table kind and per way the object came to exist a history that READS, changes in place (an entry
    # replaced / a record re-keyed / the CA flag) and READS AGAIN - no two writes of a change history without a read between them
    seen = set()
    for b in tabs:
        if b["scen"]["chg"]:
            names = [e["a"] for e in b["hist"]]
            at = [i for i, x in enumerate(names) if x in ("SetSlot", "Rekey", "SetCa")][-b["scen"]["chg"]:]   # the last chg writes are the changes
            if len(at) != b["scen"]["chg"] or any(names[i - 1] != "ComputeT" or names[i + 1:i + 2] != ["ComputeT"] for i in at):
                raise Machinery(f"history lane: a change history that does not read before and after every change: {names}")
            seen |= {(b["scen"]["fl"], b["scen"]["origin"], names[i]) for i in at}
    want_chg = {(fl, o, k) for fls, os_, ks in ((("rkht1",), ("new", "keys", "parsed"), ("SetSlot",)), (("cb1",), ("new", "parsed"), ("SetSlot",)),
                                              (("hab",), ("new", "parsed"), ("SetSlot", "Rekey", "SetCa")),
                                              (("ahab", "ahab2"), ("new", "keys", "parsed", "rot"), ("SetSlot", "Rekey", "SetCa")))
                for fl in fls for o in os_ for k in ks}
    if want_chg - seen:
        raise Machinery(f"history lane incomplete: change histories missing for {sorted(want_chg - seen)[:4]}")
    traces = [replay_tab((5000000 + i, b)) for i, b in enumerate(tabs)]
    t2 = time.time()
    canaries, _ = canary_tab(tabs)
    lean = canaries + [lean_trace(t) for t in traces]
    parts = [lean] if quick else [lean[k:k + 6000] for k in range(0, len(lean), 6000)]
    rej, states = {}, 0
    for part in parts:
        rj, r = tlc.tv("C03", "RotTrace", part, heap="8g", timeout=3000)
        rej.update(rj)
        states += r.distinct
    say(f"[C03] history lane: {len(tabs)} histories generated {t1 - t0:.1f}s, replayed {t2 - t1:.1f}s, decided {time.time() - t2:.1f}s")
    return g, (tabs, traces, rej, states)


def run(tier):
    import_spsdk()
    v = Verdict(PROP, tier)
    quick = tier == "quick"
    r = rng(PROP)
    sc = scratch()
    os.makedirs(os.path.join(sc, "c03-work"), exist_ok=True)
    nkeys = check_pool()
    families()
    devs = devices()

    # ---- sampled cases go through the generator too: TLC checks that they are in the asserted domain and emits their terms
    extra_file = os.path.join(sc, "c03-extra.ndjson")
    extra = sampled_cases(r, 300 if quick else 4000, quick)
    # family sweep: EVERY family of the database once through Rot (dispatch by rot type) and once through its CMPA / DAT path
    pinned = {}
    for (rot, kind), fams in sorted(families().items()):
        if rot not in PATHS:  # cert_block_x: not named by the property
            continue
        for i, fam in enumerate(fams):
            cls = {"cert_block_1": "rsa2048", "cert_block_21": ("p256", "p384")[i % 2]}.get(rot, ("p256", "p384", "p521")[i % 3])
            n = 4 if "ahab" in rot else 1 + i % 4
            path = {"rot": "rot", "pfr": "pfr", "dc": "dc"}[kind]
            if rot == "srk_table_ahab_v2" and kind == "dc":
                continue
            enc = {"form": "path", "fmt": "ca.der" if rot == "srk_table_hab" else "pub.pem"}
            c = {"rot": rot, "keys": [{"cls": cls, "id": 1 + (i + j) % 4} for j in range(n)], "encs": [enc] * n, "path": path, "used": 1 + i % n if kind == "dc" else 0}
            pinned.setdefault(json.dumps(c, sort_keys=True), []).append(i)
            extra.append(c)
    with open(extra_file, "w") as f:
        for c in extra:
            f.write(json.dumps(c) + "\n")

    # ---- GEN + MC (four TLC runs side by side) and the MC of the state machine
    menu = "small" if quick else "full"
    res, errs = {}, []

    def bg(name, fn):
        def w():
            try:
                res[name] = fn()
            except BaseException as x:  # noqa: BLE001
                errs.append(x)
        th = threading.Thread(target=w)
        th.start()
        return th

    ths = [bg("case", lambda: gen("case", menu, 1, extra_file, workers=2 if quick else 4, timeout=1500)),
           bg("cb21", lambda: gen("cb21", menu, 3, workers=2 if quick else 4, timeout=1500)),
           bg("cb1", lambda: gen("cb1", menu, 3 if quick else 4, workers=1 if quick else 2, timeout=1500)),
           bg("files", lambda: gen("files", menu, 3 if quick else 5, workers=1 if quick else 2, timeout=1500)),
           bg("dev", lambda: gen("dev", menu, 1, workers=1, timeout=1500)),
           bg("tabrun", lambda: tab_lane(menu, quick)),
           bg("mc", lambda: tlc.mc("C03", "RotMC", "RotMC.cfg", workers=2 if quick else 4, heap="6g", timeout=900, env={"C03_DEVICES": "RotMC_devices.ndjson"},
                                   require_actions=("LCompute", "LComputeFor", "LWriteFile", "LReadByPath", "LBuild21", "LExport21", "LParse21", "LSetUserData",
                                                    "LSetConstraints", "LBuild1", "LExport1", "LParse1", "LSetImageLength"))),
           bg("mctab", lambda: tlc.mc("C03", "RotMC", "RotMC_tab.cfg", workers=2, heap="4g", timeout=900, env={"C03_DEVICES": "RotMC_devices.ndjson"},
                                      require_actions=("LStartT", "LSetSlot", "LAppendSlot", "LClearT", "LAddCertificate", "LSetAll", "LRekey", "LSetCa", "LComputeT"))),
           bg("asbuilt", lambda: tlc.run("C03", "RotMC", "RotMC_asbuilt.cfg", workers=1, heap="4g", timeout=900, env={"C03_DEVICES": "RotMC_devices.ndjson"}))]
    if not quick:  # longer histories over the small menus (the full menus are exhausted to depth 3)
        ths.append(bg("cb21-deep", lambda: gen("cb21", "small", 5, workers=2, timeout=1500)))
    for th in ths:
        th.join()
    if errs:
        raise errs[0]
    res["tab"], res["tablane"] = res["tabrun"]
    for name in ("case", "cb21", "cb1", "files", "dev", "tab", "mc", "mctab") + (() if quick else ("cb21-deep",)):
        v.add_mc(res[name])
    ab = res["asbuilt"]
    v.extra["ispec_prediction"] = ("RotMC_asbuilt (SigCache = TRUE, the signature is only made when there is none): TLC " +
                                   (f"violates {ab.violated} - the stale ISK signature after a field change is predicted" if ab.violated == "FreshSignature"
                                    else f"reports {ab.violated or 'no violation'} (drift: the as-built model no longer shows the defect)"))
    say(f"[C03] GEN/MC done {v.timer.s()}s: " + ", ".join(f"{k}={res[k].distinct}" for k in ("case", "cb21", "cb1", "files", "dev", "tab", "mc", "mctab")))

    cases = [(j["hist"][0]["c"], j["hist"][0]["term"]) for j in res["case"].json_prints() if j["mode"] == "case"]
    depths = {"cb21": 3, "cb1": 3 if quick else 4, "files": 3 if quick else 5}
    behs = {m: [dict(j, gen=[menu, depths[m]]) for j in res[m].json_prints() if j["mode"] == m] for m in ("cb21", "cb1", "files")}
    if not quick:
        behs["cb21"] += [dict(j, gen=["small", 5]) for j in res["cb21-deep"].json_prints() if j["mode"] == "cb21"]
    devcases = [j["hist"][0] for j in res["dev"].json_prints() if j["mode"] == "dev"]
    tabs, tab_traces, tab_rej, tab_tv = res["tablane"]
    # the device sweep must be complete: every (family, revision name) of the table whose RoT type the property names, through Rot (value
    # and table) and through the command line
    need = {(d["fam"], x, p) for d in devs for x in d["revs"] + ["latest"] for p in ("rot", "rot_table", "cli")
            if d["rots"][d["revs"].index(d["latest"] if x == "latest" else x)] in PATHS}
    have = {(e["fam"], e["rev"], e["c"]["path"]) for e in devcases}
    if not need or need - have:
        raise Machinery(f"device sweep incomplete: {len(need - have)} of {len(need)} (family, revision, entry point) missing, e.g. {sorted(need - have)[:3]}")
    if len(cases) < 2000 or min(len(b) for b in behs.values()) < 50 or len(tabs) < 500:
        raise Machinery(f"generator emitted too little: {len(cases)} cases, " + str({m: len(b) for m, b in behs.items()}))
    n_anchor = anchor_check(cases)
    v.extra["anchors"] = f"{n_anchor} golden values (stored hashes of the repository's test keys, HAB / AHAB tables) reproduced by the spec's terms"

    # ---- execute on the real code
    jobs = []
    for c, term in cases:
        for pick in pinned.get(json.dumps(c, sort_keys=True)) or [0 if quick else len(jobs)]:
            jobs.append((len(jobs), c, term, pick))
    order = list(range(len(jobs)))
    r.shuffle(order)  # spread the expensive (RSA private key) cases over the workers
    traces = pmap(run_case, [jobs[i] for i in order], chunksize=16)
    say(f"[C03] {len(traces)} cases executed {v.timer.s()}s")
    dorder = list(range(len(devcases)))
    r.shuffle(dorder)
    traces += pmap(run_dev, [(4000000 + i, devcases[i]) for i in dorder], chunksize=16)
    say(f"[C03] {len(devcases)} device cases executed {v.timer.s()}s")
    base = 1000000
    for m, fn in (("cb21", replay_cb21), ("cb1", replay_cb1), ("files", replay_files)):
        hj = [(base + i, b, 0 if quick else i) for i, b in enumerate(behs[m])]
        traces += pmap(fn, hj, chunksize=8)
        base += 1000000
    traces += tab_traces
    say(f"[C03] histories replayed {v.timer.s()}s: " + str(dict({m: len(b) for m, b in behs.items()}, tab=len(tabs))))
    v.count(len(traces))
    for t in traces:
        if any(e.get("got", {}).get("k") == "val" for e in t["ev"]):
            v.nontrivial(sha([[{k: x for k, x in e.items() if k in ("a", "c", "fam", "rev", "keys", "used", "isk", "udLen", "cons", "len", "img", "build", "f", "k", "enc", "rot", "files", "path", "ver", "flags",
                                                                 "fl", "origin", "init", "cert", "i", "form", "index", "ca")}
                                for e in t["ev"]]]))
    by_id = {t["id"]: t for t in traces}
    for i in (3, len(jobs) // 2, 1000000, 5000000 + len(tabs) // 3, 3000005, 4000000 + len(devcases) // 2, 2000003):
        if i in by_id:
            v.sample(slim(by_id[i]))

    # ---- TV: TLC decides (the canary rides in the same batch)
    c0, t0 = next((c, t) for c, t in cases if c["rot"] == "cert_block_21" and len(c["keys"]) == 3 and c["path"] == "rkht")
    lean = [lean_trace(t) for t in traces]
    chunks = [lean[k:k + 5000] for k in range(0, len(lean), 5000)]
    dev_canaries, dev_expect, dev_pair = canary_dev(devcases)
    _, tab_expect = canary_tab(tabs)
    lean = [x for x in lean if x["id"] < 5000000]                       # the history lane was decided beside the generators
    chunks = [lean[k:k + 5000] for k in range(0, len(lean), 5000)]
    chunks[0] = canary_traces(c0, t0) + dev_canaries + chunks[0]
    rej, tv_states, tv_errs = dict(tab_rej), [tab_tv], []
    sem = threading.Semaphore(3)

    def tv_chunk(part):
        with sem:
            try:
                rj, res_tv = tlc.tv("C03", "RotTrace", part, heap="8g", timeout=3000)
                rej.update(rj)
                tv_states[0] += res_tv.distinct
            except BaseException as x:  # noqa: BLE001
                tv_errs.append(x)

    tvs = [threading.Thread(target=tv_chunk, args=(part,)) for part in chunks]
    for th in tvs:
        th.start()
    for th in tvs:
        th.join()
    if tv_errs:
        raise tv_errs[0]
    can = {k: x for k, x in rej.items() if str(k).startswith("canary")}
    if (set(can) != {"canary-flip", "canary-order", "canary-refused"} | set(dev_expect) | set(tab_expect) or can["canary-flip"][3] != "value"
            or can["canary-order"][3] != "term" or any(can[k][3] != w for k, w in list(dev_expect.items()) + list(tab_expect.items()))):
        raise Machinery(f"canary failed: {can}")
    v.extra["canary"] = ("good observation accepted; one flipped bit of the value, the value of another key order, a refusal: rejected; device entry point: "
                         + ("the value of ANOTHER revision's RoT type and a case typed by another revision: rejected" if dev_pair else "one flipped bit: rejected")
                         + "; construction history (spec-generated, independently evaluated): good accepted; the value / table of a builder that inserts instead of "
                           "replacing, a lost write, a refused write, one flipped bit of the table: rejected; change history (read, one record re-keyed in place, read): "
                           "good accepted, the second read answered with the value of the first: rejected")
    v.traces(len(traces))
    v.extra["tv_states"] = tv_states[0]
    for tid, (matched, length, evname, why) in rej.items():
        if str(tid).startswith("canary"):
            continue
        t = by_id[tid]
        if why in ("legal", "term", "device", "args", "no-such-action", "end", "start") and not any("crash" in e for e in t["ev"]):
            raise Machinery(f"trace {tid}: event #{matched + 1} ({evname}) is outside the spec's domain ({why}) - the harness is wrong: "
                            + json.dumps(slim(t)["ev"][min(matched, len(t['ev']) - 1)])[:600])
        e = t["ev"][min(matched, len(t["ev"]) - 1)]
        if "crash" in e:
            why = "raised:" + slug(e["crash"])
        elif evname in ("Compute", "ComputeFor", "ReadByPath") and why == "returned":
            why = ("refused" if e["got"]["k"] == "err" else "raised") + ":" + slug(e["got"]["msg"])
        elif evname == "ComputeT":
            ob = {"returned": "got", "table": "tbl", "fuses": "fuses", "parsed": "parsed"}.get(why)
            if ob and e[ob]["k"] != "val":
                why += ":" + ("refused" if e[ob]["k"] == "err" else "raised") + ":" + slug(e[ob]["msg"])
        key = finding_key(t, matched, evname, why)
        what = f"event #{matched + 1} ({evname}) is not a step of the R-spec: clause '{why}'"
        if evname == "ComputeFor":
            what += f"; {e['fam']} revision {e['rev']} has RoT type {e['c']['rot']}"
        if evname in ("Compute", "ComputeFor", "ReadByPath"):
            what += f"; returned {bytes(e['got']['v']).hex()[:24] or e['got']['msg']}.. expected {bytes(e['want']).hex()[:24]}.."
        if evname == "ComputeT":
            what += (f"; after {' '.join(tab_short(x) for x in t['ev'][:matched])} the {t['scen']['fl']} object holds the keys {[k['id'] for k in e['keys']]}: value "
                     f"{bytes(e['got']['v']).hex()[:24] or e['got']['msg']}.. table {bytes(e['tbl']['v']).hex()[:16]}.. documented construction over these keys {bytes(e['want']).hex()[:24]}..")
        elif evname in TAB_EVENTS:
            what += f"; after {' '.join(tab_short(x) for x in t['ev'][:matched])} the call {tab_short(e)} on the {t['scen']['fl']} object: {e.get('crash', '')}"
        v.violation(key, what, {"kind": "case" if evname == "Compute" else "dev" if evname == "ComputeFor" else "history", "trace": slim(t), "failed_event": matched + 1, "why": why})

    v.cov["rule"] = (
        f"{len(jobs)} Compute cases = TLC-enumerated structure sweep (all key-set shapes incl. mixed RSA sizes and keys with leading zero bytes x "
        f"{'all' if not quick else 'four'} orders x used index x every tool path) + encoding sweep (every encoding each path takes, uniform and mixed) + "
        f"{len(extra)} sampled / family sweep (every family of the database through Rot, CMPA, DAT); {len(devcases)} ComputeFor cases = device sweep (every family x "
        f"every silicon revision of the device table and the name 'latest' - {sum(len(d['revs']) + 1 for d in devs)} pairs, "
        f"{sum(1 for d in devs if len(set(d['rots'])) > 1)} family with revisions of different RoT types - x Rot value / Rot table / nxpcrypto -r / CMPA / debug credential); histories: {len(behs['cb21'])} cert-block v2.1, {len(behs['cb1'])} v1 (header fields version / flags word / build number / image length default and other than default: "
        f"every one of them is in the exported block and in the parsed object), {len(behs['files'])} key-file rewrite; "
        f"{len(tabs)} construction histories of ONE table object (RKHTv1.set_rkh and CertBlockV1.set_root_key_hash / add_certificate: every order of filling 1..4 slots by "
        f"index, every single replacement at every position{'' if quick else ' and every pair of replacements (RKHTv1)'}, objects that start empty / from a key list / parsed, value read on the way; HAB SrkTable "
        "append / table[i] = item; AHAB SRKTable and SRKTableV2 add_record / clear and refill; "
        f"{sum(1 for b in tabs if b['scen']['chg'])} CHANGE histories of these five table kinds - the table is complete (built by calls / from a key list / parsed / held by the front end "
        "Rot(family, keys)), is READ, and is then changed in place: an entry replaced (set_rkh / set_root_key_hash / table[i] = item / srk_records[i] = record), the key of an SRK record replaced, "
        f"the CA flag of one / of all SRK records changed - every sequence of {'one such change, two on the main lines' if quick else 'up to two such changes, three on the main lines'}, "
        "the value read after EVERY step; one CMPA page object exported with key list A, B, A again - a new page, and for EVERY family with a ROTKH field x every key type the field takes x every key type "
        "of the held list a page that HELD the value of another key list before (also of the other hash width), loaded from a configuration that carries the ROTKH or parsed "
        "from a binary that does): value, table, fuse words, exported and re-parsed object = the documented "
        "construction over the FINAL contents; "
        "a trace is non-trivial if the real code returned a value in it (distinct by the abstract arguments)")
    v.cov["exhaustive"] = False
    v.cov["key_pool"] = f"{nkeys} keys in keys/rot"
    v.cov["checker_cmd"] = "TLC RotGen (lemmas + emission) ; TLC RotMC (RotMC.cfg, RotMC_tab.cfg) ; TLC RotTrace (decides every observation)"
    v.cov["trusted_base"] = ["hashlib SHA-2", "`cryptography`: key / certificate loading and ECDSA verification, called directly (never through spsdk.crypto)", "own DER length reader and v1 block walker (struct)", "TLC + CommunityModules (Json, IOUtils)"]
    v.assumptions += [
        "the RoT type of a (family, revision) is a fact of the silicon: frozen table anchors/C03/rot_types_rev.json (revisions added later are classified by the "
        "database); which revision 'latest' names is the database's convention; the debug-credential path is not asserted for revisions of type srk_table_ahab_v2",
        "RSA moduli have their full length and e = 65537 (3 bytes): the pool holds no artificial short moduli",
        "SRK tables (HAB, AHAB) carry a documented CA flag per record; it is taken from the supplied certificate and is part of the expected value - "
        "AHAB tables with mixed flags and HAB input other than certificates are outside the asserted domain",
        "AHAB RSA records: exponent field of 4 bytes (no golden artefact with RSA SRKs is available offline; ECC layouts are anchored)",
        "srk_table_ahab_v2 with RSA keys is refused by SPSDK's own verifier and the debug-credential path of the two v2 families builds a v1 table: not asserted",
        "debug credentials with RSA-3072 root keys are outside the DAT protocol versions; one password per call (no mix of encrypted and plain private keys)",
        "certificate block v1 with a single self-signed certificate (chains are C02's); ISK key on P-256 / P-384 whatever the curve of the root keys (every pair, built and parsed); re-signing a PARSED block is undefined",
        "cert_block_x (4 families) is not named by the property",
        "construction histories: the value of an object is asserted whenever its contents are a key list of the property (1..4 keys without a hole; four records "
        "for AHAB); a v1 table with a hole (the configuration front end refuses holes) and an AHAB table with fewer than four records are not asserted - so an "
        "update_fields() on an incomplete AHAB table (which freezes its length field) is not generated; RKHTv21 / CertBlockV21 / the RoT meta of debug credentials have "
        "no incremental builder; exporting a v1 block whose certificate key is not in the table is not asserted",
        "in-place changes of an SRK table go through the public fields of the table and of its records (HAB: table[i] = item, SrkItem.flag / .modulus / .exponent / "
        ".x_coordinate / .y_coordinate; AHAB: SRKTable.srk_records[i] = record, SRKRecord.srk_flags / .crypto_params / .src_key / .srk_data) followed by update_fields(); "
        "a re-keyed record keeps its type (algorithm, key size) and its flag; what is asserted is that the value the object hands out after the change is the documented "
        "construction over the key list it holds and exports then (value, exported table and the value of the re-parsed table agree) - how SPSDK gets there (recompute, "
        "cache with invalidation) is not",
        "PFR: the ROTKH field is asserted for export(keys=...) - the key list is handed over; export(rotkh=<value computed elsewhere>) takes a VALUE, not keys, and is not "
        "driven; a v1 header build number is exercised below 2^31, the flags word as four bytes (bit 31 only in the thorough tier)",
    ]
    return v.finish()


def replay(path):
    import_spsdk()
    devices()
    os.makedirs(os.path.join(scratch(), "c03-work"), exist_ok=True)
    w = json.load(open(path))["witness"]
    t = w["trace"]
    # terms are recomputed by the generator for exactly this witness
    if w["kind"] == "case":
        c = t["ev"][0]["c"]
        f = os.path.join(scratch(), "replay.ndjson")
        with open(f, "w") as fh:
            fh.write(json.dumps(c) + "\n")
        g = gen("extra", "small", 1, f, workers=1)
        j = [x for x in g.json_prints() if x["mode"] == "case"]
        if len(j) != 1:
            raise Machinery("replay: the generator did not return the term of the witness")
        fams = families()
        kind = fam_kind(c["path"])
        pick = fams[(c["rot"], kind)].index(t["fam"]) if t.get("fam") in fams[(c["rot"], kind)] else 0
        new = run_case((0, c, j[0]["hist"][0]["term"], pick))
    elif w["kind"] == "dev":  # the term comes from the generator's device sweep for exactly this (family, revision, case)
        e0 = t["ev"][0]
        new = None
        for gmenu in ("small", "full"):
            g = gen("dev", gmenu, 1, workers=1)
            j = [x["hist"][0] for x in g.json_prints() if x["mode"] == "dev" and x["hist"][0]["fam"] == e0["fam"] and x["hist"][0]["rev"] == e0["rev"]
                 and x["hist"][0]["c"] == e0["c"]]
            if j:
                new = run_dev((t["id"], j[0]))
                break
        if new is None:
            raise Machinery("replay: the generator no longer produces the device case of the witness")
    elif t["ev"][0]["a"] == "StartT":  # a construction history: the generator's behaviour of the same scenario with the same calls
        gmenu = (t.get("gen") or ["small", 1])[0]
        g = gen("tab", gmenu, 1, workers=2, timeout=1500)
        want = [strip(e) for e in t["ev"]]
        cand = [b for b in g.json_prints() if b["mode"] == "tab" and b["scen"] == t["scen"] and [strip(e) for e in b["hist"][:len(want)]] == want]
        if not cand:
            raise Machinery("replay: the generator no longer produces the history of the witness")
        beh = dict(cand[0])
        beh["hist"] = beh["hist"][:len(want)]
        new = replay_tab((t["id"], beh))
    else:
        raise_if = [e["a"] for e in t["ev"]]
        mode = "cb21" if "Build21" in raise_if else "cb1" if "Build1" in raise_if else "files"
        # find the generated behaviour with the same abstract actions
        gmenu, gdepth = t.get("gen") or ["small", 3]
        g = gen(mode, gmenu, gdepth, workers=4, timeout=1500)
        want = [strip(e) for e in t["ev"]]
        cand = [b for b in g.json_prints() if b["mode"] == mode and [strip(e) for e in b["hist"][:len(want)]] == want]
        if not cand:
            raise Machinery("replay: the generator no longer produces the behaviour of the witness")
        fn = {"cb21": replay_cb21, "cb1": replay_cb1, "files": replay_files}[mode]
        beh = dict(cand[0])
        beh["hist"] = beh["hist"][:len(want)]
        fams = families()[("cert_block_21", "rot")]
        new = fn((t["id"], beh, fams.index(t["fam"]) if t.get("fam") in fams else 0))
    rej, _ = tlc.tv("C03", "RotTrace", [lean_trace(new)])
    if rej:
        (matched, length, evname, why) = list(rej.values())[0]
        say(f"VIOLATION property=C03 replay={path}")
        say(f"  rejected at event {matched + 1} ({evname}): clause '{why}'")
        return 1
    say("replay: trace accepted by the spec")
    return 0


ARGS = {"Build21": ("keys", "used", "isk", "iskKey", "udLen", "cons"), "SetUserData": ("len",), "SetConstraints": ("cons",),
        "Build1": ("keys", "used", "img", "build", "ver", "flags"), "SetImageLength": ("img",), "WriteFile": ("f", "k", "enc"),
        "ReadByPath": ("rot", "files", "path", "used"), "StartT": ("fl", "origin", "init", "cert"), "SetSlot": ("i", "k", "form"),
        "AppendSlot": ("k", "form"), "AddCertificate": ("k",), "SetAll": ("keys",), "Rekey": ("i", "k"), "SetCa": ("i", "ca"), "ComputeT": ("keys", "index")}


def strip(e):
    """The abstract action of a logged event (name + arguments; observations dropped)."""
    return {"a": e["a"], **{k: e[k] for k in ARGS.get(e["a"], ()) if k in e}}
