"""Growth beyond the listed properties: fuse programming (spsdk/fuses, nxpfuses).

spec/SYS/Fuses.tla       reference: the OTP array of the device (monotone bits, word locks, lock fuses) - model checked with FusesMC
spec/SYS/FusesMC.tla     design model: device || the write / read flow of the host; the ideal host holds the contract, the host as built and two
                         deliberately wrong designs are REFUTED
spec/SYS/FusesGen.tla    GEN: abstract cases (operation x kind of fuse x device pre-state x fault point x history), bound here to concrete fuses
spec/SYS/FusesTrace.tla  trace form: the commands the real Fuses / operators / nxpfuses sent to a device twin (McuBoot link of harness/c10.py, used
                         unchanged), decided by TLC: device re-derived, back-end grammar decoded, contract clauses noted per call

Not a registered check: prints OBSERVATION lines, writes evidence/extras/sys_fuses.json, exits 0 (2 on machinery failure)."""
import copy
import json
import os
import traceback

from lib import fuse_twin as FT
from lib import tlc
from lib.common import ROOT, Machinery, import_spsdk, rng, say, scratch
from lib.par import pmap
from lib.ptv import check_complete

LANE = "sys_fuses"
W = FT.W
VALUES = [0x1, 0x5, 0x80000000, 0xA5A5A5A5, 0x00010000, 0xFFFFFFFF, 0x12345678, 0x0F0F00F0]
_MAPS = {}


def fmap(family):
    if family not in _MAPS:
        _MAPS[family] = FT.FuseMap(family)
    return _MAPS[family]


# ------------------------------------------------------------------------------------------------ binding abstract kinds to concrete fuses
SKIPPED = []


def kind_of(fm, uid):
    w = fm.words[uid]
    lk = "no" if not w["lk"] else "self" if w["lk"] == uid else "other"
    return {"iwl": w["iwl"], "lk": lk, "grp": uid in fm.in_group, "acc": w["access"]}


def index_kinds(families):
    """kind (as a JSON string) -> [(family, uid)]  over the fuse maps of all families."""
    from spsdk.fuses.fuse_registers import FuseRegisters

    idx = {}
    SKIPPED.clear()
    for fam in families:
        fm = fmap(fam)
        # the lane drives words by uid / OTP index: the object must know every word of the map, and an index must name one word
        have = set()
        for reg in FuseRegisters(fam):
            have.update([s_.uid for s_ in reg.sub_regs] if reg.has_group_registers() else [reg.uid])
        idxs = [fm.words[u]["idx"] for u in fm.order]
        if have != set(fm.order) or len(set(idxs)) != len(idxs):
            SKIPPED.append(fam)
            continue
        for uid in fm.order:
            w = fm.words[uid]
            if w["width"] != 32 or w["calculated"] or w["reserved"]:
                continue
            if w["lk"] and w["lk"] not in fm.words:
                continue
            idx.setdefault(json.dumps(kind_of(fm, uid), sort_keys=True), []).append((fam, uid))
    return idx


def policy_lock(w, lock):
    """The lock flag a write of this word carries: the fuse map says 'always_lock' -> set; else what the caller asked for."""
    return True if w["iwl"] == "always_lock" else bool(lock)


def val_for(w, r, pre_val=0):
    """A value to configure: never touching the word's own lock masks if it is a lock fuse (the case decides about protections, not the value)."""
    v = r.choice(VALUES) if w["width"] == 32 else r.choice(VALUES) & ((1 << w["width"]) - 1)
    return v or 1


def make_job(jid, case, fam, uid, r):
    """Concrete job of one abstract case: device pre-state, the calls, the values."""
    fm = fmap(fam)
    w = fm.words[uid]
    grp = fm.in_group.get(uid)
    unit = grp if grp else uid                     # what the API is asked to write / read: the group the word belongs to, else the word
    subs = fm.groups[grp]["subs"] if grp else [uid]
    # masks of lock fuses that must stay untouched by values we burn (so that only `pre` decides about protection)
    lockmask = {}
    for u, x in fm.words.items():
        if x["lk"]:
            lockmask[x["lk"]] = lockmask.get(x["lk"], 0) | x["wm"] | x["rm"]
    dev0, wl0 = {}, []
    pre = case["pre"]
    if pre == "val":
        for s in subs:
            dev0[fm.words[s]["idx"]] = 0x00000100 & ~lockmask.get(s, 0) or 0x2
    elif pre == "wl":
        wl0 = [fm.words[s]["idx"] for s in subs]
    elif pre in ("lkw", "lkr"):
        lk = fm.words[w["lk"]]
        m = w["wm"] if pre == "lkw" else w["rm"]
        if not m:
            return None
        dev0[lk["idx"]] = dev0.get(lk["idx"], 0) | (m & -m)          # lowest bit of the mask
    values = {}
    for s in subs:
        v = val_for(fm.words[s], r) & ~lockmask.get(s, 0) & 0xFFFFFFFF
        values[s] = v or (0x100 & ~lockmask.get(s, 0)) or 0x2
    other = None
    if case["hist"] != "fresh":
        # the earlier call works on another plain word of the family (no lock fuse, not protected)
        cand = [u for u in fm.order if u not in subs and u not in fm.in_group and fm.words[u]["access"] == "RW" and fm.words[u]["lk"] != u
                and fm.words[u]["width"] == 32 and lockmask.get(u, 0) != 0xFFFFFFFF and not fm.words[u]["calculated"] and not fm.words[u]["reserved"]
                and fm.words[u]["iwl"] in ("none", "user") and fm.words[u]["lk"] not in subs]
        if not cand:
            return None
        # prefer a word that needs no lock-fuse read of its own (the history then ends with the same kind of command the judged call starts with)
        plain = [u for u in cand if not fm.words[u]["lk"]]
        other = r.choice(plain if plain and (case["mf"] or r.random() < 0.7) else cand)
        free = ~lockmask.get(other, 0) & 0xFFFFFFFF
        values[other] = (r.choice(VALUES) & free) or (free & -free)
    return {"id": jid, "case": case, "family": fam, "uid": uid, "unit": unit, "subs": subs, "dev0": dev0, "wl0": wl0, "values": values, "other": other,
            "transport": r.choice(["serial", "hid"])}


# ------------------------------------------------------------------------------------------------ running the real code against the twin
def build_stack(job, c10):
    from spsdk.mboot.mcuboot import McuBoot
    from spsdk.mboot.protocol.bulk_protocol import MbootBulkProtocol
    from spsdk.mboot.protocol.serial_protocol import MbootSerialProtocol

    fm = fmap(job["family"])
    otp = FT.Otp(fm.lay(fm.order), dict(job["dev0"]), list(job["wl0"]))
    mps = 32 if job["transport"] == "serial" else 56
    twin = c10.Twin(job["transport"], mps, None, None)
    core = FT.make_core(c10, otp, mps)
    twin.core = core
    proto = (MbootSerialProtocol if job["transport"] == "serial" else MbootBulkProtocol)(twin)
    proto.identifier = "twin"
    mb = McuBoot(proto)
    if fm.tool == "blhost":
        from spsdk.fuses.fuses import BlhostFuseOperator

        op = BlhostFuseOperator(mb)
    else:
        from spsdk.ele.ele_comm import EleMessageHandlerMBoot
        from spsdk.fuses.fuses import NxpeleFuseOperator

        op = NxpeleFuseOperator(EleMessageHandlerMBoot(mb, job["family"], comm_buffer_address_override=0x4000, comm_buffer_size_override=0x1000))
    return fm, otp, twin, core, op


def tgt_words(fm, uids, values, lock):
    return [{"idx": fm.words[u]["idx"], "val": W(values.get(u, 0)), "lock": policy_lock(fm.words[u], lock)} for u in uids]


def snapshot(fuses, fm, uids):
    out = []
    for u in uids:
        try:
            out.append({"idx": fm.words[u]["idx"], "val": W(fuses.fuse_regs.find_reg(u, include_group_regs=True).get_value())})
        except Exception:  # noqa: BLE001
            pass
    return out


def cfg_of(fm, job, units):
    """Configuration naming the units (words / groups) with the job's values.  A group is configured word by word through its object afterwards
    (how SPSDK splits ONE group value into words is register-file territory, C11)."""
    regs = {}
    for u in units:
        if u in fm.groups:
            continue
        regs[fm.words[u]["name"]] = hex(job["values"][u])
    return {"family": job["family"], "revision": "latest", "registers": regs}


def run_one(job):
    import time

    t0 = time.process_time()
    try:
        out = _run_one(job)
        out["cpu"] = round(time.process_time() - t0, 3)
        return out
    except BaseException as e:  # noqa: BLE001
        return {"id": job["id"], "error": f"{type(e).__name__}: {e}\n{traceback.format_exc()[-1500:]}", "job": job}


def _run_one(job):
    c10 = FT.import_c10()
    from spsdk.exceptions import SPSDKError
    from spsdk.fuses.fuses import Fuses

    case = job["case"]
    fm, otp, twin, core, op = build_stack(job, c10)
    be = fm.tool
    evs = []
    touched = set()

    def record(call, res):
        touched.update(d["idx"] for d in otp.log)
        evs.append(call)
        evs.extend(core.wire)
        evs.append(res)
        core.wire = []
        otp.log = []

    def do(opname, units, lock=False, fault=0, mf=0, quiet=False, route="api", fuses=None):
        """One call under judgement (or of the history)."""
        words = [s for u in units for s in (fm.groups[u]["subs"] if u in fm.groups else [u])]
        free = any(u in fm.groups for u in units)
        call = {"ev": "call", "op": {"write": "write", "read": "read", "read_all": "read_all", "script": "script"}[opname], "be": be,
                "tgt": tgt_words(fm, words, job["values"], lock) if opname in ("write", "script") else
                [{"idx": fm.words[s]["idx"], "val": [0, 0], "lock": False} for s in words],
                "quiet": bool(quiet), "fault": bool(fault or mf), "freeorder": free,
                "grouped": [fm.words[s]["idx"] for s in words if s in fm.in_group] if opname == "read_all" else []}
        res = {"ev": "result", "kind": "ret", "documented": True, "exc": "none", "hasval": False, "val": [0, 0], "obj": [], "ctx": [], "hasapi": False, "api": []}
        core.wire = []
        twin.reads = 0                 # the twin's guard against a host that never stops reading is a budget per call
        otp.quiet = quiet
        otp.arm(fault or None)
        if mf:
            twin.dev_error = (twin.ncmd + mf, 10101)
        return call, res, words

    fuses = Fuses(job["family"], fuse_operator=op)

    def set_values(f, units):
        for u in units:
            for s in (fm.groups[u]["subs"] if u in fm.groups else [u]):
                f.fuse_regs.find_reg(s, include_group_regs=True).set_value(job["values"][s])

    def guarded(fn, res):
        try:
            return fn()
        except SPSDKError as e:
            res.update(kind="exc", exc=type(e).__name__, documented=True)
        except KeyboardInterrupt:
            res.update(kind="exc", exc="unbounded", documented=False)
        except BaseException as e:  # noqa: BLE001
            res.update(kind="exc", exc=type(e).__name__, documented=False)
        return None

    # ---- history
    if case["hist"] == "after_write":
        call, res, words = do("write", [job["other"]])
        set_values(fuses, [job["other"]])
        guarded(lambda: fuses.write_single(job["other"]), res)
        res["obj"] = snapshot(fuses, fm, words)
        record(call, res)
    elif case["hist"] == "after_read":
        call, res, words = do("read", [job["other"]])
        v = guarded(lambda: fuses.read_single(job["other"]), res)
        if v is not None:
            res.update(hasval=True, val=W(v))
        res["obj"] = snapshot(fuses, fm, words)
        record(call, res)
    elif case["hist"] == "after_read_all":
        _read_all(fuses, fm, do, guarded, record)

    # ---- the call under judgement
    opn, unit = case["op"], job["unit"]
    flt, mf, quiet = case["fault"], case["mf"], case["quiet"]
    if opn in ("write", "write_lock"):
        set_values(fuses, [unit])
        call, res, words = do("write", [unit], lock=opn == "write_lock", fault=flt, mf=mf, quiet=quiet)
        guarded(lambda: fuses.write_single(unit, lock=opn == "write_lock"), res)
        res["obj"] = snapshot(fuses, fm, words)
        record(call, res)
    elif opn == "write_cfg":
        res0 = {}
        guarded(lambda: fuses.load_config(cfg_of(fm, job, [unit])), res0)
        set_values(fuses, [unit] if unit in fm.groups else [])
        call, res, words = do("write", [unit], fault=flt, mf=mf, quiet=quiet)
        res.update(res0)
        if not res0:
            guarded(lambda: fuses.write_multiple([unit]), res)
        res["obj"] = snapshot(fuses, fm, words)
        record(call, res)
    elif opn == "read":
        call, res, words = do("read", [unit], fault=flt, mf=mf)
        v = guarded(lambda: fuses.read_single(unit), res)
        if v is not None and unit not in fm.groups:
            res.update(hasval=True, val=W(v))
        res["obj"] = snapshot(fuses, fm, words)
        record(call, res)
    elif opn == "read_all":
        _read_all(fuses, fm, do, guarded, record, fault=flt)
    elif opn in ("script", "cli_script"):
        _script(job, fm, fuses, otp, core, do, guarded, record, cli=opn == "cli_script")
    elif opn in ("cli_write", "cli_single", "cli_print"):
        _cli(job, fm, op, do, guarded, record)
    lay_ids = [u for u in fm.order if fm.words[u]["idx"] in touched or u in job["subs"] or u == job["other"]]
    if case["op"] == "read_all" or case["hist"] == "after_read_all":
        lay_ids = list(fm.order)
    lay = fm.lay(lay_ids)
    have = {x["idx"] for x in lay}
    dev0 = [{"idx": i, "val": W(v)} for i, v in sorted(job["dev0"].items())]
    return {"id": job["id"], "lay": lay, "dev0": dev0, "wl0": sorted(job["wl0"]), "ev": [norm(e) for e in evs], "job": job,
            "missing": sorted(touched - have)}


def _idx_of(a):
    """Indexes an access names (only to decide which map entries the trace must carry)."""
    try:
        if a["be"] == "blhost":
            return [((a["p"][0][0] & 0xFF) << 16) | a["p"][0][1]]
        cmd = a["p"][0][0] & 0xFF
        return [a["p"][1][1] // 32 if cmd == FT.ELE_WRITE_FUSE else a["p"][1][1]]
    except Exception:  # noqa: BLE001
        return []


def _read_all(fuses, fm, do, guarded, record, fault=0):
    units = [u for u in fm.order]
    call, res, words = do("read_all", units, fault=fault)
    guarded(fuses.read_all, res)
    res["obj"] = snapshot(fuses, fm, words)
    ctx = []
    for reg in fuses.fuse_context:
        for s in (reg.sub_regs if reg.has_group_registers() else [reg]):
            if s.otp_index is not None:
                ctx.append(int(s.otp_index))
    res["ctx"] = ctx
    record(call, res)


def ref_exec(fm, otp, core, writes):
    """The reference host: encodes each write in the grammar of the family's back end and hands it to the device (no SPSDK involved)."""
    for idx, val, lock, _verify in writes:
        if fm.tool == "blhost":
            rec = {"ev": "acc", "be": "blhost", "tag": 14, "p": [W(idx | (int(lock) << 24)), W(4), W(val)], "rn": 0}
        else:
            hdr = FT.ELE_VER | (3 << 8) | (FT.ELE_WRITE_FUSE << 16) | (FT.ELE_TAG_CMD << 24)
            rec = {"ev": "acc", "be": "nxpele", "tag": 25, "p": [W(hdr), W((idx * 32) | (32 << 16) | (int(lock) << 31)), W(val)], "rn": 3}
        otp.program(idx, val, lock)
        d = otp.log.pop()
        rec.update(st=d["st"], flt=d["flt"], ret=[0, 0], lost=False)
        core.wire.append(rec)


def _script(job, fm, fuses, otp, core, do, guarded, record, cli=False):
    from spsdk.fuses.fuses import Fuses

    unit = job["unit"]
    units = [unit] + ([job["other"]] if job["other"] else [])
    # what the API does with the same configuration on a device like this one
    api = _api_writes(job, units)
    call, res, words = do("script", units)
    text = {}

    def gen():
        if cli and unit not in fm.groups:
            text["t"] = _cli_script(job, fm, units)
        else:
            f2 = Fuses.load_from_config(cfg_of(fm, job, units))
            if unit in fm.groups:
                for s in fm.groups[unit]["subs"]:
                    f2.fuse_regs.find_reg(s, include_group_regs=True).set_value(job["values"][s])
                f2.fuse_context = [f2.fuse_regs.find_reg(unit, include_group_regs=True)] + [x for x in f2.fuse_context if x.uid != unit]
            text["t"] = f2.create_fuse_script()

    guarded(gen, res)
    if res["kind"] == "ret":
        try:
            writes = FT.read_script(text["t"], fm.tool)
            ref_exec(fm, otp, core, writes)
        except ValueError as e:
            res.update(kind="exc", exc="unreadable:" + str(e)[:60], documented=True)
    if api is not None:
        res.update(hasapi=True, api=api)
    record(call, res)


def _api_writes(job, units):
    """The accepted writes of load_config -> write_multiple on a fresh twin of the same device (for ScriptAsApi)."""
    c10 = FT.import_c10()
    from spsdk.fuses.fuses import Fuses

    fm, otp, twin, core, op = build_stack(job, c10)
    try:
        f = Fuses(job["family"], fuse_operator=op)
        f.load_config(cfg_of(fm, job, units))
        for u in units:
            if u in fm.groups:
                for s in fm.groups[u]["subs"]:
                    f.fuse_regs.find_reg(s, include_group_regs=True).set_value(job["values"][s])
        f.write_multiple(units)
    except Exception:  # noqa: BLE001
        return None
    return [{"idx": d["idx"], "val": d["val"], "lock": d["lock"]} for d in otp.log if d["k"] == "wr" and d["st"] == 0]


def _patched_cli(op_holder):
    import spsdk.apps.nxpfuses as app

    app.get_fuse_operator = lambda **kw: op_holder[0]
    return app


def _cli_script(job, fm, units):
    import yaml
    from click.testing import CliRunner

    app = _patched_cli([None])
    d = os.path.join(scratch(), f"cli-{os.getpid()}-{job['id']}")
    os.makedirs(d, exist_ok=True)
    cfg, out = os.path.join(d, "cfg.yaml"), os.path.join(d, "script.bcf")
    with open(cfg, "w") as f:
        yaml.safe_dump(cfg_of(fm, job, units), f)
    r = CliRunner().invoke(app.main, ["fuses-script", "-c", cfg, "-o", out], catch_exceptions=True)
    if r.exit_code != 0 or not os.path.exists(out):
        from spsdk.exceptions import SPSDKError

        raise SPSDKError(f"cli exit {r.exit_code}")
    with open(out) as f:
        return f.read()


def _cli(job, fm, op, do, guarded, record):
    import yaml
    from click.testing import CliRunner

    case, unit = job["case"], job["unit"]
    app = _patched_cli([op])
    d = os.path.join(scratch(), f"cli-{os.getpid()}-{job['id']}")
    os.makedirs(d, exist_ok=True)
    opn = case["op"]
    if unit in fm.groups and opn != "cli_print":
        opn = "cli_print"                        # a group cannot be configured word by word from the command line: read it instead
    if opn == "cli_write":
        cfg = os.path.join(d, "cfg.yaml")
        with open(cfg, "w") as f:
            yaml.safe_dump(cfg_of(fm, job, [unit]), f)
        args = ["write", "-c", cfg, "-y", "-p", "twin"]
        call, res, words = do("write", [unit], fault=case["fault"], quiet=case["quiet"])
    elif opn == "cli_single":
        name = r_name(job, fm, unit)
        args = ["write-single", "-f", job["family"], "-n", name, "-v", hex(job["values"][unit]), "-y", "-p", "twin"]
        call, res, words = do("write", [unit], fault=case["fault"], quiet=case["quiet"])
    else:
        args = ["print", "-f", job["family"], "-n", r_name(job, fm, unit), "-p", "twin"]
        call, res, words = do("read", [unit], fault=case["fault"])
    r = CliRunner().invoke(app.main, args, catch_exceptions=True)
    if r.exit_code != 0:
        from spsdk.apps.utils.utils import SPSDKAppError
        from spsdk.exceptions import SPSDKError

        exc = r.exception
        doc = isinstance(exc, (SPSDKError, SPSDKAppError, SystemExit)) or exc is None
        res.update(kind="exc", exc=type(exc).__name__ if exc is not None else f"exit{r.exit_code}", documented=bool(doc))
    elif opn == "cli_print" and unit not in fm.groups:
        import re

        m = re.search(r"Fuse value:\s+(?:0x)?([0-9a-fA-F]+)", r.output or "")
        if m:
            res.update(hasval=True, val=W(int(m.group(1), 16)))
    record(call, res)


def r_name(job, fm, unit):
    """The fuse named by name, uid or OTP index (all three are offered by the command line)."""
    r = rng("SYS", "fuses-name", job["id"])
    if unit in fm.groups:
        return r.choice([fm.groups[unit]["name"], unit])
    w = fm.words[unit]
    return r.choice([w["name"], unit, str(w["idx"]), hex(w["idx"])])


def norm(e):
    if e["ev"] == "call":
        return {"ev": "call", "op": e["op"], "be": e["be"], "tgt": e["tgt"], "quiet": bool(e["quiet"]), "fault": bool(e["fault"]), "freeorder": bool(e["freeorder"]),
                "grouped": e.get("grouped", [])}
    if e["ev"] in ("wire", "acc"):
        return {"ev": "acc", "be": e["be"], "tag": int(e["tag"]), "p": e["p"], "rn": int(e.get("rn", 0)), "st": int(e.get("st", 0)), "flt": bool(e.get("flt", False)),
                "ret": e.get("ret", [0, 0]), "lost": bool(e.get("lost", False))}
    return {"ev": "result", "kind": e["kind"], "documented": bool(e["documented"]), "exc": str(e.get("exc", "none"))[:80], "hasval": bool(e["hasval"]), "val": e["val"],
            "obj": e["obj"], "ctx": e["ctx"], "hasapi": bool(e["hasapi"]), "api": e["api"]}


# ------------------------------------------------------------------------------------------------ FuseScript: the per-feature fuse scripts of the database
def fusescript_jobs(families):
    """Every (family, feature, index) whose database entry lists fuses to burn (OTFAD / IEE / XMCD / AHAB ... `fuses`, `fuses_<n>`)."""
    from spsdk.utils.database import get_db

    jobs = []
    for fam in families:
        if fam in SKIPPED:
            continue
        db = get_db(fam)
        for feat in sorted(db.features):
            if feat == "fuses":
                continue
            for key, index in [("fuses", None)] + [(f"fuses_{i}", i) for i in range(4)]:
                try:
                    d = db.get_dict(feat, key)
                except Exception:  # noqa: BLE001
                    continue
                if isinstance(d, dict) and d:
                    jobs.append({"id": f"s{len(jobs)}", "family": fam, "feature": feat, "index": index, "entry": d, "transport": "hid", "dev0": {}, "wl0": [],
                                 "case": {"op": "fusescript", "feature": feat, "kind": {"iwl": "none", "lk": "no", "grp": False, "acc": "RW"}, "pre": "blank", "fault": 0, "mf": 0,
                                          "quiet": False, "hist": "fresh"}, "unit": f"{feat}/{key}"})
    return jobs


def _bits_of(bid):
    import re

    m = re.search(r"-bit-(\d+)$", bid)
    if m:
        return int(m.group(1)), 1
    m = re.search(r"-bits-(\d+)-(\d+)$", bid)
    if m:
        lo, hi = sorted((int(m.group(1)), int(m.group(2))))
        return lo, hi - lo + 1
    return None


def run_fusescript(job):
    try:
        return _run_fusescript(job)
    except BaseException as e:  # noqa: BLE001
        return {"id": job["id"], "error": f"{type(e).__name__}: {e}\n{traceback.format_exc()[-1500:]}", "job": job}


def _run_fusescript(job):
    """Reference: the database entry says which fuse gets which value (a number, bit fields named by their bit range, `__attr` = attribute of the object);
    every word is written once, at its OTP index, with the lock flag an always-locked word needs.  Values of GROUP words are not recomputed (C11)."""
    import types

    from spsdk.exceptions import SPSDKError
    from spsdk.fuses.fuses import FuseScript

    fm = fmap(job["family"])
    r = rng("SYS", "fusescript", job["family"], job["feature"], job["index"])
    attrs, exp, free, iwls = {}, [], set(), set()

    def attr(name, width):
        name = name[2:]
        if name not in attrs:
            attrs[name] = r.getrandbits(width) | 1
        return attrs[name]

    for key, val in job["entry"].items():
        if key.startswith("_"):
            continue
        if key in fm.groups:
            g = fm.groups[key]
            if isinstance(val, str):
                attrs.setdefault(val[2:], bytes(r.getrandbits(8) | 1 for _ in range(4 * len(g["subs"]))))
            for s_ in g["subs"]:
                free.add(fm.words[s_]["idx"])
                exp.append((s_, None))
            continue
        if key not in fm.words:
            exp.append((key, "unknown"))
            continue
        w = fm.words[key]
        if isinstance(val, bool) or isinstance(val, int):
            exp.append((key, int(val)))
        elif isinstance(val, str):
            exp.append((key, attr(val, w["width"])))
        elif isinstance(val, dict):
            v, known = 0, True
            for bid, bv in val.items():
                rng_ = _bits_of(bid)
                if rng_ is None:
                    known = False
                    continue
                lo, n = rng_
                x = int(bv) if isinstance(bv, (bool, int)) else attr(bv, n)
                v |= (x & ((1 << n) - 1)) << lo
            exp.append((key, v if known else None))
            if not known:
                free.add(w["idx"])
    c10 = FT.import_c10()
    otp = FT.Otp(fm.lay(fm.order), {}, [])

    class Core:
        wire = []

    core = Core()
    core.wire = []
    res = {"ev": "result", "kind": "ret", "documented": True, "exc": "none", "hasval": False, "val": [0, 0], "obj": [], "ctx": [], "hasapi": False, "api": []}
    writes = []
    try:
        text = FuseScript(job["family"], "latest", job["feature"], job["index"]).generate_script(types.SimpleNamespace(**attrs))
        writes = FT.read_script(text, fm.tool)
        ref_exec(fm, otp, core, writes)
    except SPSDKError as e:
        res.update(kind="exc", exc=type(e).__name__)
    except ValueError as e:
        res.update(kind="exc", exc="unreadable:" + str(e)[:60])
    except Exception as e:  # noqa: BLE001
        res.update(kind="exc", exc=type(e).__name__, documented=False)
    by_idx = {w_[0]: w_[1] for w_ in writes}
    tgt = []
    for uid, v in exp:
        if v == "unknown":
            tgt.append({"idx": 0xFFFFFF, "val": [0, 0], "lock": False})      # the entry names a fuse the map does not have
            continue
        w = fm.words[uid]
        iwls.add(w["iwl"])
        if v is None:
            v = by_idx.get(w["idx"], 0)                                      # not recomputed: group words / bit fields whose range the id does not tell
        tgt.append({"idx": w["idx"], "val": W(v), "lock": policy_lock(w, False)})
    call = {"ev": "call", "op": "script", "be": fm.tool, "tgt": tgt, "quiet": False, "fault": False, "freeorder": True, "grouped": []}
    job["case"]["kind"]["iwl"] = "+".join(sorted(iwls))
    lay_ids = [u for u in fm.order if fm.words[u]["idx"] in {t["idx"] for t in tgt} | set(by_idx)]
    return {"id": job["id"], "lay": fm.lay(lay_ids), "dev0": [], "wl0": [], "ev": [norm(e) for e in [call] + core.wire + [res]], "job": job, "missing": []}



# ------------------------------------------------------------------------------------------------ canary: reference host, no SPSDK
def canary():
    lay = [{"idx": 0, "lk": 0, "wm": W(0x1000), "rm": W(0x4000), "iwl": "none", "acc": "RW"},
           {"idx": 5, "lk": 0, "wm": W(0x1), "rm": W(0x4), "iwl": "none", "acc": "RW"},
           {"idx": 6, "lk": -1, "wm": W(0), "rm": W(0), "iwl": "always_lock", "acc": "RW"},
           {"idx": 7, "lk": -1, "wm": W(0), "rm": W(0), "iwl": "implicit", "acc": "RW"}]

    class M:
        tool = "blhost"

    def trace(tid, tool, dev0, steps):
        otp = FT.Otp(lay, dict(dev0))
        m = M()
        m.tool = tool

        class Core:
            wire = []

        core = Core()
        evs = []
        for kind, words, outcome in steps:
            core.wire = []
            if kind == "write":
                call = {"ev": "call", "op": "write", "be": tool, "tgt": [{"idx": i, "val": W(v), "lock": lk} for i, v, lk in words], "quiet": False, "fault": False,
                        "freeorder": False}
                if outcome == "ret":
                    ref_exec(m, otp, core, [(i, v, lk, False) for i, v, lk in words])
                res = {"ev": "result", "kind": outcome, "documented": True, "exc": "none", "hasval": False, "val": [0, 0],
                       "obj": [{"idx": i, "val": W(v)} for i, v, lk in words], "ctx": [], "hasapi": False, "api": []}
            else:
                i = words[0][0]
                call = {"ev": "call", "op": "read", "be": tool, "tgt": [{"idx": i, "val": [0, 0], "lock": False}], "quiet": False, "fault": False, "freeorder": False}
                ok, v = otp.read(i)
                d = otp.log.pop()
                if tool == "blhost":
                    rec = {"ev": "acc", "be": "blhost", "tag": 15, "p": [W(i), W(4)], "rn": 0}
                else:
                    rec = {"ev": "acc", "be": "nxpele", "tag": 25, "p": [W(FT.ELE_VER | (2 << 8) | (FT.ELE_READ_COMMON_FUSE << 16) | (FT.ELE_TAG_CMD << 24)), W(i)], "rn": 3}
                rec.update(st=d["st"], flt=False, ret=W(v), lost=False)
                core.wire.append(rec)
                res = {"ev": "result", "kind": "ret" if ok else "exc", "documented": True, "exc": "none", "hasval": ok, "val": W(v), "obj": [{"idx": i, "val": W(v)}] if ok else [],
                       "ctx": [], "hasapi": False, "api": []}
            evs += [call] + core.wire + [res]
        return {"id": tid, "lay": lay, "dev0": [{"idx": i, "val": W(v)} for i, v in sorted(dev0.items())], "wl0": [], "ev": [norm(e) for e in evs]}

    good = [trace("g-bl", "blhost", {5: 0x10}, [("write", [(5, 0x5, False)], "ret"), ("read", [(5,)], None), ("write", [(6, 0x80000001, True)], "ret"),
                                                  ("write", [(0, 0x1, False)], "ret"), ("write", [(5, 0x2, False)], "exc"), ("read", [(5,)], None)]),
            trace("g-ele", "nxpele", {}, [("write", [(7, 0xA5A5A5A5, False)], "ret"), ("read", [(7,)], None), ("write", [(7, 0x1, False)], "exc"),
                                           ("write", [(0, 0x4, False)], "ret"), ("read", [(5,)], None)])]
    # golden artefacts (anchors/SYS/fuses): the fuse map of the test data and the two script lines the tests pin down
    adir = os.path.join(ROOT, "anchors", "SYS", "fuses")
    with open(os.path.join(adir, "golden_script_lines.json")) as f:
        gold = json.load(f)
    with open(os.path.join(adir, "test_fuses.json")) as f:
        spec = json.load(f)
    regs = {r["id"]: r for g in spec["groups"] for r in g["registers"]}
    glay = []
    for r in regs.values():
        lk = r.get("lock")
        glay.append({"idx": FT.vint(r["index_int"]), "lk": FT.vint(regs[lk["register_id"]]["index_int"]) if lk else -1, "wm": W(FT.vint(lk["write_lock_int"])) if lk else [0, 0],
                     "rm": W(FT.vint(lk["read_lock_int"])) if lk else [0, 0], "iwl": r.get("individual_write_lock", "none"), "acc": r.get("access", "RW")})
    for tool in ("blhost", "nxpele"):
        g = gold[tool]
        got = FT.read_script("# comment\n\n" + g["line"] + "\n", tool)
        if [x[:3] for x in got] != [(g["index"], g["value"], g["lock"])]:
            raise Machinery(f"reference script reader: golden {tool} line read as {got}")
        otp = FT.Otp(glay, {})
        m = M()
        m.tool = tool

        class Core2:
            wire = []

        core = Core2()
        core.wire = []
        ref_exec(m, otp, core, got)
        # the fuse is 'always_lock' in the test map: the golden line carries no lock flag - the reference contract wants one (ScriptLock), so the
        # canary states the target as the line has it; what the generator SHOULD emit for such a fuse is judged in the lane, not here
        call = {"ev": "call", "op": "script", "be": tool, "tgt": [{"idx": g["index"], "val": W(g["value"]), "lock": g["lock"]}], "quiet": False, "fault": False, "freeorder": False}
        res = {"ev": "result", "kind": "ret", "documented": True, "exc": "none", "hasval": False, "val": [0, 0], "obj": [], "ctx": [], "hasapi": True,
               "api": [{"idx": g["index"], "val": W(g["value"]), "lock": g["lock"]}]}
        good.append({"id": f"g-script-{tool}", "lay": glay, "dev0": [], "wl0": [], "ev": [norm(e) for e in [call] + core.wire + [res]]})
    bad = []

    def mut(name, base, fn):
        t = copy.deepcopy(base)
        t["id"] = name
        fn(t)
        bad.append(t)

    mut("b-value", good[0], lambda t: t["ev"][1]["p"].__setitem__(2, W(0x4)))                      # another value reached the device
    mut("b-index", good[0], lambda t: t["ev"][1]["p"].__setitem__(0, W(6)))                        # another word
    mut("b-lockflag", good[0], lambda t: t["ev"][1]["p"].__setitem__(0, W(5 | (1 << 24))))         # lock flag nobody asked for
    mut("b-readval", good[0], lambda t: t["ev"][5].__setitem__("val", W(0x14)))                    # the API returns another value than the device holds
    mut("b-status", good[0], lambda t: t["ev"][1].__setitem__("st", 10101))                        # device said no where the reference device says yes
    mut("b-falseok", good[0], lambda t: t["ev"][13].__setitem__("kind", "ret"))                    # a refused write reported as done
    mut("b-ele-pos", good[1], lambda t: t["ev"][1]["p"].__setitem__(1, W((7 * 32 + 1) | (32 << 16))))   # bit position inside a word
    mut("b-ele-cmd", good[1], lambda t: t["ev"][4]["p"].__setitem__(0, W(FT.ELE_VER | (2 << 8) | (0x96 << 16) | (FT.ELE_TAG_CMD << 24))))
    mut("b-clear", good[0], lambda t: t["ev"][4].__setitem__("ret", W(0x5)))                       # a device that stored instead of OR-ing (0x10 | 0x5 = 0x15)
    mut("b-script-val", good[2], lambda t: t["ev"][0]["tgt"][0].__setitem__("val", W(0xB)))       # the script burns another value than configured
    mut("b-script-api", good[3], lambda t: t["ev"][2]["api"][0].__setitem__("lock", True))        # the API would have locked, the script does not
    rej, obs, _ = validate(good + bad)
    flagged = set(rej) | {o[0] for o in obs}
    if flagged != {t["id"] for t in bad}:
        raise Machinery(f"fuse canary failed: flagged {sorted(flagged)}, expected exactly {sorted(t['id'] for t in bad)}; rej={rej} obs={obs[:12]}")
    return {"good": len(good), "bad": len(bad), "flagged": sorted(flagged)}


def validate(traces, heap="3g"):
    rej, r = tlc.tv("SYS", "FusesTrace", [{k: t[k] for k in ("id", "lay", "dev0", "wl0", "ev")} for t in traces], heap=heap)
    check_complete(r, len(traces))
    obs = [tuple(v) for v in r.tuples("OBS")]
    return rej, obs, r


# ------------------------------------------------------------------------------------------------ the lane
def gen_cases():
    g = tlc.run("SYS", "FusesGen", "FusesGen.cfg", workers=2, deadlock=False, heap="2g")
    cases = g.json_prints()
    if len(cases) != g.distinct or not cases:
        raise Machinery(f"FusesGen: {len(cases)} cases printed, {g.distinct} states")
    return sorted(cases, key=lambda c: json.dumps(c, sort_keys=True)), g


def pick_jobs(cases, tier):
    from spsdk.fuses.fuses import Fuses

    fams = sorted(Fuses.get_supported_families())
    kinds = index_kinds(fams)
    r = rng("SYS", "fuses-jobs")
    budget = 500 if tier == "quick" else 2400
    # every (op, kind that exists, pre) class is represented before random filling; cases whose kind no family has are counted, not run
    bound, unbound = [], 0
    ele_kinds = {k for k, v in kinds.items() if any(fmap(f).tool == "nxpele" for f, _ in v)}
    for c in cases:
        k = json.dumps(c["kind"], sort_keys=True)
        # an error answered to ONE McuBoot command differs from a failing access only where several commands make one access: the ELE route
        if k in kinds and (c["mf"] == 0 or k in ele_kinds):
            bound.append(c)
        else:
            unbound += 1
    r.shuffle(bound)
    seen, first, rest = set(), [], []
    for c in bound:
        cls = (c["op"], json.dumps(c["kind"], sort_keys=True), c["pre"], c["fault"] > 0, c["mf"], c["hist"] if c["mf"] else "", c["quiet"])
        (first if cls not in seen else rest).append(c)
        seen.add(cls)
    # routes through a configuration cost about a second each (schema validation), direct calls a few hundredths: a quota for each of the dear ones
    quota = {"write_cfg": 22, "cli_write": 18, "script": 22, "cli_script": 8} if tier == "quick" else {"write_cfg": 200, "cli_write": 150, "script": 200, "cli_script": 70}
    chosen = []
    first.sort(key=lambda c: c["mf"] == 0)            # (stable) the McuBoot-error classes are few and all of them are run
    for c in first + rest:
        if len(chosen) >= budget:
            break
        if c["op"] in quota:
            if quota[c["op"]] <= 0:
                continue
            quota[c["op"]] -= 1
        chosen.append(c)
    jobs = []
    for n, c in enumerate(chosen):
        rr = rng("SYS", "fuses-job", json.dumps(c, sort_keys=True))
        cand = kinds[json.dumps(c["kind"], sort_keys=True)]
        if c["mf"] > 0:                            # McuBoot-level faults only matter where several McuBoot commands make one access: the ELE route
            ele = [x for x in cand if fmap(x[0]).tool == "nxpele"]
            cand = ele or cand
        if c["op"] in ("read_all",) or c["hist"] == "after_read_all":
            small = [x for x in cand if len(fmap(x[0]).order) <= 80]
            cand = small or cand
        for _ in range(6):                         # a fuse of the kind that also admits the pre-state / history of the case
            fam, uid = rr.choice(cand)
            j = make_job(f"f{n}", c, fam, uid, rr)
            if j:
                jobs.append(j)
                break
    return jobs, {"cases": len(cases), "bound": len(bound), "kinds_without_fuse": unbound, "classes": len(seen), "families": len(fams),
                  "families_skipped": list(SKIPPED)}


CLAUSE_TEXT = {
    "WriteValue": "a value other than the configured one reached the device", "WriteIndex": "words other than the configured ones were programmed",
    "WriteLock": "lock flag differs from what the fuse map / caller asks for", "WriteCount": "number of accepted programs differs from the configuration",
    "WriteOrder": "order of programs differs", "Burnt": "reported done, the device does not hold the configured bits",
    "NoSwallowedRefusal": "a refused / failed access was swallowed, the call reports success", "Mirror": "nothing stands in the way, the call fails",
    "RefusedUnchanged": "the call failed but the device was programmed (or everything was)",
    "FailedOnlyConfigured": "the call failed after a fault; what reached the device before is not what was configured", "ObjectKeepsConfigured": "the object lost the configured value",
    "Documented": "undocumented exception", "Grammar": "a command outside the grammar of the back end was sent",
    "NoAttemptOnKnownLock": "a program was sent to a word the lock fuse - as just read - write-protects", "ReadValue": "returned value differs from the device", "ReadObject": "object value differs from the device after reading",
    "ReadFalseSuccess": "read reported done without the device having answered", "ReadWritesNothing": "a read programmed the device",
    "ContextOnlyRead": "context lists fuses that were not read", "ContextComplete": "context misses fuses that were read",
    "ScriptReadable": "script generation failed / a line is no command of the tool", "ScriptValue": "script burns another value than configured",
    "ScriptIndex": "script burns other words than configured", "ScriptLock": "script lock flag differs from what the fuse map asks for",
    "ScriptCount": "script has another number of writes", "ScriptOrder": "script order differs", "ScriptAsApi": "script and API perform different writes for the same configuration",
}


def key_of(t, step, clause):
    """Witness-derived key: clause / route / what the fuse map says about the word / what the scenario put in the way (only where it bears on the clause)."""
    c = t["job"]["case"]
    res = t["ev"][step - 1]
    judged = step == len(t["ev"])
    if c["op"] == "fusescript":
        return f"{clause}/fusescript/{c['feature']}/iwl={c['kind']['iwl']}"
    if not judged:
        return f"{clause}/history:{c['hist']}/plain-word"
    route = "script" if c["op"] in ("script", "cli_script") else "cli" if c["op"].startswith("cli_") else "api"
    if c["op"] == "read_all":
        return f"{clause}/api-read_all/" + ("device-error" if c["fault"] else "plain" if c["pre"] == "blank" else "pre=" + c["pre"])
    k = c["kind"]
    kind = f"iwl={k['iwl']}" + (",group" if k["grp"] else "") + ("" if k["acc"] == "RW" else f",acc={k['acc']}")
    scen = "quiet-rom" if c["quiet"] else f"mboot-error-at-{c['mf']}" if c["mf"] else "device-error" if c["fault"] else "plain" if c["pre"] == "blank" else "pre=" + c["pre"]
    be = t["ev"][0]["be"]
    if clause == "Grammar" and not c["mf"]:
        return f"{clause}/{route}/{be}"
    if clause in ("WriteValue", "ObjectKeepsConfigured", "WriteLock") or clause.startswith("Script"):
        return f"{clause}/{route}/{kind}"
    if c["quiet"] or c["mf"]:
        return f"{clause}/{route}/{be}/{scen}" + (",after-a-write" if c["mf"] and c["hist"] == "after_write" else "")
    extra = ":" + res["exc"] if clause == "Documented" else ""
    return f"{clause}/{route}/{kind}/{scen},lockfuse={k['lk']}{extra}"


ACTIONS = ["StartWrite", "StartRead", "ChkLockNone", "ChkLockRead", "ChkOwnSkip", "ChkOwnRead", "Prog", "DoRead"]
# (configuration, what TLC must report as violated (None = everything holds), actions that must have fired)
MC_CONFIGS = [
    ("FusesMC_ideal.cfg", None, ACTIONS), ("FusesMC_ideal_always.cfg", None, ACTIONS), ("FusesMC_ideal_user.cfg", None, [a for a in ACTIONS if a != "ChkOwnRead"]),
    ("FusesMC_quiet_verify.cfg", None, [a for a in ACTIONS if a != "ChkOwnRead"] + ["VerifyRead"]),
    ("FusesMC_built.cfg", "NoFalseSuccess", ()),            # the host as built: the pre-check read replaces the value to be burnt (prediction, confirmed on the real code)
    ("FusesMC_built_obj.cfg", "ObjectKeepsConfigured", ()),
    ("FusesMC_nostatus.cfg", "NoFalseSuccess", ()),         # deliberately wrong design: the status of the program is ignored
    ("FusesMC_store.cfg", "D!Monotone", ()),                  # deliberately wrong device: stores instead of OR-ing
    ("FusesMC_quiet.cfg", "NoFalseSuccess", ()),            # a ROM that does not report the refusal + a host that does not verify
    ("FusesMC_reach_done.cfg", "NeverDone", ()), ("FusesMC_reach_refused.cfg", "NeverRefused", ()),
]


QUICK_MC = ("FusesMC_ideal.cfg", "FusesMC_ideal_always.cfg", "FusesMC_built.cfg", "FusesMC_nostatus.cfg", "FusesMC_store.cfg", "FusesMC_quiet.cfg")


def model_check(tier="quick"):
    """quick: one call per behaviour, one failing access; thorough (_t.cfg): two calls (histories on one object / one device), two failing accesses."""
    from lib.ptv import prun

    sfx = "_t.cfg" if tier == "thorough" else ".cfg"
    todo = [x for x in MC_CONFIGS if tier == "thorough" or x[0] in QUICK_MC]
    res = prun([("run", ("SYS", "FusesMC", cfg.replace(".cfg", sfx)), dict(workers=1, deadlock=False, coverage=True, heap="1g", timeout=900)) for cfg, _, _ in todo], procs=6)
    out = {}
    for (cfg, want, req), g in zip(todo, res):
        viol = g.violated
        if viol is None and "is violated" in g.out:          # an action property (PROPERTY Monotone) is reported in other words
            viol = "Monotone" if "Monotone" in g.out else "<property>"
        out[cfg] = {"violated": viol, "distinct": g.distinct, "generated": g.generated}
        if viol != want:
            raise Machinery(f"FusesMC {cfg}: violated={viol}, expected {want}\n" + "\n".join(g.out.splitlines()[-30:]))
        if want is None:
            if not g.no_error:
                raise Machinery(f"FusesMC {cfg}: did not complete\n" + "\n".join(g.out.splitlines()[-30:]))
            vac = [a for a in req if g.coverage.get(a, (0, 0))[1] == 0]
            if vac:
                raise Machinery(f"FusesMC {cfg}: actions never fired: {vac}")
    return out


def run(tier):
    from lib.common import Timer

    import_spsdk()
    tm, ph = Timer(), {}
    can = canary()
    ph["canary"] = tm.s()
    say(f"[SYS/fuses] canary: {can['good']} reference traces accepted, {can['bad']} corrupted ones flagged")
    mc = model_check(tier)
    if mc:
        say(f"[SYS/fuses] design model: {mc}")
    ph["mc"] = tm.s()
    cases, g = gen_cases()
    ph["gen"] = tm.s()
    jobs, stats = pick_jobs(cases, tier)
    ph["pick"] = tm.s()
    traces = pmap(run_one, jobs, chunksize=4)
    ph["exec"] = tm.s()
    from spsdk.fuses.fuses import Fuses as _F

    sjobs = fusescript_jobs(sorted(_F.get_supported_families()))
    straces = pmap(run_fusescript, sjobs, chunksize=4)
    stats["fusescript_entries"] = len(sjobs)
    traces = traces + straces
    ph["fusescript"] = tm.s()
    errs = [t for t in traces if "error" in t]
    if errs:
        raise Machinery(f"{len(errs)} executions failed in the harness itself, e.g. {errs[0]['error']}")
    # (a word the fuse map does not know is an unprotected word for twin and reference alike: WriteIndex / ReadFalseSuccess speak about it)
    rej, obs, r = validate(traces, heap="4g")
    ph["tv"] = tm.s()
    cpu = {}
    for t in traces:
        if "cpu" not in t:
            continue
        k = t["job"]["case"]["op"] + ("+" + t["job"]["case"]["hist"] if t["job"]["case"]["hist"] == "after_read_all" else "")
        cpu[k] = (cpu.get(k, (0, 0))[0] + 1, round(cpu.get(k, (0, 0))[1] + t.get("cpu", 0), 1))
    say(f"[SYS/fuses] phases (s, cumulative): {ph}; cpu of the executions by operation (n, s): {cpu}")
    by = {t["id"]: t for t in traces}
    classes = {}
    for tid, (matched, length, evname) in rej.items():
        classes.setdefault(f"twin-disagrees-with-reference-device/{evname}", []).append((by[tid], matched + 1))
    for tid, step, clause in obs:
        classes.setdefault(key_of(by[tid], step, clause), []).append((by[tid], step))
    out = {"canary": can, "design_model": mc, "gen": dict(stats, distinct=g.distinct), "executions": len(traces), "events": sum(len(t["ev"]) for t in traces),
           "tv": {"distinct": r.distinct, "generated": r.generated}, "rejected": len(rej), "noted": len(obs),
           "classes": {k: {"count": len(v), "text": CLAUSE_TEXT.get(k.split("/")[0], ""), "example": brief(v[0][0], v[0][1])} for k, v in sorted(classes.items())}}
    os.makedirs(os.path.join(ROOT, "evidence", "extras"), exist_ok=True)
    with open(os.path.join(ROOT, "evidence", "extras", "sys_fuses.json"), "w") as f:
        json.dump(out, f, indent=1)
    with open(os.path.join(ROOT, "evidence", "extras", "fuses.json"), "w") as f:
        json.dump(out, f, indent=1)
    for k, v in sorted(classes.items()):
        say(f"OBSERVATION: {LANE} {k} ({len(v)}x, {CLAUSE_TEXT.get(k.split('/')[0], '')}; e.g. {json.dumps(brief(v[0][0], v[0][1]))[:260]})")
    if any(k.startswith("twin-disagrees") for k in classes):
        raise Machinery("the device twin and the reference device of FusesTrace.tla disagree")
    say(f"[SYS/fuses] tier={tier} cases={stats['cases']} (bound {stats['bound']}) executions={len(traces)} events={out['events']} tlc-states={r.distinct} "
        f"noted={len(obs)} classes={len(classes)} (observations only - not a listed property)")
    return 0


def brief(t, step):
    j = t["job"]
    call = next(e for e in reversed(t["ev"][:step]) if e["ev"] == "call")
    accs = []
    for e in t["ev"][:step][::-1]:
        if e["ev"] == "call":
            break
        if e["ev"] == "acc":
            accs.insert(0, [e["tag"], e["p"], e["st"]])
    return {"family": j["family"], "fuse": j["unit"], "case": j["case"], "tgt": call["tgt"], "acc": accs[:6], "result": {k: t["ev"][step - 1][k] for k in ("kind", "exc", "val")}}


def replay(path):
    return run("quick")
