"""C17 executor: runs ONE interpreter segment of a construction history on the real SPSDK and reports the secrets.

Started as a fresh interpreter by harness/c17.py (`python c17_child.py < job.json > result.json`).  Nothing of spsdk is
imported before `spsdk.crypto.rng.token_bytes` (the module-level name random_bytes() calls) has been wrapped, so draws
made while modules are imported are seen.  The draw log only EXPLAINS observations (drawn at import / at construction /
at export / not drawn at all); the verdict is made by TLC on the id-canonicalised values.

Secrets are read (a) from public attributes right after construction and (b) from the exported bytes with an
independent reader (struct offsets of the documented formats + `cryptography` primitives called directly: RFC 3394
unwrap, AES-ECB, AES-CBC) - never through spsdk.crypto.  SB2.1 files built from a command file with keywrap statements are walked by
harness/c04_rom.py (independent SB2 boot-ROM executor); the load commands at the key-blob table addresses are unwrapped by
harness/c13_hw.py otfad_load_table (independent OTFAD key-blob loader), which yields the filler word of every wrapped key blob.

Also run by runpy inside a process forked from a harness process that has pre-imported third-party modules but nothing of spsdk.
job    = {"repo": path, "dir": workdir, "keys": keydir, "hab": habdir, "user": {field: hex}, "fake_rng": ""|"const"|"cycle:N"|"const4",
          "steps": [{"op":"Construct","art":n,"kind":K,"how":H,"ex":[fields],"opt":[names],"part":p,"parts":P} | {"op":"Export","art":n}
                    (opt = the option combination of the entry point, Fresh!Opts; a build that emits P > 1 artefacts is P consecutive Construct
                     steps: part 1 runs the entry point, the further parts only look at the artefacts it returned)
                    | {"op":"Reconfigure","art":n,"of":m,"kind":K,"how":"config","ex":[fields]}   (the OBJECT of artefact m is configured again)]}
result = {"import_draws":[n,...], "steps":[{"op":..,"art":n,"fields":{name: hex}, "ctr":[keyhex,noncehex]|[], "seen":[names] (Export: the options as the
          exported bytes show them, Fresh!Seen), "draws":[[phase,n,hex]..]} | {"op":..,"error":..}]}
"""
import json
import os
import struct
import sys

job = json.load(sys.stdin)
os.makedirs(job["dir"], exist_ok=True)
os.chdir(job["dir"])

import logging  # noqa: E402

logging.disable(logging.CRITICAL)

import spsdk  # noqa: E402

if not os.path.realpath(spsdk.__file__).startswith(os.path.realpath(job["repo"]) + os.sep):
    print(json.dumps({"fatal": f"wrong spsdk imported: {spsdk.__file__}"}))
    sys.exit(3)

import spsdk.crypto.rng as _rng  # noqa: E402

DRAWS = []
PHASE = ["import"]
_real_token_bytes = _rng.token_bytes
_fake = job.get("fake_rng") or ""
_fake_n = [0]


def _traced(n):
    if _fake == "const" or (_fake[:5] == "const" and _fake[5:].isdigit() and n == int(_fake[5:])):  # end-to-end canary only: a broken generator must be noticed by the whole chain
        v = bytes((0x25 + i) & 0x7F for i in range(n)) if _fake == "const16" else bytes((0xA5 + i) & 0xFF for i in range(n))  # ("const4" / "const16": only the requests of that size are answered with a constant)
    elif _fake.startswith("cycle:"):
        period = int(_fake.split(":")[1])
        k = _fake_n[0] % period
        _fake_n[0] += 1
        v = bytes((k * 131 + i * 7 + 1) & 0xFF for i in range(n))
    else:
        v = _real_token_bytes(n)
    DRAWS.append((PHASE[0], n, bytes(v).hex()))
    return v


_rng.token_bytes = _traced

KEYS = job["keys"]
HAB = job.get("hab", "")
USER = {k: bytes.fromhex(v) for k, v in job["user"].items()}
KINDS = {s["kind"] for s in job["steps"] if s["op"] == "Construct"}
HOWS = {(s["kind"], s["how"]) for s in job["steps"] if s["op"] == "Construct"}

# ---- imports of the SPSDK modules under observation (draws made here are "import" draws)
if KINDS & {"SB20", "SB21", "SB21KW"}:
    from spsdk.sbfile.sb2.commands import CmdErase, CmdLoad, CmdReset
    from spsdk.sbfile.sb2.images import BootImageV20, BootImageV21, SBV2xAdvancedParams
    from spsdk.sbfile.sb2.sections import BootSectionV2
    from spsdk.crypto.certificate import Certificate
    from spsdk.crypto.signature_provider import get_signature_provider
    from spsdk.utils.crypto.cert_blocks import CertBlockV1
if ("SB21", "cli") in HOWS:  # the command line application itself (imported like every other module under observation: its draws are import draws)
    from click.testing import CliRunner
    from spsdk.apps.nxpimage import main as nxpimage_main
if "MBI" in KINDS:
    from spsdk.image.mbi.mbi import create_mbi_class, get_mbi_class
    from spsdk.crypto.signature_provider import get_signature_provider  # noqa: F811
    from spsdk.utils.crypto.cert_blocks import CertBlockV1  # noqa: F811
    from spsdk.image.trustzone import TrustZone
if "OTFAD" in KINDS:
    from spsdk.utils.crypto.otfad import KeyBlob
if "IEE" in KINDS or "IEECTR" in KINDS:
    from spsdk.utils.crypto.iee import (
        IeeKeyBlob,
        IeeKeyBlobAttribute,
        IeeKeyBlobKeyAttributes,
        IeeKeyBlobLockAttributes,
        IeeKeyBlobModeAttributes,
    )
if "BEE" in KINDS:
    from spsdk.image.bee import BeeFacRegion, BeeKIB, BeeNxp, BeeProtectRegionBlock, BeeRegionHeader
if "HAB" in KINDS:
    from spsdk.image.hab.hab_container import HabContainer
if "HABRT" in KINDS:
    from spsdk.image.images import BootImgRT
if "HEX" in KINDS:
    from spsdk.utils.misc import load_hex_string

from cryptography.hazmat.primitives.ciphers import Cipher, algorithms, modes  # noqa: E402
from cryptography.hazmat.primitives.keywrap import aes_key_unwrap  # noqa: E402

if "SB21KW" in KINDS:  # independent of spsdk: the SB2 boot-ROM executor of C04 and the OTFAD key-blob loader of the C13 hardware model
    import c04_rom  # noqa: E402
    import c13_hw  # noqa: E402

PHASE[0] = "run"
IMPORT_DRAWS = [d[1] for d in DRAWS]

KEK = bytes.fromhex(open(os.path.join(KEYS, "SBkek_PUF.txt")).read().strip())
PRIV = os.path.join(KEYS, "k0_cert0_2048.pem")
ROOTS = [os.path.join(KEYS, f"root_k{i}_signed_cert0_noca.der.cert") for i in range(4)]


def app_binary(n):
    """A small deterministic Cortex-M style image (vector table + filler); the content is irrelevant for C17."""
    body = bytearray((i * 37 + n) & 0xFF for i in range(0x400))
    struct.pack_into("<II", body, 0, 0x20008000, 0x000002C1)
    return bytes(body)


def ecb_dec(key, data):
    d = Cipher(algorithms.AES(key), modes.ECB()).decryptor()
    return d.update(data) + d.finalize()


def cbc_dec(key, iv, data):
    d = Cipher(algorithms.AES(key), modes.CBC(iv)).decryptor()
    return d.update(data) + d.finalize()


# ---------------------------------------------------------------------------------------------- SB2.0 / SB2.1
def _sb_section(n):
    return BootSectionV2(0, CmdErase(address=0, length=0x1000), CmdLoad(address=0x100, data=app_binary(n)[:64]), CmdReset())


def _adv(ex, opt=()):
    """Advanced parameters: the fields the user supplies; option "ts": a given time stamp (an object that says nothing about the secrets)."""
    kw = {}
    for f in ("dek", "mac", "nonce"):
        if f in ex:
            kw[f] = USER[f"sb_{f}"]
    if "ts" in opt:
        from datetime import datetime

        kw["timestamp"] = datetime(2024, 2, 29, 12, 34, 56)
    return SBV2xAdvancedParams(**kw)


def _sb_cert_block():
    cb = CertBlockV1(build_number=1)
    cb.add_certificate(Certificate.load(ROOTS[0]))
    for i, p in enumerate(ROOTS):
        cb.set_root_key_hash(i, Certificate.load(p))
    return cb


_SIGPROV = []


def _sigprov():
    """One signature provider per interpreter for the builds through the classes (loading the RSA key dominates their cost)."""
    if not _SIGPROV:
        _SIGPROV.append(get_signature_provider(local_file_key=PRIV))
    return _SIGPROV[0]


def sb20_ctor(n, ex, opt):
    signed = {"unsigned": False, "signed": True}[opt[0]]
    if ex or "ts" in opt:
        img = BootImageV20(signed, KEK, _sb_section(n), advanced_params=_adv(ex, opt))
    else:
        img = BootImageV20(signed, KEK, _sb_section(n))
    if signed:
        img.cert_block = _sb_cert_block()
        img.signature_provider = _sigprov()
    return img


def sb21_ctor(n, ex, opt):
    kw = {} if opt[0] == "sha" else {"flags": BootImageV21.FLAGS_ENCRYPTED_SIGNED_BIT}   # "sha": the default flags (SHA-256 present + signed)
    if ex or "ts" in opt:
        kw["advanced_params"] = _adv(ex, opt)
    img = BootImageV21(KEK, _sb_section(n), **kw)
    img.cert_block = _sb_cert_block()
    img.signature_provider = _sigprov()
    return img


SB_FLAGS = {("SB20", 0x04): "unsigned", ("SB20", 0x08): "signed", ("SB21", 0x8008): "sha", ("SB21", 0x0008): "nosha"}


def sb_seen(data, kind):
    """flags word of the file header (offset 26)"""
    (flags,) = struct.unpack_from("<H", data, 26)
    if (kind, flags) not in SB_FLAGS:
        raise RuntimeError(f"{kind} file header with the flags {flags:#x}")
    return [SB_FLAGS[(kind, flags)]]


T_GIVEN = 1700000000                       # option "ts": the timestamp option of the options block (seconds since 1970)
T_GIVEN_FILE = (T_GIVEN - 946684800) * 10**6   # ... as the header stores it (microseconds since 2000-01-01)


def _sb_cfg_options(ex, opt, versions="1.0.0"):
    """The options block of an SB2.1 configuration: each of dek / mac / nonce only when the user pins it, zeroPadding / timestamp only
    when the option combination has them (Fresh!SbCfgOpts)."""
    if len(opt) != 2 or opt[0] not in ("rndpad", "zeropad") or opt[1] not in ("now", "ts"):
        raise RuntimeError(f"option combination {opt} of an SB2.1 configuration")
    opts = {"flags": 0x8, "buildNumber": 1, "productVersion": versions, "componentVersion": versions}
    for f in ("dek", "mac", "nonce"):
        if f in ex:
            opts[f] = USER[f"sb_{f}"].hex()
    if opt[0] == "zeropad":
        opts["zeroPadding"] = True
    if opt[1] == "ts":
        opts["timestamp"] = T_GIVEN
    return opts


def sb_cfg_seen(data):
    """What the exported bytes show of zeroPadding / timestamp: header padding all zero or not, time stamp = the given one or not."""
    (ts,) = struct.unpack_from("<Q", data, 56)
    return ["rndpad" if any(data[16:20] + data[92:96]) else "zeropad", "ts" if ts == T_GIVEN_FILE else "now"]


def sb21_config(n, ex, opt):
    opts = _sb_cfg_options(ex, opt)
    conf = {
        "options": opts,
        "sections": [{"section_id": 0, "options": {}, "commands": [{"erase": {"address": 0, "length": 0x1000}}, {"reset": {}}]}],
        "signPrivateKey": PRIV,
    }
    return BootImageV21.load_from_config(
        config=conf,
        key_file_path=os.path.join(KEYS, "SBkek_PUF.txt"),
        signing_certificate_file_paths=[ROOTS[0]],
        root_key_certificate_paths=ROOTS,
        rkth_out_path=os.path.join(job["dir"], "hash.bin"),
        search_paths=[job["dir"]],
    )


class SbFile:
    """An SB2.1 file the command line application wrote: the artefact is the file, there is no object to look at."""

    def __init__(self, data):
        self.data = data

    def export(self):
        return self.data


def sb21_cli(n, ex, opt):
    """`nxpimage sb21 export -c file.yaml`: the YAML file names everything (cert-block configuration file, KEK file, signing key, output file);
    it is read, validated against the schema and built by the application's own code path."""
    import yaml

    d = os.path.join(job["dir"], "sbcli")
    os.makedirs(d, exist_ok=True)
    with open(os.path.join(d, "cert_block.yaml"), "w") as f:
        yaml.safe_dump(dict({f"rootCertificate{i}File": ROOTS[i] for i in range(4)}, mainRootCertId=0, imageBuildNumber=1), f)
    out = os.path.join(d, "out.sb2")
    if os.path.exists(out):
        os.remove(out)
    conf = {
        "family": "rt5xx",
        "options": dict(_sb_cfg_options(ex, opt, "1.00.00"), secureBinaryVersion="2.1"),
        "signPrivateKey": PRIV,
        "certBlock": "cert_block.yaml",
        "containerOutputFile": "out.sb2",
        "containerKeyBlobEncryptionKey": os.path.join(KEYS, "SBkek_PUF.txt"),
        "RKTHOutputPath": "hash.bin",
        "sections": [{"section_id": 0, "commands": [{"erase": {"address": 0, "length": 0x1000}},
                                                    {"load": {"address": 0x100, "values": f"{0x1224 + n:#x}, 0x5678"}}]}],
    }
    with open(os.path.join(d, "sb21.yaml"), "w") as f:
        yaml.safe_dump(conf, f)
    res = CliRunner().invoke(nxpimage_main, ["sb21", "export", "-c", os.path.join(d, "sb21.yaml")])
    if res.exit_code != 0 or not os.path.exists(out):
        raise RuntimeError(f"nxpimage sb21 export failed (exit {res.exit_code}): {res.output[-400:]} {res.exception!r}")
    with open(out, "rb") as f:
        return SbFile(f.read())


def sb_attrs(img, fields):
    if isinstance(img, SbFile):  # no object: DEK, MAC key and nonce as the file carries them
        r, ctr = sb_read(img.data, "SB21")
        return {k: v for k, v in r.items() if k in fields}, ctr
    r = {"dek": img.dek, "mac": img.mac, "nonce": img.header.nonce}
    return {k: v for k, v in r.items() if k in fields}, [img.dek, img.header.nonce]


def sb_export(img, kind):
    data = img.export()
    SEEN[0] = sb_seen(data, kind) if getattr(img, "_c17_ctor", False) else sb_cfg_seen(data) if kind == "SB21" else []
    return sb_read(data, kind)


def sb_read(data, kind):
    # SB2 header: nonce[16] pad0[4] 'STMP' ... pad1[4] at 92 (96 bytes), header HMAC[32], key blob[80] = RFC3394(kek, dek|mac)[72] + 8
    if data[20:24] != b"STMP":
        raise RuntimeError("exported SB2 file has no STMP signature at offset 20")
    nonce = data[0:16]
    hpad = data[16:20] + data[92:96]
    blob = data[128:208]
    keys = aes_key_unwrap(KEK, blob[:72])
    f = {"dek": keys[:32], "mac": keys[32:], "nonce": nonce, "hpad": hpad}
    if kind == "SB20":
        f["kpad"] = blob[72:80]
    return f, [keys[:32], nonce]


# ---------------------------------------------------------------------------------------------- SB2.1 from a command file with keywrap / encrypt
# The device setup is the user's and the same in every build: two OTFAD key blobs (key, counter and range are mandatory in a keyblob
# definition), the OTFAD KEK, the key-blob table at the flash base.  What changes from build to build (variant) is the application and
# the layout of the command file.  What SPSDK chooses: DEK, MAC key, nonce, header padding and the filler word of every wrapped key blob.
KW_ADDR = (0x08000000, 0x08000040)                              # where the keywrap statements load the wrapped key blobs 0 / 1
KW_RANGE = ((0x08001000, 0x0800F3FF), (0x08010000, 0x080103FF))  # end address with ADE / VLD bits set


def _kw_blobs():
    import hashlib

    return [(hashlib.sha256(b"C17 keyblob %d key" % i + USER["otfad_key"]).digest()[:16],
             hashlib.sha256(b"C17 keyblob %d counter" % i + USER["otfad_ctr"]).digest()[:8]) for i in (0, 1)]


def _kw_program(n):
    """The command file as a list of sections (id, statements); statements: ("erase", lo, hi) | ("keywrap", kb) | ("encrypt", kb, file)
    | ("load", file, address).  Both layouts wrap both key blobs exactly once."""
    app, cfg = os.path.join(job["dir"], f"sbkw_app{n}.bin"), os.path.join(job["dir"], "sbkw_fcb.bin")
    with open(app, "wb") as f:
        f.write(app_binary(n))
    with open(cfg, "wb") as f:
        f.write(bytes(range(0x40, 0x80)))
    if n % 2 == 0:
        return [(0, [("erase", 0x08000000, 0x08020000), ("keywrap", 0), ("encrypt", 0, app), ("keywrap", 1)])]
    return [(0, [("erase", 0x08000000, 0x08020000), ("keywrap", 1), ("keywrap", 0), ("load", cfg, 0x08000400)]),
            (1, [("encrypt", 1, app)])]


def _kw_bd_text(n, ex=(), opt=("rndpad", "now")):
    blobs = _kw_blobs()
    extra = "".join(f"  {f} = \"{USER['sb_' + f].hex()}\";\n" for f in ("dek", "mac", "nonce") if f in ex)   # as in NXP's own command files
    extra += "  zeroPadding = True;\n" if opt[0] == "zeropad" else ""
    extra += f"  timestamp = {T_GIVEN};\n" if opt[1] == "ts" else ""
    out = ["options {\n  flags = 0x8;\n  buildNumber = 0x1;\n  productVersion = \"1.00.00\";\n  componentVersion = \"1.00.00\";\n" + extra + "}\n"]
    for i, (key, ctr) in enumerate(blobs):
        out.append(f"keyblob ({i}) {{\n    (\n        start = {KW_RANGE[i][0]:#010x},\n        end = {KW_RANGE[i][1]:#010x},\n"
                   f"        key = \"{key.hex()}\",\n        counter = \"{ctr.hex()}\"\n    )\n}}\n")
    for sid, stmts in _kw_program(n):
        out.append(f"section ({sid}) {{\n")
        for st in stmts:
            if st[0] == "erase":
                out.append(f"  erase {st[1]:#x}..{st[2]:#x};\n")
            elif st[0] == "keywrap":
                out.append(f"  keywrap ({st[1]}) {{\n    load {{{{ {OTFAD_KEK.hex()} }}}} > {KW_ADDR[st[1]]:#010x};\n  }}\n")
            elif st[0] == "encrypt":
                out.append(f"  encrypt ({st[1]}) {{\n    load \"{st[2]}\" > {KW_RANGE[st[1]][0]:#010x};\n  }}\n")
            else:
                out.append(f"  load \"{st[1]}\" > {st[2]:#010x};\n")
        out.append("}\n")
    return "".join(out)


def _kw_config(n, ex, opt):
    """The same command file in the YAML form (the dictionary BootImageV21.load_from_config takes, as for SB21 / config)."""
    blobs = _kw_blobs()
    opts = _sb_cfg_options(ex, opt, "1.00.00")
    sections = []
    for sid, stmts in _kw_program(n):
        cmds = []
        for st in stmts:
            if st[0] == "erase":
                cmds.append({"erase": {"address": st[1], "length": st[2] - st[1]}})
            elif st[0] == "keywrap":
                cmds.append({"keywrap": {"keyblob_id": st[1], "address": KW_ADDR[st[1]], "values": OTFAD_KEK.hex()}})
            elif st[0] == "encrypt":
                cmds.append({"encrypt": {"keyblob_id": st[1], "address": KW_RANGE[st[1]][0], "file": st[2]}})
            else:
                cmds.append({"load": {"address": st[2], "file": st[1]}})
        sections.append({"section_id": sid, "options": {}, "commands": cmds})
    return {
        "family": "rt5xx",
        "options": opts,
        "keyblobs": [{"keyblob_id": i, "keyblob_content": [{"start": KW_RANGE[i][0], "end": KW_RANGE[i][1], "key": key.hex(), "counter": ctr.hex()}]}
                     for i, (key, ctr) in enumerate(blobs)],
        "sections": sections,
        "signPrivateKey": PRIV,
    }


def sb21kw_bd(n, ex, opt):
    """As `nxpimage sb21 export -c file.bd -k .. -s .. -S .. -R ..`: BD text -> BDParser -> load_from_config."""
    path = os.path.join(job["dir"], f"sbkw_{n}.bd")
    with open(path, "w") as f:
        f.write(_kw_bd_text(n, ex, opt))
    conf = BootImageV21.parse_sb21_config(path, external_files=[])
    want = set(_sb_cfg_options(ex, opt)) - {"flags", "buildNumber", "productVersion", "componentVersion"}
    if {k for k in conf["options"] if k in ("zeroPadding", "timestamp", "dek", "mac", "nonce")} != want:
        raise RuntimeError(f"the parsed command file pins {sorted(conf['options'])}, the history says {sorted(want)}")
    return BootImageV21.load_from_config(
        config=conf,
        key_file_path=os.path.join(KEYS, "SBkek_PUF.txt"),
        signature_provider=get_signature_provider(local_file_key=PRIV),
        signing_certificate_file_paths=[ROOTS[0]],
        root_key_certificate_paths=ROOTS,
        rkth_out_path=os.path.join(job["dir"], "hash.bin"),
        search_paths=[job["dir"]],
    )


def sb21kw_config(n, ex, opt):
    """The YAML form of the command file (keyblobs + sections with keywrap / encrypt commands) through load_from_config."""
    return BootImageV21.load_from_config(
        config=_kw_config(n, ex, opt),
        key_file_path=os.path.join(KEYS, "SBkek_PUF.txt"),
        signing_certificate_file_paths=[ROOTS[0]],
        root_key_certificate_paths=ROOTS,
        rkth_out_path=os.path.join(job["dir"], "hash.bin"),
        search_paths=[job["dir"]],
    )


def sbkw_export(img):
    data = img.export()
    f, ctr = sb_read(data, "SB21")           # DEK, MAC key, nonce, header padding as for every SB2.1 file
    SEEN[0] = sb_cfg_seen(data)
    # the file is walked by the independent boot-ROM executor (section decryption, command decoding); the load commands at the key-blob
    # table addresses carry the wrapped key blobs, which the OTFAD key-blob loader of the hardware model unwraps with the OTFAD KEK
    ev = c04_rom.run(data, KEK, max_payload_log=128)
    if not ev or ev[-1].get("ev") != "Accept":
        raise RuntimeError(f"the exported SB2.1 file is not accepted by the boot-ROM executor: {json.dumps(ev[-1])[:300] if ev else 'no event'}")
    blobs = _kw_blobs()
    for e in ev:
        if e.get("ev") != "Cmd" or e.get("tag") != 2:
            continue
        addr, cnt = (e["addr"][0] << 16) | e["addr"][1], (e["cnt"][0] << 16) | e["cnt"][1]
        if addr not in KW_ADDR:
            continue
        i = KW_ADDR.index(addr)
        if cnt != 64 or len(e["payload"]) != 64 or f"filler{i + 1}" in f:
            raise RuntimeError(f"load command at the key-blob table address {addr:#x}: {cnt} bytes (a wrapped key blob record has 64)")
        rec = c13_hw.otfad_load_table(bytes(e["payload"]), OTFAD_KEK, 1)[0]
        if not (rec["ivOk"] and rec["crcOk"] and rec["key"] == blobs[i][0] and rec["ctr"] == blobs[i][1] and rec["srt"] == KW_RANGE[i][0]):
            raise RuntimeError(f"the load at {addr:#x} does not unwrap to key blob {i} of the command file with the OTFAD KEK")
        f[f"filler{i + 1}"] = rec["zero"]
    if "filler1" not in f or "filler2" not in f:
        raise RuntimeError("the exported SB2.1 file has no load command for a keywrap statement of the command file")
    return f, ctr


# ---------------------------------------------------------------------------------------------- encrypted MBI
MBI_FAMILY = "mimxrt595s"


def _mbi_cfg(n, ex, opt=("hwk0", "hex")):
    """opt (Fresh!MbiCfgOpts): enableHwUserModeKeys off / on; the user's values as hex strings in the configuration / as names of files."""
    if len(opt) != 2 or opt[0] not in ("hwk0", "hwk1") or opt[1] not in ("hex", "file"):
        raise RuntimeError(f"option combination {opt} of an MBI configuration")

    def given(name, value):
        if opt[1] == "hex":
            return value.hex()
        fn = os.path.join(job["dir"], f"mbi_{name}.txt")
        with open(fn, "w") as f:
            f.write(value.hex())
        return fn

    path = os.path.join(job["dir"], "mbi_app.bin")
    with open(path, "wb") as f:
        f.write(app_binary(n))
    cfg = {
        "family": MBI_FAMILY,
        "outputImageExecutionTarget": "RAM",
        "outputImageAuthenticationType": "Encrypted + Signed",
        "masterBootOutputFile": os.path.join(job["dir"], "mbi.bin"),
        "inputImageFile": path,
        "outputImageExecutionAddress": 0x80000,
        "enableHwUserModeKeys": opt[0] == "hwk1",
        "enableTrustZone": False,
        "signPrivateKey": PRIV,
        "imageBuildNumber": 1,
        "rootCertificate0File": ROOTS[0],
        "rootCertificate1File": ROOTS[1],
        "rootCertificate2File": ROOTS[2],
        "rootCertificate3File": ROOTS[3],
        "mainRootCertId": 0,
        "outputImageEncryptionKeyFile": given("key", USER["mbi_key"]),
    }
    if "ctr_iv" in ex:
        cfg["CtrInitVector"] = given("ctr_iv", USER["mbi_ctr_iv"])
    return cfg


def mbi_config(n, ex, opt):
    cfg = _mbi_cfg(n, ex, opt)
    cls = get_mbi_class(cfg)
    obj = cls()
    obj.load_from_config(cfg, search_paths=[job["dir"]])
    return obj


def mbi_reconfig(obj, n, ex):
    """The SAME object goes through its load_from_config again: another application, the user-supplied fields of this configuration."""
    obj.load_from_config(_mbi_cfg(n, ex), search_paths=[job["dir"]])
    return obj


def mbi_ctor(n, ex, opt):
    cfg = _mbi_cfg(n, ex)
    cls = create_mbi_class("encrypted_signed_ram", MBI_FAMILY)
    kw = dict(
        app=app_binary(n),
        load_address=0x80000,
        trust_zone=TrustZone.disabled(),
        cert_block=CertBlockV1.from_config(cfg, [job["dir"]]),
        signature_provider=_sigprov(),
        hmac_key=USER["mbi_key"],
        key_store=None,
        user_hw_key_enabled={"hwk0": False, "hwk1": True}[opt[0]],
        app_table=None,
        family=MBI_FAMILY,
    )
    if "ctr_iv" in ex:
        kw["ctr_init_vector"] = USER["mbi_ctr_iv"]
    return cls(**kw)


def mbi_attrs(obj, fields):
    return {"key": bytes(obj.hmac_key), "ctr_iv": bytes(obj.ctr_init_vector)}, [bytes(obj.hmac_key), bytes(obj.ctr_init_vector)]


def mbi_export(obj):
    data = obj.export_image().export()
    # RT5xx/6xx encrypted image: IVT word at 0x28 = offset of the certificate block header (without the 32-byte HMAC that is
    # inserted at 0x40); cert block v1 = header[32] ('cert', .., certTableLen at +28) + table + RKH table[128];
    # then 56 bytes of the original encrypted IVT, then the 16-byte counter IV.
    (hdr,) = struct.unpack_from("<I", data, 0x28)
    pos = None
    for shift in (32, 32 + 1424, 0):  # HMAC only / HMAC + key store / none
        if data[hdr + shift : hdr + shift + 4] == b"cert":
            pos = hdr + shift
            break
    if pos is None:
        raise RuntimeError("certificate block not found in the exported MBI")
    hlen, = struct.unpack_from("<I", data, pos + 8)
    (tlen,) = struct.unpack_from("<I", data, pos + 28)
    iv_at = pos + hlen + tlen + 128 + 56
    iv = data[iv_at : iv_at + 16]
    return {"key": USER["mbi_key"], "ctr_iv": iv}, [USER["mbi_key"], iv]  # the image key is the user's (it never appears in the file)


# ---------------------------------------------------------------------------------------------- OTFAD
OTFAD_KEK = bytes.fromhex("50f66bb4f23b855dcd8fefc0da59e963")


OTFAD_FLAGS = (("ro", 0x4), ("ade", 0x2), ("vld", 0x1))   # bits 2..0 of the end-address word of a context (RO, ADE, VLD)


def otfad_ctor(n, ex, opt):
    kw = {}
    if "key" in ex:
        kw["key"] = USER["otfad_key"]
    if "ctr" in ex:
        kw["counter_iv"] = USER["otfad_ctr"]
    if list(opt) != ["ade", "vld"]:  # the default flags are the constructor's own default: nothing is passed
        kw["key_flags"] = sum(bit for name, bit in OTFAD_FLAGS if name in opt)
    return KeyBlob(0x08001000, 0x0800F3FF, **kw)


def otfad_attrs(obj, fields):
    return {"key": bytes(obj.key), "ctr": bytes(obj.ctr_init_vector)}, [bytes(obj.key), bytes(obj.ctr_init_vector)]


def otfad_export(obj):
    blob = obj.export(kek=OTFAD_KEK)
    plain = aes_key_unwrap(OTFAD_KEK, blob[:48])  # key[16] ctr[8] start[4] end[4] filler[4] crc[4]
    (end_word,) = struct.unpack_from("<I", plain, 28)
    SEEN[0] = [name for name, bit in OTFAD_FLAGS if end_word & bit]
    return {"key": plain[0:16], "ctr": plain[16:24], "filler": plain[32:36]}, [plain[0:16], plain[16:24]]


# ---------------------------------------------------------------------------------------------- IEE
IEE_LOCK = {0x95: "lock", 0x59: "unlock"}                  # iee_keyblob_attribute_t.lock
IEE_SIZE = {0x5A: "k128", 0xA5: "k256"}                    # .keySize: AES-128-CTR / 256-bit XTS key pair; AES-256-CTR / 512-bit XTS key pair
IEE_MODE = {0xA6: "xts", 0x66: "ctr_addr", 0xAA: "ctr_noaddr", 0x19: "ctr_stream", 0x6A: "bypass"}   # .aesMode


def _iee(n, ex, mode, opt):
    lock = {"lock": IeeKeyBlobLockAttributes.LOCK, "unlock": IeeKeyBlobLockAttributes.UNLOCK}[opt[0]]
    size = {"k128": IeeKeyBlobKeyAttributes.CTR128XTS256, "k256": IeeKeyBlobKeyAttributes.CTR256XTS512}[opt[1]]
    attr = IeeKeyBlobAttribute(lock, size, mode)
    kw = {}
    if "key1" in ex:
        kw["key1"] = USER["iee_key1"][: attr.key1_size]
    if "key2" in ex:
        kw["key2"] = USER["iee_key2"][: attr.key2_size]
    return IeeKeyBlob(attr, 0x30001000, 0x3000FFFF, **kw)


def iee_ctor(n, ex, opt):
    return _iee(n, ex, IeeKeyBlobModeAttributes.AesXTS, opt)


def ieectr_ctor(n, ex, opt):
    mode = {"ctr_addr": IeeKeyBlobModeAttributes.AesCTRWAddress, "ctr_noaddr": IeeKeyBlobModeAttributes.AesCTRWOAddress,
            "ctr_stream": IeeKeyBlobModeAttributes.AesCTRkeystream}[opt[2]]
    return _iee(n, ex, mode, opt)


def iee_attrs(obj, fields):
    ctr = [bytes(obj.key1), bytes(obj.key2)] if obj.attributes.ctr_mode else []
    return {"key1": bytes(obj.key1), "key2": bytes(obj.key2)}, ctr


def iee_export(obj):
    data = obj.plain_data()
    # iee_keyblob_t: header[4] version[4] attribute[4] pageOffset[4] key1[32] key2[32] start end reserved crc
    if struct.unpack_from("<I", data, 0)[0] != 0x49454542:
        raise RuntimeError("IEE key blob tag missing")
    k1, k2 = data[16 : 16 + obj.attributes.key1_size], data[48 : 48 + obj.attributes.key2_size]
    lock, size, mode = IEE_LOCK.get(data[8], "?"), IEE_SIZE.get(data[9], "?"), IEE_MODE.get(data[10], "?")
    if (mode == "xts") == bool(obj.attributes.ctr_mode) or mode == "bypass":
        raise RuntimeError(f"IEE key blob exported with the mode {mode} ({data[10]:#x})")
    SEEN[0] = [lock, size] if mode == "xts" else [lock, size, mode]
    return {"key1": k1, "key2": k2}, ([k1, k2] if obj.attributes.ctr_mode else [])


# ---------------------------------------------------------------------------------------------- BEE
def bee_ctor(n, ex, opt):
    kw = {}
    if "sw_key" in ex:
        kw["sw_key"] = USER["bee_sw_key"]
    if opt[0] == "parts":  # the caller composes the header from a region block and a key info block, both built without secrets
        kw["prdb"] = BeeProtectRegionBlock(lock_options={"lock0": 0, "lockF": 0xFFFFFFFF}[opt[1]])
        kw["kib"] = BeeKIB()
    hdr = BeeRegionHeader(**kw)
    hdr.add_fac(BeeFacRegion(0x60001000, 0x2000, 0))
    return hdr


class BeePart:
    """One region header of a BeeNxp build: the artefact that is written to bee_ehdr<slot>.bin."""

    def __init__(self, nxp, slot):
        self.nxp, self.slot = nxp, slot


def bee_config(n, ex, opt):
    """As `nxpimage bee export`: generated region headers (bee_cfg) for engine 0, engine 1 or both - with two engine configurations (own user
    key, own regions) whenever engine 1 takes part.  Returns one artefact per region header the build emits."""
    path = os.path.join(job["dir"], "bee_in.bin")
    with open(path, "wb") as f:
        f.write(app_binary(n) * 2)
    key1 = USER["bee_sw_key2"] if list(opt) == ["both", "diff"] else USER["bee_sw_key"]
    engines = [{"bee_cfg": {"user_key": "0x" + USER["bee_sw_key"].hex(),
                            "protected_region": [{"start_address": 0x60001000, "length": 0x400, "protected_level": 0}]}}]
    if opt[0] != "engine0":
        engines.append({"bee_cfg": {"user_key": "0x" + key1.hex(),
                                    "protected_region": [{"start_address": 0x60001400, "length": 0x400, "protected_level": 1}]}})
    cfg = {
        "family": "mimxrt1050",
        "input_binary": path,
        "output_folder": job["dir"],
        "output_name": "bee",
        "base_address": 0x60001000,
        "engine_selection": opt[0],
        "engine_key_selection": "random",
        "bee_engine": engines,
    }
    nxp = BeeNxp.load_from_config(cfg, search_paths=[job["dir"]])
    want = {"engine0": [0], "engine1": [1], "both": [0, 1]}[opt[0]]
    if [i for i, h in enumerate(nxp.headers) if h is not None] != want:
        raise RuntimeError(f"BeeNxp.load_from_config({opt[0]}) returned headers in the slots {[i for i, h in enumerate(nxp.headers) if h is not None]}")
    parts = [BeePart(nxp, i) for i in want]
    return parts if len(parts) > 1 else parts[0]


def _bee_hdr(obj):
    return obj if isinstance(obj, BeeRegionHeader) else obj.nxp.headers[obj.slot]


def _bee_sw_key(h):
    """The software key through the public sw_key_fuses() (four big-endian words, last word first)."""
    return b"".join(struct.pack(">I", w) for w in reversed(list(h.sw_key_fuses())))


def bee_attrs(obj, fields):
    h = _bee_hdr(obj)
    f = {"sw_key": _bee_sw_key(h)}
    prdb, kib = getattr(h, "_prdb", None), getattr(h, "_kib", None)  # no public accessor: best effort, the export is authoritative
    if prdb is not None and kib is not None:
        f.update({"counter": bytes(prdb.counter), "kib_key": bytes(kib.kib_key), "kib_iv": bytes(kib.kib_iv)})
    return f, ([f["sw_key"], f["counter"]] if "counter" in f else [])


def bee_export(obj, sw_key_hint):
    if isinstance(obj, BeeRegionHeader):
        data = obj.export()
    else:  # the region header file of this part, as BeeNxp hands it out
        data = obj.nxp.export_headers()[obj.slot]
    # EKIB = AES-ECB(sw_key, kib_key|kib_iv) at 0, EPRDB = AES-CBC(kib_key, kib_iv, prdb) at 0x80; prdb: tagl tagh ver fac start end mode lock ctr[16, reversed]
    kib = ecb_dec(sw_key_hint, data[0:32])
    prdb = cbc_dec(kib[:16], kib[16:32], data[0x80:0x180])
    if struct.unpack_from("<I", prdb, 0)[0] != 0x5F474154:
        raise RuntimeError("BEE PRDB tag not found after decryption with the software key")
    ctr = prdb[32:48][::-1]
    mode, lock = struct.unpack_from("<II", prdb, 24)
    if mode != 1:
        raise RuntimeError(f"BEE PRDB with the AES mode {mode} (AES-CTR = 1 is the only mode of the case space)")
    SEEN[0] = ([{0: "lock0", 0xFFFFFFFF: "lockF"}.get(lock, f"lock{lock:#x}")] if isinstance(obj, BeeRegionHeader) else [f"slot{obj.slot}"])
    f = {"counter": ctr, "kib_key": kib[:16], "kib_iv": kib[16:32], "sw_key": sw_key_hint}
    return f, [sw_key_hint, ctr]


# ---------------------------------------------------------------------------------------------- HAB (encrypted, through the configuration)
def hab_config(n, ex, opt):
    d = os.path.join(job["dir"], "hab")  # the same template (same SecretKey_Name, same paths) for every build, as in a build loop
    os.makedirs(d, exist_ok=True)
    app = os.path.join(d, "app.bin")
    with open(app, "wb") as f:
        f.write(app_binary(n) * 4)
    dekfile = os.path.join(d, "dek.bin")
    bits = int(opt[0][1:])  # option: SecretKey_Length 128 / 192 / 256
    secret = {"SecretKey_Name": dekfile, "SecretKey_Length": bits, "SecretKey_VerifyIndex": 0, "SecretKey_TargetIndex": 0}
    if "dek" in ex:
        with open(dekfile, "wb") as f:
            f.write(USER["hab_dek"][: bits // 8])
        secret["SecretKey_ReuseDek"] = 1
    decrypt = {"Decrypt_Engine": "ANY", "Decrypt_EngineConfiguration": "0", "Decrypt_VerifyIndex": 0, "Decrypt_MacBytes": 16}
    if "nonce" in ex:
        nf = os.path.join(d, "nonce.bin")
        with open(nf, "wb") as f:
            f.write(USER["hab_nonce"])
        decrypt["Decrypt_Nonce"] = nf
    cfg = {
        "inputImageFile": app,
        "options": {"flags": 0x0C, "startAddress": 0x60000000, "ivtOffset": 0x1000, "initialLoadSize": 0x2000, "entryPointAddress": 0x600022C1,
                    "signatureTimestamp": "16/05/2023 12:34:08"},
        "sections": [
            {"Header": {"Header_Version": "4.5", "Header_HashAlgorithm": "sha256", "Header_Engine": "ANY", "Header_EngineConfiguration": 0,
                        "Header_CertificateFormat": "x509", "Header_SignatureFormat": "CMS"}},
            {"InstallSRK": {"InstallSRK_Table": os.path.join(HAB, "SRK_1_2_3_4_table.bin"), "InstallSRK_SourceIndex": 0}},
            {"InstallCSFK": {"InstallCSFK_File": os.path.join(HAB, "CSF1_1_sha256_secp521r1_v3_usr_crt.pem"), "InstallCSFK_CertificateFormat": "x509"}},
            {"AuthenticateCSF": {"AuthenticateCsf_PrivateKeyFile": os.path.join(HAB, "CSF1_1_sha256_secp521r1_v3_usr_key.pem")}},
            {"InstallKey": {"InstallKey_File": os.path.join(HAB, "IMG1_1_sha256_secp521r1_v3_usr_crt.pem"), "InstallKey_VerificationIndex": 0, "InstallKey_TargetIndex": 2}},
            {"AuthenticateData": {"AuthenticateData_VerificationIndex": 2, "AuthenticateData_Engine": "ANY", "AuthenticateData_EngineConfiguration": 0,
                                  "AuthenticateData_PrivateKeyFile": os.path.join(HAB, "IMG1_1_sha256_secp521r1_v3_usr_key.pem")}},
            {"SecretKey": secret},
            {"Decrypt": decrypt},
        ],
    }
    conf = HabContainer.transform_bd_configuration(cfg)
    hab = HabContainer.load_from_config(conf, search_paths=[d])
    hab._c17_dekfile = open(dekfile, "rb").read()  # the DEK file is an output of THIS build (a later build overwrites it)
    return hab


def hab_attrs(obj, fields):
    csf = obj.csf_segment
    dek, nonce = bytes(csf.dek), bytes(csf.nonce)
    return {"dek": dek, "nonce": nonce}, [dek, nonce]


def hab_export(obj):
    data = obj.export()
    dek = obj._c17_dekfile
    # export() starts at the IVT (tag 0xD1): word 5 = own address, word 6 = CSF address; MAC structure = tag 0xAC, len16, ver, 0, nonce_len, 0, mac_len, nonce, mac
    if data[0] != 0xD1:
        raise RuntimeError("HAB IVT not found at the configured offset")
    self_addr, csf_addr = struct.unpack_from("<II", data, 20)
    csf_off = csf_addr - self_addr
    if data[csf_off] != 0xD4:
        raise RuntimeError("CSF header not found")
    # walk the CSF commands to the last Authenticate Data command (decrypt data): its first word after the header holds the offset of the MAC
    (clen,) = struct.unpack_from(">H", data, csf_off + 1)
    pos, end, mac_off = csf_off + 4, csf_off + clen, None
    while pos < end:
        ctag = data[pos]
        (ln,) = struct.unpack_from(">H", data, pos + 1)
        if ln < 4:
            break
        if ctag == 0xCA:  # Authenticate Data: hdr[4] key,pcl,eng,cfg[4] auth_start[4] ...
            (auth_start,) = struct.unpack_from(">I", data, pos + 8)
            mac_off = csf_off + auth_start
        pos += ln
    if mac_off is None or data[mac_off] != 0xAC:
        raise RuntimeError("MAC structure of the Decrypt Data command not found in the exported CSF")
    nonce_len, mac_len = data[mac_off + 5], data[mac_off + 7]
    nonce = data[mac_off + 8 : mac_off + 8 + nonce_len]
    SEEN[0] = [f"k{8 * len(dek)}"]
    return {"dek": dek, "nonce": nonce}, [dek, nonce]


# ---------------------------------------------------------------------------------------------- HAB through the legacy BootImgRT class
def habrt_ctor(n, ex, opt):
    img = BootImgRT(0x60000000, {"nor": BootImgRT.IVT_OFFSET_NOR_FLASH, "sd": BootImgRT.IVT_OFFSET_OTHER}[opt[0]])
    # documented: "use empty bytes to create random key (recommended)"; nonce None = "random value is used"
    img.add_image(app_binary(n), address=-1, dek_key=(USER["habrt_dek"] if "dek" in ex else b""))
    return img


def habrt_attrs(obj, fields):
    f = {"dek": bytes(obj.dek_key)}
    nonce = getattr(obj, "_nonce", None)
    if nonce:
        f["nonce"] = bytes(nonce)
    return f, ([f["dek"], f["nonce"]] if "nonce" in f else [])


def habrt_export(obj):
    # without a CSF (certificates, SRK table) the legacy class cannot be exported; the DEK the caller has to provision is dek_key
    f, ctr = habrt_attrs(obj, None)
    if "nonce" not in f:
        raise RuntimeError("nonce of the legacy HAB image not observable")
    return f, ctr


# ---------------------------------------------------------------------------------------------- bare helper
def hex_call(n, ex, opt):
    return {"value": load_hex_string(None, int(opt[0][1:]))}


def hex_attrs(obj, fields):
    return {"value": bytes(obj["value"])}, []


def hex_export(obj):
    SEEN[0] = [f"n{len(obj['value'])}"]
    return {"value": bytes(obj["value"])}, []


BUILD = {
    ("SB20", "ctor"): sb20_ctor, ("SB21", "ctor"): sb21_ctor, ("SB21", "config"): sb21_config, ("SB21", "cli"): sb21_cli,
    ("SB21KW", "bd"): sb21kw_bd, ("SB21KW", "config"): sb21kw_config,
    ("MBI", "ctor"): mbi_ctor, ("MBI", "config"): mbi_config,
    ("OTFAD", "ctor"): otfad_ctor,
    ("IEE", "ctor"): iee_ctor, ("IEECTR", "ctor"): ieectr_ctor,
    ("BEE", "ctor"): bee_ctor, ("BEE", "config"): bee_config,
    ("HAB", "config"): hab_config, ("HABRT", "ctor"): habrt_ctor,
    ("HEX", "call"): hex_call,
}
# kinds whose load_from_config is a method of the object (Reconf of spec/C17/Fresh.tla)
RECONFIG = {"MBI": mbi_reconfig}


def attrs(kind, obj):
    if kind in ("SB20", "SB21", "SB21KW"):
        return sb_attrs(obj, ("dek", "mac", "nonce"))
    if kind == "MBI":
        return mbi_attrs(obj, None)
    if kind == "OTFAD":
        return otfad_attrs(obj, None)
    if kind in ("IEE", "IEECTR"):
        return iee_attrs(obj, None)
    if kind == "BEE":
        return bee_attrs(obj, None)
    if kind == "HAB":
        return hab_attrs(obj, None)
    if kind == "HABRT":
        return habrt_attrs(obj, None)
    if kind == "HEX":
        return hex_attrs(obj, None)
    raise RuntimeError(kind)


def export(kind, obj):
    if kind in ("SB20", "SB21"):
        return sb_export(obj, kind)
    if kind == "SB21KW":
        return sbkw_export(obj)
    if kind == "MBI":
        return mbi_export(obj)
    if kind == "OTFAD":
        return otfad_export(obj)
    if kind in ("IEE", "IEECTR"):
        return iee_export(obj)
    if kind == "BEE":
        return bee_export(obj, _bee_sw_key(_bee_hdr(obj)))
    if kind == "HAB":
        return hab_export(obj)
    if kind == "HABRT":
        return habrt_export(obj)
    if kind == "HEX":
        return hex_export(obj)
    raise RuntimeError(kind)


ARTS = {}
SEEN = [[]]   # set by the export readers: the options as the exported bytes show them
out = []
for i, st in enumerate(job["steps"]):
    n0 = len(DRAWS)
    PHASE[0] = f"{st['op']}#{i}"
    rec = {"op": st["op"], "art": st["art"]}
    try:
        if st["op"] == "Construct" and st.get("part", 1) > 1:
            # a further artefact of the build the preceding step ran: nothing is built here
            if st["art"] not in ARTS or ARTS[st["art"]][0] != st["kind"]:
                raise RuntimeError(f"part {st['part']} of a build that did not emit it")
            f, ctr = attrs(st["kind"], ARTS[st["art"]][1])
        elif st["op"] == "Construct":
            # st["variant"]: which input image the build gets (0 / 1): in a loop over one template some builds repeat an earlier input, others do not
            obj = BUILD[(st["kind"], st["how"])](st.get("variant", st["art"]), st["ex"], st.get("opt", []))
            objs = obj if isinstance(obj, list) else [obj]
            if len(objs) != st.get("parts", 1):
                raise RuntimeError(f"the build emitted {len(objs)} artefacts, the history expects {st.get('parts', 1)}")
            for i, o in enumerate(objs):
                ARTS[st["art"] + i] = (st["kind"], o)
            obj = objs[0]
            if st["how"] == "ctor" and st["kind"] in ("SB20", "SB21"):
                obj._c17_ctor = True
            f, ctr = attrs(st["kind"], obj)
        elif st["op"] == "Reconfigure":
            kind, obj = ARTS.pop(st["of"])  # the object holds the new artefact from now on
            if kind != st["kind"]:
                raise RuntimeError(f"artefact {st['of']} is {kind}, not {st['kind']}")
            obj = RECONFIG[kind](obj, st.get("variant", st["art"]), st["ex"])
            ARTS[st["art"]] = (kind, obj)
            f, ctr = attrs(kind, obj)
        else:
            kind, obj = ARTS[st["art"]]
            SEEN[0] = []
            f, ctr = export(kind, obj)
            rec["seen"] = list(SEEN[0])
        rec["fields"] = {k: bytes(v).hex() for k, v in f.items()}
        rec["ctr"] = [bytes(x).hex() for x in ctr]
    except Exception as e:  # noqa: BLE001 - reported to the parent, which treats a failing public builder as machinery failure
        import traceback

        rec["error"] = f"{type(e).__name__}: {e}"
        rec["tb"] = traceback.format_exc()[-1500:]
    rec["draws"] = [list(d) for d in DRAWS[n0:]]
    out.append(rec)
PHASE[0] = "run"

result = {"import_draws": [list(d) for d in DRAWS if d[0] == "import"], "steps": out}
if job.get("report_modules"):
    result["modules"] = sorted(m for m in sys.modules if not m.startswith("spsdk") and m != "__main__")
json.dump(result, sys.stdout)
