"""./check Cxx [--tier quick|thorough] [--replay FILE]"""
import argparse
import importlib
import os
import sys
import traceback

sys.path.insert(0, os.path.dirname(os.path.abspath(__file__)))
from lib.common import Machinery, eprint, say  # noqa: E402


def main():
    ap = argparse.ArgumentParser()
    ap.add_argument("prop")
    ap.add_argument("--tier", default=os.environ.get("VERIF_TIER") or "quick", choices=["quick", "thorough"])
    ap.add_argument("--replay", default=None)
    a = ap.parse_args()
    if os.environ.get("VERIF_TIER") in ("quick", "thorough"):
        a.tier = os.environ["VERIF_TIER"]
    prop = a.prop.upper()
    try:
        mod = importlib.import_module(prop.lower())
    except ModuleNotFoundError as e:
        eprint(f"no check for {prop}: {e}")
        return 2
    try:
        if a.replay:
            return mod.replay(a.replay)
        return mod.run(a.tier)
    except Machinery as e:
        eprint(f"MACHINERY-FAILURE property={prop}: {e}")
        return 2
    except Exception:
        traceback.print_exc()
        eprint(f"MACHINERY-FAILURE property={prop}: unexpected exception in harness")
        return 2


if __name__ == "__main__":
    sys.exit(main())
