"""C06 - AHAB image: containers verify, images hash and decrypt, offsets never collide.

spec/C06/AhabRom.tla     R-spec: acceptance automaton of the boot ROM / ELE over the file (clauses <Step>OK / <Step>Nx)
spec/C06/AhabRomMC.tla   MC + GEN: abstract builder + tamper marker; lemmas (untampered accepted for every non-revoked
                         used/revoke pair, revoked rejected, every tampered authenticated region rejected, coverage);
                         emits the (srk set, used, revoke) pairs and the (field class -> verdict) tour
spec/C06/AhabRomTrace.tla TV: decides every walk of a real export, every tampered walk, and the third observer (SPSDK's own
                         parse / verify()) on valid and on tampered files
spec/C06/AhabLayout.tla  offsets: fixed container slots, documented automatic assignment, NoOverlap, update_fields history; MC
                         lemmas + GEN of layout cases (with the predicted collision flag); AhabLayoutTrace.tla decides the
                         projection of the real objects along  load -> update -> export -> update -> export -> parse -> update -> export

Python only drives SPSDK (AHABImage.load_from_config / update_fields / export / parse / verify), walks the bytes with the
executor lib/ahab_rom.py (trusted base: hashlib, `cryptography` primitives) and records events; TLC decides.
"""
import json
import os
import struct

from lib import ahab_rom as AR
from lib import tlc
from lib.common import ROOT, Machinery, import_spsdk, rng, say, scratch
from lib.par import pmap
from lib.verdict import Verdict

PROP = "C06"
KEYS = os.path.join(ROOT, "keys", "ahab")
KEY_TYPES = ["ecc256", "ecc384", "ecc521", "rsa2048", "rsa3072", "rsa4096"]
HASH_LABEL = {0: "sha256", 1: "sha384", 2: "sha512", 3: "sm3"}
GDET = ["disabled", "enabled_eleapi", "enabled"]
# (family, revision, container version) - every AHAB family of the database with its revisions is listed by families()
MEMORIES = ["standard", "nand_2k", "nand_4k", "serial_downloader"]

_pool = {}


def pool(kt):
    if kt not in _pool:
        _pool[kt] = [AR.load_pub_numbers(os.path.join(KEYS, f"srk{i}_{kt}.pub")) for i in range(4)]
    return _pool[kt]


# ------------------------------------------------------------------ the families of the database
def families():
    """[(family, revision, [container versions], max containers, max images, cores: [(label, tag, [(type label, tag)])])]"""
    from spsdk.image.ahab.ahab_data import create_chip_config
    from spsdk.image.ahab.ahab_iae import ImageArrayEntry
    from spsdk.image.ahab.ahab_image import AHABImage
    from spsdk.utils.database import get_db

    out = []
    for fam in AHABImage.get_supported_families():
        for rev in get_db(fam).device.revisions.revision_names():
            cc = create_chip_config(fam, rev)

            class _C:  # minimal stand-in for the container chip config: get_image_types only reads .base
                base = cc

            cores = []
            for label, tag in zip(cc.core_ids.labels(), cc.core_ids.tags()):
                types = ImageArrayEntry.get_image_types(_C, tag)
                cores.append((label, tag, [(l, t) for l, t in zip(types.labels(), types.tags()) if t < 16]))
            out.append({"family": fam, "revision": rev, "cvers": list(cc.container_types), "max_cont": cc.containers_max_cnt,
                        "max_img": cc.images_max_cnt, "cores": [c for c in cores if c[1] < 16 and c[2]],
                        "size_align": cc.container_image_size_alignment})
    return out


# ------------------------------------------------------------------ a case -> SPSDK configuration, expectation, secrets
def image_data(case_id, ci, i, n):
    return rng(PROP, "img", case_id, ci, i).randbytes(n)


def to_config(case, workdir):
    cfg = {"family": case["family"], "revision": case["revision"], "target_memory": case["memory"], "output": "out.bin", "containers": []}
    if len(case["cvers"]) > 1:
        cfg["container_version"] = case["cver"]
    for ci, c in enumerate(case["cont"]):
        cc = {"srk_set": c["srk_set"], "used_srk_id": c["used"], "srk_revoke_mask": hex(c["revoke"]), "fuse_version": c["fuse"],
              "sw_version": c["sw"], "images": []}
        if case["cver"] == 1:
            cc["gdet_runtime_behavior"] = GDET[c["gdet"]]
        if c["srk_set"] != "none":
            cc["signing_key"] = os.path.join(KEYS, f"srk{c['used']}_{c['kt']}.pem")
            cc["srk_table"] = {"flag_ca": False, "srk_array": [os.path.join(KEYS, f"srk{i}_{c['kt']}.pub") for i in range(4)]}
        if c.get("blob"):
            cc["blob"] = {"dek_key_size": c["blob"]["bits"], "dek_key": c["blob"]["dek"], "key_identifier": c["blob"]["key_id"]}
        for i, im in enumerate(c["img"]):
            path = os.path.join(workdir, f"img_{ci}_{i}.bin")
            with open(path, "wb") as f:
                f.write(image_data(case["id"], ci, i, im["len"]))
            e = {"image_path": path, "image_offset": im["off"], "load_address": hex(im["load"]), "entry_point": hex(im["entry"]),
                 "image_type": im["type"][0], "core_id": im["core"][0], "is_encrypted": im["enc"], "boot_flags": im["boot"],
                 "meta_data_start_cpu_id": im["meta"][0], "meta_data_mu_cpu_id": im["meta"][1], "meta_data_start_partition_id": im["meta"][2],
                 "hash_type": HASH_LABEL[im["ht"]]}
            if im.get("isa"):
                e["image_size_alignment"] = im["isa"]
            if im.get("gap"):
                e["gap_after_image"] = im["gap"]
            cc["images"].append(e)
        cfg["containers"].append({"container": cc})
    return cfg


def expectation(case):
    cont = []
    for c in case["cont"]:
        b = c.get("blob")
        cont.append({
            "srkSet": 0 if c["srk_set"] == "none" else 2, "used": c["used"], "revoke": c["revoke"], "gdet": c["gdet"], "sw": c["sw"],
            "fuse": c["fuse"], "kt": c["kt"] if c["srk_set"] != "none" else "none", "blob": bool(b), "keyBits": b["bits"] if b else 0,
            "keyId": AR.w2(b["key_id"]) if b else [0, 0],
            "img": [{"len": im["len"], "ht": im["ht"], "enc": im["enc"], "off": im["off"], "type": im["type"][1], "core": im["core"][1],
                     "boot": im["boot"], "meta": AR.w2(im["meta"][0] | im["meta"][1] << 10 | im["meta"][2] << 20),
                     "load": AR.w4(im["load"]), "entry": AR.w4(im["entry"])} for im in c["img"]]})
    return {"cver": case["cver"], "maxImg": case["max_img"], "refuse": bool(case.get("refuse")), "cont": cont}


def secrets(case, srk_hash=None):
    sec = {"cver": case["cver"], "max_cont": case["max_cont"], "images": {}, "dek": {}, "pool": {}, "spsdk_srk_hash": srk_hash or {}}
    for ci, c in enumerate(case["cont"]):
        for i, im in enumerate(c["img"]):
            sec["images"][(ci, i)] = image_data(case["id"], ci, i, im["len"])
        if c.get("blob"):
            sec["dek"][ci] = bytes.fromhex(c["blob"]["dek"])
        if c["srk_set"] != "none":
            sec["pool"][ci] = pool(c["kt"])
    return sec


def case_class(case):
    """Input class of a case for finding keys (no concrete numbers)."""
    kts = sorted({c["kt"] for c in case["cont"] if c["srk_set"] != "none"})
    feats = [f"v{case['cver']}", ",".join(kts) if kts else "unsigned"]
    if any(im["enc"] for c in case["cont"] for im in c["img"]):
        feats.append("enc")
    if any(im.get("isa") for c in case["cont"] for im in c["img"]):
        feats.append("size-ext")
    if any(im["off"] for c in case["cont"] for im in c["img"]):
        feats.append("explicit-off")
    return "+".join(feats)


def must_refuse(case):
    return bool(case.get("refuse")) or any(c["srk_set"] != "none" and (c["revoke"] >> c["used"]) & 1 for c in case["cont"])


# ------------------------------------------------------------------ driving SPSDK
def projection(ahab):
    """Offsets / sizes / lock flags of the real object (AhabLayoutTrace)."""
    return {"conts": [{"at": c.chip_config.container_offset, "locked": bool(c.chip_config.locked), "len": c.length if c.length > 0 else 0,
                       "img": [{"off": im.image_offset, "size": im.image_size} for im in c.image_array]} for c in ahab.ahab_containers]}


def spsdk_verdict(case, data):
    """Third observer: parse + verify() of SPSDK on a (possibly corrupted) file."""
    from spsdk.exceptions import SPSDKError
    from spsdk.image.ahab.ahab_image import AHABImage

    try:
        a = AHABImage(case["family"], case["revision"], case["memory"])
        a.parse(data)
        v = a.verify()
        return {"reported": bool(v.has_errors), "how": "verify-error" if v.has_errors else "clean", "crash": ""}, a
    except SPSDKError:
        return {"reported": True, "how": "parse-error", "crash": ""}, None
    except Exception as e:  # noqa: BLE001 - a crash of the verifier is an observation
        return {"reported": False, "how": "crash", "crash": type(e).__name__}, None


def build(case):
    """Run one case on the real code. Returns {"traces": [...], "layout": trace|None, "stats": {...}, "data": bytes|None}."""
    from spsdk.exceptions import SPSDKError
    from spsdk.image.ahab.ahab_image import AHABImage
    from spsdk.utils.schema_validator import check_config

    work = os.path.join(scratch(), "c06", str(case["id"]))
    os.makedirs(work, exist_ok=True)
    exp = expectation(case)
    cls = case_class(case)
    out = {"traces": [], "layout": None, "stats": {"built": 0, "refused": 0, "tamper_walks": 0, "tamper_obs": 0}, "case": case}
    hist = []  # layout history events
    cfg = to_config(case, work)
    if case.get("check_schema"):  # self-check of the generator on a sample (compiling the schema costs more than the build)
        try:
            check_config(cfg, AHABImage.get_validation_schemas(case["family"], case["revision"]))
        except SPSDKError as e:
            raise Machinery(f"generated configuration of case {case['id']} is refused by SPSDK's own schema: {str(e)[:300]}") from e
    try:
        ahab = AHABImage.load_from_config(cfg)
        hist.append({"ev": "Load", "p": projection(ahab)})
        ahab.update_fields()
        hist.append({"ev": "Update", "p": projection(ahab)})
        data = bytes(ahab.export())
        hist.append({"ev": "Export", "ok": True, "p": projection(ahab), "fileLen": len(data)})
    except SPSDKError as e:
        out["stats"]["refused"] += 1
        out["traces"].append({"id": f"{case['id']}/export", "kind": "export", "cls": cls, "exp": exp,
                              "ev": [{"ev": "ExportRefused", "exc": type(e).__name__, "msg": str(e)[-300:].replace("\x1b", "")}]})
        hist.append({"ev": "Export", "ok": False, "p": hist[-1]["p"] if hist else {"conts": []}, "fileLen": 0})
        out["layout"] = {"id": f"{case['id']}/layout", "lay": layout_params(case), "ev": hist}
        return out
    except Exception as e:  # noqa: BLE001 - decided by the spec: there is no action for a crash
        out["traces"].append({"id": f"{case['id']}/export", "kind": "export", "cls": cls, "exp": exp,
                              "ev": [{"ev": "ExportCrashed", "exc": type(e).__name__, "msg": str(e)[-300:]}]})
        return out
    out["stats"]["built"] += 1
    # ---- what SPSDK reports as SRK hash (fuse value) for the built object
    srk_hash = {}
    for ci, c in enumerate(ahab.ahab_containers):
        if case["cont"][ci]["srk_set"] != "none":
            srk_hash[ci] = [bytes(c.get_srk_hash(0))]
    # ---- third observer on the valid export
    obs = {"ev": "SpsdkRoundTrip", "parseOk": False, "equalObj": False, "reexportEq": False, "verifyClean": False, "preParseClean": False, "crash": ""}
    parsed = None
    verdict = {"reported": False, "how": "crash", "crash": "observer"}
    try:
        verdict, parsed = spsdk_verdict(case, data)
        obs["crash"] = verdict["crash"]
        obs["parseOk"] = parsed is not None
        obs["verifyClean"] = parsed is not None and not verdict["reported"]
        if parsed is not None:
            obs["equalObj"] = parsed.ahab_containers == ahab.ahab_containers
            obs["reexportEq"] = bytes(parsed.export()) == data
            obs["preParseClean"] = not AHABImage.pre_parse_verify(data).has_errors
            for ci, c in enumerate(parsed.ahab_containers):
                if ci in srk_hash:
                    srk_hash[ci].append(bytes(c.get_srk_hash(0)))
    except SPSDKError as e:
        obs["crash"] = ""
        obs["msg"] = str(e)[-200:]
    except Exception as e:  # noqa: BLE001
        obs["crash"] = type(e).__name__
    sec = secrets(case, srk_hash)
    walk = AR.walk(data, sec)
    out["traces"].append({"id": f"{case['id']}/export", "kind": "export", "cls": cls, "exp": exp, "ev": walk + [obs]})
    if must_refuse(case):
        # SPSDK exported an input the format forbids (reported through the export trace); its verifier at least has to report the parsed file
        out["traces"].append({"id": f"{case['id']}/invalid", "kind": "invalid", "cls": cls, "fcls": "revoked" if not case.get("refuse") else "collision",
                              "exp": exp, "ev": [{"ev": "InvalidExported"}, dict(verdict, ev="SpsdkTamperVerdict")]})
    # ---- history: update again, export again; parse, update, export
    if case.get("history"):
        try:
            ahab.update_fields()
            hist.append({"ev": "Update", "p": projection(ahab)})
            data2 = bytes(ahab.export())
            hist.append({"ev": "Export", "ok": True, "p": projection(ahab), "fileLen": len(data2)})
            out["traces"].append({"id": f"{case['id']}/export2", "kind": "export", "cls": cls, "exp": exp, "ev": AR.walk(data2, sec)})
            if parsed is not None:
                hist.append({"ev": "Parse", "p": projection(parsed)})
                parsed.update_fields()
                hist.append({"ev": "Update", "p": projection(parsed)})
                data3 = bytes(parsed.export())
                hist.append({"ev": "Export", "ok": True, "p": projection(parsed), "fileLen": len(data3)})
                out["traces"].append({"id": f"{case['id']}/export3", "kind": "export", "cls": cls, "exp": exp, "ev": AR.walk(data3, sec)})
        except SPSDKError as e:
            hist.append({"ev": "Export", "ok": False, "p": projection(ahab), "fileLen": 0, "msg": str(e)[-200:]})
        except Exception as e:  # noqa: BLE001
            hist.append({"ev": "Crash", "exc": type(e).__name__})
    out["layout"] = {"id": f"{case['id']}/layout", "lay": layout_params(case), "ev": hist}
    # ---- tamper runs
    n_per = case.get("tamper", 0)
    if n_per:
        r = rng(PROP, "tamper", case["id"])
        fl = AR.fields(data, case["cver"], case["max_cont"])
        by_cls = {}
        for f in fl:
            by_cls.setdefault(f[0], []).extend(AR.bit_positions(f))
        want = case.get("tamper_classes")
        for fcls in sorted(by_cls):
            if want is not None and fcls not in want:
                continue
            pos = by_cls[fcls]
            chosen = pos if len(pos) <= n_per else r.sample(pos, n_per)
            for k, (at, bit) in enumerate(chosen):
                bad = bytearray(data)
                bad[at] ^= 1 << bit
                bad = bytes(bad)
                if k < case.get("tamper_walks", 1):
                    out["traces"].append({"id": f"{case['id']}/tamper/{fcls}/{at}.{bit}", "kind": "tamper", "cls": cls, "fcls": fcls, "exp": exp,
                                          "ev": AR.walk(bad, sec)})
                    out["stats"]["tamper_walks"] += 1
                if declared_sizes_too_big(bad, case["cver"], case["max_cont"]):
                    out["stats"]["skipped_resource"] = out["stats"].get("skipped_resource", 0) + 1
                    continue  # SPSDK's verifier allocates and hashes `image size` bytes: not run on multi-megabyte garbage sizes
                verdict, _ = spsdk_verdict(case, bad)
                out["traces"].append({"id": f"{case['id']}/observe/{fcls}/{at}.{bit}", "kind": "observe", "cls": cls, "fcls": fcls, "exp": exp,
                                      "ref_id": f"{case['id']}/export",
                                      "ev": [{"ev": "Resume", "ref": 0}, {"ev": "Tamper", "at": at, "bit": bit, "cls": fcls},
                                             dict(verdict, ev="SpsdkTamperVerdict")]})
                out["stats"]["tamper_obs"] += 1
    return out


def declared_sizes_too_big(data, cver, max_cont, limit=8 << 20):
    """True if some image array entry SPSDK would read from this (corrupted) file declares more than `limit` bytes."""
    slot = AR.slot_size(cver)
    for ci in range(max_cont):
        c = ci * slot
        if c + 16 > len(data):
            break
        if data[c + 3] != AR.TAG_CONT or data[c] != (2 if cver == 2 else 0):
            continue  # SPSDK does not parse a container here
        n_img = data[c + 11]
        for i in range(n_img):
            o = c + 16 + 128 * i
            if o + 8 > len(data):
                break
            if struct.unpack_from("<I", data, o + 4)[0] > limit:
                return True
    return False


def layout_params(case):
    lay = {"cver": case["cver"], "slot": AR.slot_size(case["cver"]), "memory": case["memory"], "refuse": bool(case.get("refuse")),
           "explicit": [[im["off"] for im in c["img"]] for c in case["cont"]], "drift": False, "al": 0, "start": 0, "flat": []}
    if case.get("gen"):  # a case of AhabLayoutMC: the I clause (documented automatic placement) can be evaluated
        g = case["gen"]
        lay.update(drift=True, al=g["al"], start=g["start"], flat=[{"size": x["size"], "gap": x["gap"], "off": x["off"]} for x in g["imgs"]])
    return lay


# ------------------------------------------------------------------ seeded concretisation of abstract cases
def container_len(cver, n_img, kt, blob_bits):
    """Length of a container by the documented format (used to keep generated cases inside their slots)."""
    sb = 16
    if kt != "none":
        par = {"ecc256": 64, "ecc384": 96, "ecc521": 132, "rsa2048": 260, "rsa3072": 388, "rsa4096": 516}[kt]
        sig = {"ecc256": 64, "ecc384": 96, "ecc521": 132, "rsa2048": 256, "rsa3072": 384, "rsa4096": 512}[kt]
        srk = (8 + 4 + 4 * (12 + 64) + 8 + par) if cver == 2 else 4 + 4 * (12 + par)
        al = (lambda x: x) if cver == 2 else (lambda x: (x + 7) // 8 * 8)
        sb = al(al(16 + srk) + 8 + sig)
    if blob_bits:
        sb = (sb if cver == 2 else (sb + 7) // 8 * 8) + 56 + blob_bits // 8
    return 16 + 128 * n_img + sb


def random_image(r, fam, **over):
    core = r.choice(fam["cores"])
    typ = r.choice(core[2])
    ln = r.choice([1, 4, 5, 16, 100, 511, 512, 513, 700, 1024, 1025, 1536, 3000, 4096, 5000])
    load = r.choice([0, 0x1000, 0x2000_0000, 0x8000_0000, 0xFFFF_FFF0, 0x1_0000_0000, 0xFFFF_FFFF_FFFF_FFF0, r.getrandbits(64)])
    im = {"len": ln, "ht": r.choice([0, 1, 2, 0, 1, 2, 3]), "enc": False, "off": 0, "type": [typ[0], typ[1]], "core": [core[0], core[1]],
          "boot": r.choice([0, 0, 1, 0x7FFF, r.getrandbits(15)]),
          "meta": [r.choice([0, 1, 0x3FF, r.getrandbits(10)]), r.choice([0, 0x3FF, r.getrandbits(10)]), r.choice([0, 0xFF, r.getrandbits(8)])],
          "load": load, "entry": r.choice([load, 0, (load + 0x400) & 0xFFFF_FFFF_FFFF_FFFF, r.getrandbits(64)]),
          "isa": r.choice([None, None, None, 0x300, 0x500, 0x1000, 0x30, 0x2800]), "gap": r.choice([0, 0, 0, 0x400, 0x1000])}
    im.update(over)
    return im


def random_container(r, fam, cver, signed, last, **over):
    kts = KEY_TYPES if last else ["ecc256", "ecc384", "ecc521"]  # an RSA SRK table does not fit into a version-1 slot
    if cver == 2:
        kts = KEY_TYPES
    c = {"srk_set": "oem" if signed else "none", "kt": r.choice(kts) if signed else "none", "used": r.randrange(4) if signed else 0, "revoke": 0,
         "gdet": r.randrange(3) if cver == 1 else 0, "sw": r.choice([0, 1, 0xFFFF, r.getrandbits(16)]), "fuse": r.choice([0, 1, 0xFF, r.getrandbits(8)]),
         "blob": None, "img": []}
    if signed:
        allowed = [m for m in range(16) if not (m >> c["used"]) & 1]
        c["revoke"] = r.choice([0, r.choice(allowed), 15 & ~(1 << c["used"])])
    c.update(over)
    return c


def random_case(r, fams, cid, **over):
    fam = over.pop("fam", None) or r.choice(fams)
    cver = over.pop("cver", None) or r.choice(fam["cvers"])
    n_cont = over.pop("n_cont", None) or r.choice([1, 1, 2, 2, fam["max_cont"]])
    case = {"id": cid, "family": fam["family"], "revision": fam["revision"], "memory": r.choice(MEMORIES), "cver": cver, "cvers": fam["cvers"],
            "max_cont": fam["max_cont"], "max_img": fam["max_img"], "cont": [], "history": False, "tamper": 0}
    for ci in range(n_cont):
        last = ci == n_cont - 1
        c = random_container(r, fam, cver, signed=r.random() < 0.7, last=last)
        n_img = r.choice([1, 1, 2, 2, 3, fam["max_img"]]) if last else r.choice([1, 2, 3])
        enc_any = r.random() < 0.3
        if enc_any:
            bits = r.choice([128, 192, 256])
            c["blob"] = {"bits": bits, "dek": r.randbytes(bits // 8).hex(), "key_id": r.choice([0, 1, 0xFFFFFFFF, r.getrandbits(32)])}
        for i in range(n_img):
            enc = enc_any and r.random() < 0.7
            im = random_image(r, fam, enc=enc)
            if enc:
                im["isa"] = None  # size extension of an encrypted image: outside the asserted domain (see assumptions)
            c["img"].append(im)
        # keep the container inside its slot when another one follows
        while not last and container_len(cver, len(c["img"]), c["kt"], c["blob"]["bits"] if c["blob"] else 0) > AR.slot_size(cver):
            c["img"].pop()
        case["cont"].append(c)
    case.update(over)
    return case


# ------------------------------------------------------------------ concretisation of the TLC-generated cases
def fam_for(fams, cver, k):
    pick = [f for f in fams if cver in f["cvers"]]
    return pick[k % len(pick)]


def plain_image(r, fam, ln, **over):
    cores = [c for c in fam["cores"] if any(t[0] != "ele" for t in c[2])] or fam["cores"]   # (ELE images follow a 4-byte placement rule)
    core = r.choice(cores)
    typ = r.choice([t for t in core[2] if t[0] != "ele"] or core[2])
    im = {"len": ln, "ht": 0, "enc": False, "off": 0, "type": [typ[0], typ[1]], "core": [core[0], core[1]], "boot": 0, "meta": [0, 0, 0],
          "load": 0x1000, "entry": 0x1000, "isa": None, "gap": 0}
    im.update(over)
    return im


def auth_case(row, fams, k, cid):
    """One row of AhabRomMC (t = 0): cver, pre, srkSet, used, revoke, kt, nImg, enc, ext -> a real case."""
    r = rng(PROP, "auth", cid)
    fam = fam_for(fams, row["cver"], k)
    case = {"id": cid, "family": fam["family"], "revision": fam["revision"], "memory": MEMORIES[k % 4], "cver": row["cver"], "cvers": fam["cvers"],
            "max_cont": fam["max_cont"], "max_img": fam["max_img"], "cont": [], "history": False, "tamper": 0, "origin": "AhabRomMC"}
    if row["pre"]:
        c = random_container(r, fam, row["cver"], signed=False, last=False)
        c["img"] = [plain_image(r, fam, r.choice([1, 512, 700]), ht=1)]
        case["cont"].append(c)
    signed = row["srkSet"] != 0
    c = random_container(r, fam, row["cver"], signed=signed, last=True, used=row["used"], revoke=row["revoke"], kt=row["kt"])
    for j in range(row["nImg"]):
        im = plain_image(r, fam, r.choice([100, 700, 1000]), ht=2 if j == 0 else 0, boot=r.getrandbits(15), load=r.getrandbits(64))
        if j == 0 and row["enc"]:
            im["enc"] = True
        if j == 0 and row["ext"]:
            im["isa"] = r.choice([0x300, 0x500, 0x1400])  # the 512-aligned length is not a multiple of the entry alignment
        c["img"].append(im)
    if row["enc"]:
        bits = r.choice([128, 192, 256])
        c["blob"] = {"bits": bits, "dek": r.randbytes(bits // 8).hex(), "key_id": r.getrandbits(32)}
    case["cont"].append(c)
    return case


def layout_case(row, fams, k, cid):
    """One row of AhabLayoutMC: cver, mem, st, refuse, start, al, imgs [{size, gap, off, ci}], placed."""
    r = rng(PROP, "layout", cid)
    fam = fam_for(fams, row["cver"], k)
    # the I clause (Asg) uses the alignment `al` for every image: families with a larger minimal offset alignment would differ
    case = {"id": cid, "family": fam["family"], "revision": fam["revision"], "memory": row["mem"], "cver": row["cver"], "cvers": fam["cvers"],
            "max_cont": fam["max_cont"], "max_img": fam["max_img"], "cont": [], "history": True, "tamper": 0, "origin": "AhabLayoutMC",
            "refuse": bool(row["refuse"]), "gen": row}
    sal = fam["size_align"]
    for ci, n in enumerate(row["st"], start=1):
        c = random_container(r, fam, row["cver"], signed=r.random() < 0.5, last=False)
        if c["srk_set"] != "none":
            c["kt"] = "ecc256"
        for im in [x for x in row["imgs"] if x["ci"] == ci]:
            size = im["size"]
            if size % sal == 0:
                ln, isa = r.randrange(size - sal + 1, size + 1), None
            else:  # 768 = 0x300: a 512-aligned length extended by the entry alignment
                ln, isa = r.randrange(1, sal + 1), size
            c["img"].append(plain_image(r, fam, ln, isa=isa, off=im["off"], gap=im["gap"], ht=r.choice([0, 1, 2])))
        case["cont"].append(c)
    return case


def tamper_cases(fams, tier, base):
    """Cases whose exports are tampered with: between them they contain every field class of the tour."""
    r = rng(PROP, "tamper-cases")
    n_per = 3 if tier == "quick" else 40
    out = []
    specs = [(1, "ecc256", True, True), (1, "rsa2048", False, False), (1, "ecc521", False, True), (2, "ecc384", True, True)]
    if tier != "quick":
        specs += [(1, "ecc384", True, False), (1, "rsa4096", False, False), (1, "rsa3072", True, False), (2, "ecc256", False, False), (2, "ecc521", True, True)]
    for k, (cver, kt, pre, enc) in enumerate(specs):
        row = {"cver": cver, "pre": pre, "srkSet": 2, "used": (k + 1) % 4, "revoke": 0, "kt": kt, "nImg": 2, "enc": enc, "ext": False}
        case = auth_case(row, fams, k, base + k)
        if k % 2 == 1:
            case["cont"][-1]["img"][1]["isa"] = 0x300  # every other host carries a size-extended plain image
        case["memory"] = "standard"
        case.update(tamper=n_per, tamper_walks=1 if tier == "quick" else 8, origin="tamper")
        out.append(case)
    return out


# ------------------------------------------------------------------ deciding
TRUE_FACTS = {
    "ContainerHeader": ["tagOk"],
    "ImageEntry": ["inFile", "hashKnown", "hashOk", "hashPadZero", "flagsRsvZero", "dataOk", "padZero", "ivOk", "decOk"],
    "SignatureBlock": ["tagOk"],
    "SrkTable": ["tagOk", "arrTagOk", "arrRsvZero", "recsOk", "sameType", "sizesOk", "recRsvZero", "keysOk", "srkDataTagOk", "dataHashOk", "srkHashOk"],
    "VerifySignature": ["tagOk", "ok"],
    "Blob": ["tagOk"],
    "SpsdkRoundTrip": ["parseOk", "verifyClean", "equalObj", "reexportEq"],
}


def failed_clause(ev):
    for f in TRUE_FACTS.get(ev.get("ev"), []):
        if ev.get(f) is False:
            return f
    if ev.get("crash"):
        return f"crash:{ev['crash']}"
    return "relation"


def resolve_refs(traces):
    idx = {t["id"]: k + 1 for k, t in enumerate(traces)}
    for t in traces:
        if t["kind"] == "observe":
            t["ev"][0]["ref"] = idx.get(t["ref_id"], 0)


def decide(v, traces, cases_by_id, stats):
    """Batch trace validation of the ROM traces; turns TLC's rejections into findings."""
    resolve_refs(traces)
    slim = [{"id": t["id"], "exp": t["exp"], "ev": t["ev"]} for t in traces]
    rej, res = tlc.tv("C06", "AhabRomTrace", slim, heap="8g", timeout=1500)
    v.traces(len(traces))
    v.extra["tv_states"] = v.extra.get("tv_states", 0) + res.distinct
    by_id = {t["id"]: t for t in traces}
    for t in traces:
        cid = t["id"].split("/")[0]
        case = cases_by_id.get(cid)
        r = rej.get(t["id"])
        if t["kind"] == "tamper":
            if r is None:
                raise Machinery(f"the acceptance automaton accepted a tampered file: {t['id']} (class {t['fcls']})")
            stats["tamper_rejected"] += 1
            stats["tamper_classes"].add(t["fcls"])
            continue
        if r is None:
            stats.setdefault("consumed_events", set()).update(e["ev"] for e in t["ev"])
            if t["kind"] == "export" and t["ev"][-1]["ev"] in ("SpsdkRoundTrip", "Accept"):
                stats["accepted"] += 1
                v.nontrivial(json.dumps(t["exp"], sort_keys=True))
            elif t["kind"] == "export":
                stats["refused_ok"] += 1
                v.nontrivial(json.dumps(t["exp"], sort_keys=True))
            elif t["kind"] == "observe":
                stats["tamper_reported"] += 1
            elif t["kind"] == "invalid":
                stats["invalid_reported"] = stats.get("invalid_reported", 0) + 1
            continue
        matched, length, evname = r
        ev = t["ev"][min(matched, len(t["ev"]) - 1)]
        wit = {"case": case, "trace": {"id": t["id"], "kind": t["kind"], "exp": t["exp"], "ev": t["ev"]}, "failed_event": matched + 1}
        if t["kind"] == "invalid":
            how = f"crash:{ev['crash']}" if ev.get("crash") else ev.get("how", "clean")
            v.violation(f"C06/verify/invalid/{t['fcls']}/{how}/{t['cls']}",
                        f"{t['id']}: SPSDK exported an image the format forbids ({t['fcls']}) and its own parse/verify() of that file says: {how}", wit)
            continue
        if t["kind"] == "observe":
            if evname == "Resume":
                continue  # the export itself was not accepted: reported there
            if evname == "Tamper":
                raise Machinery(f"tamper position outside the authenticated intervals of the spec: {t['id']}")
            how = f"crash:{ev['crash']}" if ev.get("crash") else ev.get("how", "clean")
            v.violation(f"C06/verify/tamper/{t['fcls']}/{how}",
                        f"{t['id']}: one flipped bit in authenticated field class {t['fcls']} (byte {t['ev'][1]['at']}, bit {t['ev'][1]['bit']}) - SPSDK parse/verify(): {how}", wit)
            continue
        if evname == "ExportRefused":
            v.violation(f"C06/export/refused-valid/{t['cls']}", f"{t['id']}: SPSDK refused to export a valid configuration: {ev.get('msg', '')[-160:]!r}", wit)
        elif evname == "ExportCrashed":
            v.violation(f"C06/export/crash:{ev.get('exc')}/{t['cls']}", f"{t['id']}: export raised {ev.get('exc')}: {ev.get('msg', '')[:160]!r}", wit)
        elif evname == "SpsdkRoundTrip":
            v.violation(f"C06/verify/valid/{failed_clause(ev)}/{t['cls']}",
                        f"{t['id']}: the export is accepted by the ROM automaton but SPSDK's own parse / verify() does not agree: {json.dumps(ev)[:300]}", wit)
        else:
            clause = failed_clause(ev)
            if evname == "VerifySignature" and clause == "relation" and (ev.get("key", 0) < 4 and (t["exp"]["cont"][ev.get("ci", 0)]["revoke"] >> ev.get("key", 0)) & 1):
                clause = "revoked-key-exported"
            kcls = t["cls"]
            if case is not None and "ci" in ev:  # the class of the image / container concerned, not of the whole case
                try:
                    co = case["cont"][ev["ci"]]
                    if evname == "ImageEntry":
                        im = co["img"][ev["i"]]
                        kcls = f"v{case['cver']}+" + ("enc" if im["enc"] else "plain") + ("+size-ext" if im.get("isa") else "")
                    else:
                        kcls = f"v{case['cver']}+" + (co["kt"] if co["srk_set"] != "none" else "unsigned") + ("+blob" if co.get("blob") else "")
                except (IndexError, KeyError):
                    pass
            v.violation(f"C06/rom/{evname}/{clause}/{kcls}",
                        f"{t['id']}: event #{matched + 1} ({evname}) of the walk over SPSDK's export is not a step of the acceptance automaton ({clause}): {json.dumps(ev)[:400]}", wit)
    return rej


def decide_layout(v, lays, cases_by_id, stats):
    if not lays:
        return
    rej, res = tlc.tv("C06", "AhabLayoutTrace", lays, env={"MODE": "R"}, heap="8g", timeout=900)
    v.traces(len(lays))
    v.extra["tv_states"] = v.extra.get("tv_states", 0) + res.distinct
    for t in lays:
        r = rej.get(t["id"])
        if r is None:
            stats["layout_ok"] += 1
            continue
        matched, length, evname = r
        case = cases_by_id.get(t["id"].split("/")[0])
        nth = sum(1 for e in t["ev"][:matched + 1] if e["ev"] == evname)
        v.violation(f"C06/layout/{evname}#{nth}/{case_class(case) if case else ''}",
                    f"{t['id']}: projection after event #{matched + 1} ({evname}) breaks a layout clause (slots / explicit kept / no overlap / offsets frozen): "
                    f"{json.dumps(t['ev'][min(matched, len(t['ev']) - 1)])[:300]}", {"case": case, "trace": t, "failed_event": matched + 1})
    drift = [t for t in lays if t["lay"].get("drift") and t["id"] not in rej]
    if drift:
        rej_i, _ = tlc.tv("C06", "AhabLayoutTrace", drift, env={"MODE": "I"}, heap="8g", timeout=900)
        stats["ispec_conformant"] = len(drift) - len(rej_i)
        stats["drift_examples"] = [next(t for t in drift if t["id"] == i) for i in list(rej_i)[:3]]


# ------------------------------------------------------------------ the check
CANARY = os.path.join(ROOT, "anchors", "C06", "canary.json")


def anchor_selftest():
    """Frozen format fact that no offline document states: the AES-CBC IV of an encrypted image is the LAST 16 bytes of the 32-byte
    IV field (= SHA-256 of the plain image).  Anchored on a golden container of the pinned commit (copied from
    tests/nxpimage/data/ahab/cntr_encrypted_ctcm_cm33.bin, DEK 00 01 .. 0f from its configuration)."""
    import hashlib

    path = os.path.join(ROOT, "anchors", "C06", "cntr_encrypted_ctcm_cm33.bin")
    d = open(path, "rb").read()
    c = 0x400
    off, size = struct.unpack_from("<II", d, c + 16)
    iv = d[c + 16 + 96:c + 16 + 128]
    plain = AR.aes_cbc_dec(bytes(range(16)), iv[16:], d[c + off:c + off + size])
    if d[c + 3] != AR.TAG_CONT or hashlib.sha256(plain).digest() != iv:
        raise Machinery("anchor self-test failed: the golden encrypted container does not decrypt to data whose SHA-256 is its IV field")


def load_canary(host):
    """Frozen known-good traces; recorded from `host` when the anchor does not exist yet (first run on the unchanged tree)."""
    if not os.path.exists(CANARY):
        out = build(dict(host, tamper=0, id="canary", history=True))
        good = next(t for t in out["traces"] if t["kind"] == "export")
        if good["ev"][-1]["ev"] != "SpsdkRoundTrip":
            raise Machinery(f"canary export did not build: {good['ev'][-1]}")
        os.makedirs(os.path.dirname(CANARY), exist_ok=True)
        with open(CANARY, "w") as f:
            json.dump({"rom": {"id": "canary", "exp": good["exp"], "ev": good["ev"]}, "layout": out["layout"]}, f, indent=1)
    return json.load(open(CANARY))


ASSUMPTIONS = [
    "containers are built from configuration (AHABImage.load_from_config) with SRK set none or oem; NXP-signed containers, binary "
    "containers, the optional certificate, SM2 / PQC keys and the second (PQC) SRK table are not generated",
    "explicit image offsets are generated for the first container only (the schema text and the template text disagree whether an "
    "explicit offset of a later container is relative to the image or to the container) and not for serial_downloader (documented as ignored)",
    "an encrypted image is not combined with an image_size_alignment that extends the stored size (the property does not say which "
    "bytes the IV hash covers then)",
    "replacing the data of an entry after update_fields is not part of the asserted history (the API does not say whether the hash is recomputed)",
    "the wrapped DEK (blob) is opaque and device bound: only its placement and length are checked; gaps, the blob and the reserved word of "
    "the signature header are not authenticated bytes; in a container that is not signed only image bytes and their digests are",
    "tamper: SPSDK's verifier is not run on corrupted files that declare an image of more than 8 MiB (it allocates and hashes that many bytes)",
    "RSA signatures are RSASSA-PSS / MGF1 with the hash of the SRK record, any salt length; the SRK hash is SHA-256 (version 1) / SHA-512 "
    "(version 2) over the SRK table as exported; the AES-CBC IV is the last 16 bytes of the IV field (anchored on a golden container, anchors/C06)",
    "SPSDK is observed through its Python API (AHABImage.load_from_config / update_fields / export / parse / verify / pre_parse_verify), not through the nxpimage CLI",
]


def run(tier):
    import_spsdk()
    v = Verdict(PROP, tier)
    quick = tier == "quick"
    anchor_selftest()
    fams = families()
    if not fams:
        raise Machinery("no AHAB family in the database")
    r = rng(PROP)

    # ---- MC + GEN 1: acceptance automaton with abstract builder and tamper marker
    acts = ("ContainerHeader", "ImageEntry", "SignatureBlock", "SrkTable", "VerifySignature", "Blob", "ContainerEnd", "Accept", "Emit")
    mc1 = tlc.mc("C06", "AhabRomMC", "AhabRomMC.cfg", env={"MC_FULL": "0" if quick else "1"}, heap="8g", workers=4, require_actions=acts, timeout=900)
    v.add_mc(mc1)
    rows = mc1.json_prints()
    rows.sort(key=lambda x: json.dumps(x, sort_keys=True))  # TLC workers print in any order: the concretisation must not depend on it
    auth_rows = [x for x in rows if x["cls"] == "none"]
    tour = {}
    for x in rows:
        if x["cls"] != "none":
            tour.setdefault(x["cls"], set()).add(x["verdict"])
    if len(auth_rows) < 150 or not tour:
        raise Machinery(f"AhabRomMC emitted {len(auth_rows)} untampered rows and {len(tour)} region classes")
    mixed = [c for c, vs in tour.items() if len(vs) != 1]
    if mixed:
        raise Machinery(f"region classes with mixed verdicts in the model: {mixed}")
    must_reject = sorted(c for c, vs in tour.items() if vs == {"Rejected"})
    pairs = {(x["used"], x["revoke"]) for x in auth_rows if x["srkSet"] != 0}
    if len(pairs) != 64:
        raise Machinery(f"the model covers {len(pairs)} used_srk_id x srk_revoke_mask pairs, not 64")
    say(f"[C06] AhabRomMC: {mc1.distinct} states, {len(auth_rows)} untampered shapes (64 used x revoke pairs), tour over {len(tour)} region classes "
        f"({len(must_reject)} must be rejected) {v.timer.s()}s")

    # ---- MC + GEN 2: layout rules and update_fields history
    acts2 = ("Update1", "Export1", "Update2", "Export2", "Parse", "Update3", "Export3", "Emit")
    mc2 = tlc.mc("C06", "AhabLayoutMC", "AhabLayoutMC.cfg", env={"MC_FULL": "0" if quick else "1"}, heap="8g", workers=4, require_actions=acts2, timeout=900)
    v.add_mc(mc2)
    lay_rows = sorted(mc2.json_prints(), key=lambda x: json.dumps(x, sort_keys=True))
    if len(lay_rows) < 100:
        raise Machinery(f"AhabLayoutMC emitted only {len(lay_rows)} cases")
    say(f"[C06] AhabLayoutMC: {mc2.distinct} states, {len(lay_rows)} layout cases {v.timer.s()}s")

    # ---- concretise
    cases = []
    for k, row in enumerate(auth_rows):
        cases.append(auth_case(row, fams, k, len(cases)))
    for k, row in enumerate(lay_rows):
        cases.append(layout_case(row, fams, k, len(cases)))
    n_random = 100 if quick else 2000
    for k in range(n_random):
        cases.append(random_case(r, fams, len(cases), history=(k % 4 == 0), origin="random"))
    tc = tamper_cases(fams, tier, len(cases))
    cases += tc
    for k, c in enumerate(cases):
        c["id"] = str(c["id"])
        c["check_schema"] = k % 8 == 0 or c.get("origin") == "tamper"
    cases_by_id = {c["id"]: c for c in cases}
    say(f"[C06] {len(cases)} cases: {len(auth_rows)} from AhabRomMC, {len(lay_rows)} from AhabLayoutMC, {n_random} seeded random, {len(tc)} tamper hosts")

    # ---- canary (before the bulk): one known-good trace accepted, the same trace with one corrupted field rejected.
    # The good traces are frozen (anchors/C06/canary.json, recorded on the unchanged tree): the canary tests the binding of
    # spec and TLC, it must not depend on what the SPSDK under test does.
    can = load_canary(tc[0])
    good = can["rom"]
    bad1, bad2, bad3 = (json.loads(json.dumps(good)) for _ in range(3))
    good["id"], bad1["id"], bad2["id"], bad3["id"] = "canary-good", "canary-bad-hash", "canary-bad-range", "canary-bad-offset"
    next(e for e in bad1["ev"] if e["ev"] == "ImageEntry")["hashOk"] = False
    next(e for e in bad2["ev"] if e["ev"] == "VerifySignature")["signedTo"] -= 8
    next(e for e in bad3["ev"] if e["ev"] == "ContainerHeader" and e["ci"] == 1)["at"] += 1024
    sig_at = next(e for e in good["ev"] if e["ev"] == "VerifySignature")["sigAt"]

    def observer(tid, at, reported):
        return {"id": tid, "exp": good["exp"], "ev": [{"ev": "Resume", "ref": 1}, {"ev": "Tamper", "at": at, "bit": 0, "cls": "canary"},
                                                      {"ev": "SpsdkTamperVerdict", "reported": reported, "how": "canary", "crash": ""}]}
    batch = [{"id": t["id"], "exp": t["exp"], "ev": t["ev"]} for t in (good, bad1, bad2, bad3)]
    batch += [observer("canary-obs-good", sig_at - 1, True), observer("canary-obs-unreported", sig_at - 1, False),
              observer("canary-obs-outside", sig_at + 1, True)]  # sig_at + 1: header of the signature, not an authenticated byte
    rej, _ = tlc.tv("C06", "AhabRomTrace", batch)
    if set(rej) != {"canary-bad-hash", "canary-bad-range", "canary-bad-offset", "canary-obs-unreported", "canary-obs-outside"}:
        raise Machinery(f"canary failed: rejected {sorted(rej)} (expected the five corrupted traces only)")
    lgood = can["layout"]
    lbad = json.loads(json.dumps(lgood))
    lgood["id"], lbad["id"] = "canary-layout-good", "canary-layout-bad"
    lbad["ev"][-1]["p"]["conts"][0]["img"][0]["off"] += 1024
    rej, _ = tlc.tv("C06", "AhabLayoutTrace", [lgood, lbad], env={"MODE": "R"})
    if set(rej) != {"canary-layout-bad"}:
        raise Machinery(f"layout canary failed: rejected {sorted(rej)}")
    v.extra["canary"] = ("frozen good export trace and observer trace accepted; hashOk=false / signed range 8 bytes short / container 1 off its slot / "
                         "unreported tamper / tamper outside the authenticated intervals rejected; moved offset in the layout history rejected")
    say(f"[C06] canary ok {v.timer.s()}s")

    # ---- execute on the real code
    outs = pmap(build, cases, chunksize=2)
    stats = {"accepted": 0, "refused_ok": 0, "tamper_rejected": 0, "tamper_reported": 0, "tamper_classes": set(), "layout_ok": 0,
             "ispec_conformant": 0, "drift_examples": []}
    agg = {}
    for o in outs:
        for k2, n in o["stats"].items():
            agg[k2] = agg.get(k2, 0) + n
    v.count(agg.get("built", 0) + agg.get("refused", 0) + agg.get("tamper_walks", 0) + agg.get("tamper_obs", 0))
    say(f"[C06] executed {v.timer.s()}s: {agg}")

    # ---- TLC decides (chunks keep an observer trace together with the export it refers to)
    chunk, chunks = [], []
    for o in outs:
        chunk += o["traces"]
        if len(chunk) > 6000:
            chunks.append(chunk)
            chunk = []
    if chunk:
        chunks.append(chunk)
    for ch in chunks:
        decide(v, ch, cases_by_id, stats)
    say(f"[C06] ROM traces decided {v.timer.s()}s: accepted {stats['accepted']}, refused as required {stats['refused_ok']}, "
        f"tampered walks rejected {stats['tamper_rejected']}, tampering reported by SPSDK {stats['tamper_reported']} of {agg.get('tamper_obs', 0)}, "
        f"invalid exports reported by SPSDK's verifier {stats.get('invalid_reported', 0)}")
    decide_layout(v, [o["layout"] for o in outs if o.get("layout")], cases_by_id, stats)
    say(f"[C06] layout histories decided {v.timer.s()}s: {stats['layout_ok']} conform, I-spec conformant {stats['ispec_conformant']}")

    # ---- the tour of the model has to be executed: every region class the model rejects was tampered with on real bytes
    missing = [c for c in must_reject if not any(f == c or f.startswith(c + ".") for f in stats["tamper_classes"])]
    if missing:
        raise Machinery(f"region classes of the model without a real tampered walk: {missing} (executed: {sorted(stats['tamper_classes'])})")
    if not v.violations:
        if stats["accepted"] < len(cases) // 3:
            raise Machinery(f"only {stats['accepted']} of {len(cases)} cases produced an accepted export")
        need = {"ContainerHeader", "ImageEntry", "SignatureBlock", "SrkTable", "VerifySignature", "Blob", "ContainerEnd", "Accept", "SpsdkRoundTrip",
                "ExportRefused", "Resume", "Tamper", "SpsdkTamperVerdict"}  # InvalidExported fires only if SPSDK exports a container the ROM must refuse
        vac = need - stats.get("consumed_events", set())
        if vac:
            raise Machinery(f"actions of AhabRomTrace that no accepted trace exercised: {sorted(vac)}")

    for o in outs:
        for t in o["traces"]:
            if t["kind"] == "export" and len(t["ev"]) > 6:
                v.sample({"case": {k2: x for k2, x in o["case"].items() if k2 != "gen"}, "trace": t["ev"][:4] + ["..."] + t["ev"][-2:]}, limit=3)
                break
        if len(v.cov["samples"]) >= 3:
            break
    obs = next((t for o in outs for t in o["traces"] if t["kind"] == "observe"), None)
    if obs:
        v.sample(obs)
    v.extra.update(tamper_rejected=stats["tamper_rejected"], tamper_classes=sorted(stats["tamper_classes"]), tamper_reported_by_spsdk=stats["tamper_reported"],
                   tamper_observed=agg.get("tamper_obs", 0), trace_actions_exercised=sorted(stats.get("consumed_events", set())), invalid_exports_reported=stats.get("invalid_reported", 0), skipped_resource=agg.get("skipped_resource", 0), exports_accepted=stats["accepted"],
                   exports_refused_as_required=stats["refused_ok"], layout_histories=stats["layout_ok"], ispec_conformant=stats["ispec_conformant"],
                   drift_examples=stats["drift_examples"], families=[f"{f['family']}/{f['revision']}" for f in fams],
                   trusted_base=["hashlib (SHA-256/384/512, SM3 via OpenSSL)", "cryptography: ECDSA verify, RSA-PSS / PKCS#1 v1.5 verify, AES-CBC decrypt, "
                                 "PEM public key loading - called directly, never through spsdk.crypto", "struct", "TLC 2 + CommunityModules (Json, IOUtils)"],
                   checker_cmd="TLC AhabRomMC, AhabLayoutMC (lemmas + case emission); TLC AhabRomTrace, AhabLayoutTrace (decide every trace)")
    v.cov["rule"] = (
        f"cases = every untampered shape of AhabRomMC (container version x unsigned pre-container x srk set x all 64 used_srk_id/srk_revoke_mask pairs x "
        f"key type x image count x encrypted x size-extended) + every case of AhabLayoutMC (structure x target memory x stored size x offset mode x collision) "
        f"+ {n_random} seeded random cases over all {len(fams)} family/revision pairs of the database (1..max containers, 1..max images, sizes around the "
        "alignments, image_size_alignment, gaps, core ids, image types, hash types, boot flags, metadata, versions, key types, blobs); every case is built with "
        "AHABImage.load_from_config/update_fields/export, walked by the executor, observed by SPSDK's own parse/verify; distinct by expectation record; "
        "non-trivial = the export was accepted by the automaton (or refused where the spec demands a refusal)")
    v.assumptions += ASSUMPTIONS
    return v.finish()


def replay(path):
    import_spsdk()
    w = json.load(open(path))["witness"]
    case = w["case"]
    if case is None:
        raise Machinery("replay file without a case")
    out = build(case)
    traces = out["traces"]
    resolve_refs(traces)
    rej, _ = tlc.tv("C06", "AhabRomTrace", [{"id": t["id"], "exp": t["exp"], "ev": t["ev"]} for t in traces])
    bad = {i: x for i, x in rej.items() if next(t for t in traces if t["id"] == i)["kind"] != "tamper"}
    lrej = {}
    if out.get("layout"):
        lrej, _ = tlc.tv("C06", "AhabLayoutTrace", [out["layout"]], env={"MODE": "R"})
    want = w.get("trace", {}).get("id")
    hit = {i: x for i, x in list(bad.items()) + list(lrej.items()) if want is None or i == want or i.split("/")[0] == str(want).split("/")[0]}
    if hit:
        say(f"VIOLATION property=C06 replay={path}")
        for i, (m, ln, evn) in hit.items():
            say(f"  {i}: rejected at event {m + 1} ({evn})")
        return 1
    say("replay: every trace of the case is accepted by the spec")
    return 0
