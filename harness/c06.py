"""C06 - AHAB image: containers verify, images hash and decrypt, offsets never collide.

spec/C06/AhabRom.tla     R-spec: acceptance automaton of the boot ROM / ELE over the file (clauses <Step>OK / <Step>Nx)
spec/C06/AhabRomMC.tla   MC + GEN: abstract builder + tamper marker; lemmas (untampered accepted for every non-revoked
                         used/revoke pair, revoked rejected, every tampered authenticated region rejected, coverage);
                         emits the (srk set, used, revoke) pairs and the (field class -> verdict) tour
spec/C06/AhabRomTrace.tla TV: decides every walk of a real export, every tampered walk, and the third observer (SPSDK's own
                         parse / verify()) on valid and on tampered files
spec/C06/AhabLayout.tla  offsets: fixed container slots, documented automatic assignment, NoOverlap, update_fields history; MC
                         lemmas + GEN of layout cases (with the predicted collision flag); AhabLayoutTrace.tla decides the
                         projection of the real objects along  load -> update -> export -> update -> export -> parse -> update -> export

Python only drives SPSDK (AHABImage.load_from_config / update_fields / export / parse / verify), walks the bytes with the
executor lib/ahab_rom.py (trusted base: hashlib, `cryptography` primitives) and records events; TLC decides.
"""
import json
import os
import struct

from lib import ahab_rom as AR
from lib import tlc
from lib.common import ROOT, Machinery, import_spsdk, rng, say, scratch, sha
from lib.par import pmap
from lib.verdict import Verdict

PROP = "C06"
KEYS = os.path.join(ROOT, "keys", "ahab")
KEY_TYPES = ["ecc256", "ecc384", "ecc521", "rsa2048", "rsa3072", "rsa4096"]
HASH_LABEL = {0: "sha256", 1: "sha384", 2: "sha512", 3: "sm3"}
GDET = ["disabled", "enabled_eleapi", "enabled"]
# (family, revision, container version) - every AHAB family of the database with its revisions is listed by families()
MEMORIES = ["standard", "nand_2k", "nand_4k", "serial_downloader"]

_pool = {}


def pool(kt):
    if kt not in _pool:
        _pool[kt] = [AR.load_pub_numbers(os.path.join(KEYS, f"srk{i}_{kt}.pub")) for i in range(4)]
    return _pool[kt]


# ------------------------------------------------------------------ the families of the database
def families():
    """[(family, revision, [container versions], max containers, max images, cores: [(label, tag, [(type label, tag)])])]"""
    from spsdk.image.ahab.ahab_data import create_chip_config
    from spsdk.image.ahab.ahab_iae import ImageArrayEntry
    from spsdk.image.ahab.ahab_image import AHABImage
    from spsdk.utils.database import get_db

    out = []
    for fam in AHABImage.get_supported_families():
        for rev in get_db(fam).device.revisions.revision_names():
            cc = create_chip_config(fam, rev)

            class _C:  # minimal stand-in for the container chip config: get_image_types only reads .base
                base = cc

            cores = []
            for label, tag in zip(cc.core_ids.labels(), cc.core_ids.tags()):
                types = ImageArrayEntry.get_image_types(_C, tag)
                cores.append((label, tag, [(l, t) for l, t in zip(types.labels(), types.tags()) if t < 16]))
            out.append({"family": fam, "revision": rev, "cvers": list(cc.container_types), "max_cont": cc.containers_max_cnt,
                        "max_img": cc.images_max_cnt, "cores": [c for c in cores if c[1] < 16 and c[2]],
                        "size_align": cc.container_image_size_alignment})
    return out


# ------------------------------------------------------------------ a case -> SPSDK configuration, expectation, secrets
def image_data(case_id, ci, i, n):
    return rng(PROP, "img", case_id, ci, i).randbytes(n)


def to_config(case, workdir):
    cfg = {"family": case["family"], "revision": case["revision"], "target_memory": case["memory"], "output": "out.bin", "containers": []}
    if len(case["cvers"]) > 1:
        cfg["container_version"] = case["cver"]
    for ci, c in enumerate(case["cont"]):
        cc = {"srk_set": c["srk_set"], "used_srk_id": c["used"], "srk_revoke_mask": hex(c["revoke"]), "fuse_version": c["fuse"],
              "sw_version": c["sw"], "images": []}
        if case["cver"] == 1:
            cc["gdet_runtime_behavior"] = GDET[c["gdet"]]
        if c["srk_set"] != "none":
            cc["signing_key"] = os.path.join(KEYS, f"srk{c['used']}_{c['kt']}.pem")
            cc["srk_table"] = {"flag_ca": False, "srk_array": [os.path.join(KEYS, f"srk{i}_{c['kt']}.pub") for i in range(4)]}
        if c.get("blob"):
            cc["blob"] = {"dek_key_size": c["blob"]["bits"], "dek_key": c["blob"]["dek"], "key_identifier": c["blob"]["key_id"]}
        for i, im in enumerate(c["img"]):
            path = os.path.join(workdir, f"img_{ci}_{i}.bin")
            with open(path, "wb") as f:
                f.write(image_data(case["id"], ci, i, im["len"]))
            e = {"image_path": path, "image_offset": im["off"], "load_address": hex(im["load"]), "entry_point": hex(im["entry"]),
                 "image_type": im["type"][0], "core_id": im["core"][0], "is_encrypted": im["enc"], "boot_flags": im["boot"],
                 "meta_data_start_cpu_id": im["meta"][0], "meta_data_mu_cpu_id": im["meta"][1], "meta_data_start_partition_id": im["meta"][2],
                 "hash_type": HASH_LABEL[im["ht"]]}
            if im.get("isa"):
                e["image_size_alignment"] = im["isa"]
            if im.get("gap"):
                e["gap_after_image"] = im["gap"]
            cc["images"].append(e)
        cfg["containers"].append({"container": cc})
    return cfg


def expectation(case):
    cont = []
    for c in case["cont"]:
        b = c.get("blob")
        cont.append({
            "srkSet": 0 if c["srk_set"] == "none" else 2, "used": c["used"], "revoke": c["revoke"], "gdet": c["gdet"], "sw": c["sw"],
            "fuse": c["fuse"], "kt": c["kt"] if c["srk_set"] != "none" else "none", "blob": bool(b), "keyBits": b["bits"] if b else 0,
            "keyId": AR.w2(b["key_id"]) if b else [0, 0],
            "img": [{"len": im["len"], "ht": im["ht"], "enc": im["enc"], "off": im["off"], "type": im["type"][1], "core": im["core"][1],
                     "boot": im["boot"], "meta": AR.w2(im["meta"][0] | im["meta"][1] << 10 | im["meta"][2] << 20),
                     "load": AR.w4(im["load"]), "entry": AR.w4(im["entry"])} for im in c["img"]]})
    return {"cver": case["cver"], "maxImg": case["max_img"], "refuse": bool(case.get("refuse")), "cont": cont}


def secrets(case, srk_hash=None):
    sec = {"cver": case["cver"], "max_cont": case["max_cont"], "images": {}, "dek": {}, "pool": {}, "spsdk_srk_hash": srk_hash or {}}
    for ci, c in enumerate(case["cont"]):
        for i, im in enumerate(c["img"]):
            sec["images"][(ci, i)] = image_data(case["id"], ci, i, im["len"])
        if c.get("blob"):
            sec["dek"][ci] = bytes.fromhex(c["blob"]["dek"])
        if c["srk_set"] != "none":
            sec["pool"][ci] = pool(c["kt"])
    return sec


def case_class(case):
    """Input class of a case for finding keys (no concrete numbers)."""
    c0 = max(case["cont"], key=lambda c: (c["srk_set"] != "none", len(c["img"])))
    feats = [f"v{case['cver']}", c0["kt"] if c0["srk_set"] != "none" else "unsigned"]
    if any(im["enc"] for c in case["cont"] for im in c["img"]):
        feats.append("enc")
    if any(im.get("isa") for c in case["cont"] for im in c["img"]):
        feats.append("size-ext")
    if any(im["off"] for c in case["cont"] for im in c["img"]):
        feats.append("explicit-off")
    return "+".join(feats)


# ------------------------------------------------------------------ driving SPSDK
def projection(ahab):
    """Offsets / sizes / lock flags of the real object (AhabLayoutTrace)."""
    return {"conts": [{"at": c.chip_config.container_offset, "locked": bool(c.chip_config.locked), "len": c.length if c.length > 0 else 0,
                       "img": [{"off": im.image_offset, "size": im.image_size} for im in c.image_array]} for c in ahab.ahab_containers]}


def spsdk_verdict(case, data):
    """Third observer: parse + verify() of SPSDK on a (possibly corrupted) file."""
    from spsdk.exceptions import SPSDKError
    from spsdk.image.ahab.ahab_image import AHABImage

    try:
        a = AHABImage(case["family"], case["revision"], case["memory"])
        a.parse(data)
        v = a.verify()
        return {"reported": bool(v.has_errors), "how": "verify-error" if v.has_errors else "clean", "crash": ""}, a
    except SPSDKError:
        return {"reported": True, "how": "parse-error", "crash": ""}, None
    except Exception as e:  # noqa: BLE001 - a crash of the verifier is an observation
        return {"reported": False, "how": "crash", "crash": type(e).__name__}, None


def build(case):
    """Run one case on the real code. Returns {"traces": [...], "layout": trace|None, "stats": {...}, "data": bytes|None}."""
    from spsdk.exceptions import SPSDKError
    from spsdk.image.ahab.ahab_image import AHABImage

    work = os.path.join(scratch(), "c06", str(case["id"]))
    os.makedirs(work, exist_ok=True)
    exp = expectation(case)
    cls = case_class(case)
    out = {"traces": [], "layout": None, "stats": {"built": 0, "refused": 0, "tamper_walks": 0, "tamper_obs": 0}, "case": case}
    hist = []  # layout history events
    cfg = to_config(case, work)
    try:
        ahab = AHABImage.load_from_config(cfg)
        hist.append({"ev": "Load", "p": projection(ahab)})
        ahab.update_fields()
        hist.append({"ev": "Update", "p": projection(ahab)})
        data = bytes(ahab.export())
        hist.append({"ev": "Export", "ok": True, "p": projection(ahab), "fileLen": len(data)})
    except SPSDKError as e:
        out["stats"]["refused"] += 1
        out["traces"].append({"id": f"{case['id']}/export", "kind": "export", "cls": cls, "exp": exp,
                              "ev": [{"ev": "ExportRefused", "exc": type(e).__name__, "msg": str(e)[-300:].replace("\x1b", "")}]})
        hist.append({"ev": "Export", "ok": False, "p": hist[-1]["p"] if hist else {"conts": []}, "fileLen": 0})
        out["layout"] = {"id": f"{case['id']}/layout", "lay": layout_params(case), "ev": hist}
        return out
    except Exception as e:  # noqa: BLE001 - decided by the spec: there is no action for a crash
        out["traces"].append({"id": f"{case['id']}/export", "kind": "export", "cls": cls, "exp": exp,
                              "ev": [{"ev": "ExportCrashed", "exc": type(e).__name__, "msg": str(e)[-300:]}]})
        return out
    out["stats"]["built"] += 1
    # ---- what SPSDK reports as SRK hash (fuse value) for the built object
    srk_hash = {}
    for ci, c in enumerate(ahab.ahab_containers):
        if case["cont"][ci]["srk_set"] != "none":
            srk_hash[ci] = [bytes(c.get_srk_hash(0))]
    # ---- third observer on the valid export
    obs = {"ev": "SpsdkRoundTrip", "parseOk": False, "equalObj": False, "reexportEq": False, "verifyClean": False, "preParseClean": False, "crash": ""}
    parsed = None
    try:
        verdict, parsed = spsdk_verdict(case, data)
        obs["crash"] = verdict["crash"]
        obs["parseOk"] = parsed is not None
        obs["verifyClean"] = parsed is not None and not verdict["reported"]
        if parsed is not None:
            obs["equalObj"] = parsed.ahab_containers == ahab.ahab_containers
            obs["reexportEq"] = bytes(parsed.export()) == data
            obs["preParseClean"] = not AHABImage.pre_parse_verify(data).has_errors
            for ci, c in enumerate(parsed.ahab_containers):
                if ci in srk_hash:
                    srk_hash[ci].append(bytes(c.get_srk_hash(0)))
    except SPSDKError as e:
        obs["crash"] = ""
        obs["msg"] = str(e)[-200:]
    except Exception as e:  # noqa: BLE001
        obs["crash"] = type(e).__name__
    sec = secrets(case, srk_hash)
    walk = AR.walk(data, sec)
    out["traces"].append({"id": f"{case['id']}/export", "kind": "export", "cls": cls, "exp": exp, "ev": walk + [obs]})
    out["data_sha"] = sha(data.hex())
    # ---- history: update again, export again; parse, update, export
    if case.get("history"):
        try:
            ahab.update_fields()
            hist.append({"ev": "Update", "p": projection(ahab)})
            data2 = bytes(ahab.export())
            hist.append({"ev": "Export", "ok": True, "p": projection(ahab), "fileLen": len(data2)})
            out["traces"].append({"id": f"{case['id']}/export2", "kind": "export", "cls": cls, "exp": exp, "ev": AR.walk(data2, sec)})
            if parsed is not None:
                hist.append({"ev": "Parse", "p": projection(parsed)})
                parsed.update_fields()
                hist.append({"ev": "Update", "p": projection(parsed)})
                data3 = bytes(parsed.export())
                hist.append({"ev": "Export", "ok": True, "p": projection(parsed), "fileLen": len(data3)})
                out["traces"].append({"id": f"{case['id']}/export3", "kind": "export", "cls": cls, "exp": exp, "ev": AR.walk(data3, sec)})
        except SPSDKError as e:
            hist.append({"ev": "Export", "ok": False, "p": projection(ahab), "fileLen": 0, "msg": str(e)[-200:]})
        except Exception as e:  # noqa: BLE001
            hist.append({"ev": "Crash", "exc": type(e).__name__})
    out["layout"] = {"id": f"{case['id']}/layout", "lay": layout_params(case), "ev": hist}
    # ---- tamper runs
    n_per = case.get("tamper", 0)
    if n_per:
        r = rng(PROP, "tamper", case["id"])
        fl = AR.fields(data, case["cver"], case["max_cont"])
        by_cls = {}
        for f in fl:
            by_cls.setdefault(f[0], []).extend(AR.bit_positions(f))
        want = case.get("tamper_classes")
        for fcls in sorted(by_cls):
            if want is not None and fcls not in want:
                continue
            pos = by_cls[fcls]
            chosen = pos if len(pos) <= n_per else r.sample(pos, n_per)
            for k, (at, bit) in enumerate(chosen):
                bad = bytearray(data)
                bad[at] ^= 1 << bit
                bad = bytes(bad)
                if k < case.get("tamper_walks", 1):
                    out["traces"].append({"id": f"{case['id']}/tamper/{fcls}/{at}.{bit}", "kind": "tamper", "cls": cls, "fcls": fcls, "exp": exp,
                                          "ev": AR.walk(bad, sec)})
                    out["stats"]["tamper_walks"] += 1
                if declared_sizes_too_big(bad, case["cver"], case["max_cont"]):
                    out["stats"]["skipped_resource"] = out["stats"].get("skipped_resource", 0) + 1
                    continue  # SPSDK's verifier allocates and hashes `image size` bytes: not run on multi-megabyte garbage sizes
                verdict, _ = spsdk_verdict(case, bad)
                out["traces"].append({"id": f"{case['id']}/observe/{fcls}/{at}.{bit}", "kind": "observe", "cls": cls, "fcls": fcls, "exp": exp,
                                      "ref_id": f"{case['id']}/export",
                                      "ev": [{"ev": "Resume", "ref": 0}, {"ev": "Tamper", "at": at, "bit": bit, "cls": fcls},
                                             dict(verdict, ev="SpsdkTamperVerdict")]})
                out["stats"]["tamper_obs"] += 1
    return out


def declared_sizes_too_big(data, cver, max_cont, limit=8 << 20):
    """True if some image array entry SPSDK would read from this (corrupted) file declares more than `limit` bytes."""
    slot = AR.slot_size(cver)
    for ci in range(max_cont):
        c = ci * slot
        if c + 16 > len(data):
            break
        n_img = data[c + 11]
        for i in range(n_img):
            o = c + 16 + 128 * i
            if o + 8 > len(data):
                break
            if struct.unpack_from("<I", data, o + 4)[0] > limit:
                return True
    return False


def layout_params(case):
    return {"cver": case["cver"], "slot": AR.slot_size(case["cver"]), "memory": case["memory"], "refuse": bool(case.get("refuse")),
            "explicit": [[im["off"] for im in c["img"]] for c in case["cont"]]}


# ------------------------------------------------------------------ seeded concretisation of abstract cases
def container_len(cver, n_img, kt, blob_bits):
    """Length of a container by the documented format (used to keep generated cases inside their slots)."""
    sb = 16
    if kt != "none":
        par = {"ecc256": 64, "ecc384": 96, "ecc521": 132, "rsa2048": 260, "rsa3072": 388, "rsa4096": 516}[kt]
        sig = {"ecc256": 64, "ecc384": 96, "ecc521": 132, "rsa2048": 256, "rsa3072": 384, "rsa4096": 512}[kt]
        srk = (8 + 4 + 4 * (12 + 64) + 8 + par) if cver == 2 else 4 + 4 * (12 + par)
        al = (lambda x: x) if cver == 2 else (lambda x: (x + 7) // 8 * 8)
        sb = al(al(16 + srk) + 8 + sig)
    if blob_bits:
        sb = (sb if cver == 2 else (sb + 7) // 8 * 8) + 56 + blob_bits // 8
    return 16 + 128 * n_img + sb


def random_image(r, fam, **over):
    core = r.choice(fam["cores"])
    typ = r.choice(core[2])
    ln = r.choice([1, 4, 5, 16, 100, 511, 512, 513, 700, 1024, 1025, 1536, 3000, 4096, 5000])
    load = r.choice([0, 0x1000, 0x2000_0000, 0x8000_0000, 0xFFFF_FFF0, 0x1_0000_0000, 0xFFFF_FFFF_FFFF_FFF0, r.getrandbits(64)])
    im = {"len": ln, "ht": r.choice([0, 1, 2, 0, 1, 2, 3]), "enc": False, "off": 0, "type": [typ[0], typ[1]], "core": [core[0], core[1]],
          "boot": r.choice([0, 0, 1, 0x7FFF, r.getrandbits(15)]),
          "meta": [r.choice([0, 1, 0x3FF, r.getrandbits(10)]), r.choice([0, 0x3FF, r.getrandbits(10)]), r.choice([0, 0xFF, r.getrandbits(8)])],
          "load": load, "entry": r.choice([load, 0, (load + 0x400) & 0xFFFF_FFFF_FFFF_FFFF, r.getrandbits(64)]),
          "isa": r.choice([None, None, None, 0x300, 0x500, 0x1000, 3, 0x2800]), "gap": r.choice([0, 0, 0, 0x400, 0x1000])}
    im.update(over)
    return im


def random_container(r, fam, cver, signed, last, **over):
    kts = KEY_TYPES if last else ["ecc256", "ecc384", "ecc521"]  # an RSA SRK table does not fit into a version-1 slot
    if cver == 2:
        kts = KEY_TYPES
    c = {"srk_set": "oem" if signed else "none", "kt": r.choice(kts) if signed else "none", "used": r.randrange(4) if signed else 0, "revoke": 0,
         "gdet": r.randrange(3) if cver == 1 else 0, "sw": r.choice([0, 1, 0xFFFF, r.getrandbits(16)]), "fuse": r.choice([0, 1, 0xFF, r.getrandbits(8)]),
         "blob": None, "img": []}
    if signed:
        allowed = [m for m in range(16) if not (m >> c["used"]) & 1]
        c["revoke"] = r.choice([0, r.choice(allowed), 15 & ~(1 << c["used"])])
    c.update(over)
    return c


def random_case(r, fams, cid, **over):
    fam = over.pop("fam", None) or r.choice(fams)
    cver = over.pop("cver", None) or r.choice(fam["cvers"])
    n_cont = over.pop("n_cont", None) or r.choice([1, 1, 2, 2, fam["max_cont"]])
    case = {"id": cid, "family": fam["family"], "revision": fam["revision"], "memory": r.choice(MEMORIES), "cver": cver, "cvers": fam["cvers"],
            "max_cont": fam["max_cont"], "max_img": fam["max_img"], "cont": [], "history": False, "tamper": 0}
    for ci in range(n_cont):
        last = ci == n_cont - 1
        c = random_container(r, fam, cver, signed=r.random() < 0.7, last=last)
        n_img = r.choice([1, 1, 2, 2, 3, fam["max_img"]]) if last else r.choice([1, 2, 3])
        enc_any = r.random() < 0.3
        if enc_any:
            bits = r.choice([128, 192, 256])
            c["blob"] = {"bits": bits, "dek": r.randbytes(bits // 8).hex(), "key_id": r.choice([0, 1, 0xFFFFFFFF, r.getrandbits(32)])}
        for i in range(n_img):
            enc = enc_any and r.random() < 0.7
            im = random_image(r, fam, enc=enc)
            if enc:
                im["isa"] = None  # size extension of an encrypted image: outside the asserted domain (see assumptions)
            c["img"].append(im)
        # keep the container inside its slot when another one follows
        while not last and container_len(cver, len(c["img"]), c["kt"], c["blob"]["bits"] if c["blob"] else 0) > AR.slot_size(cver):
            c["img"].pop()
        case["cont"].append(c)
    case.update(over)
    return case
