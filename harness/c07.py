"""C07 - HAB image: layout round trip, the CSF authenticates its blocks, encryption inverts.

TLC (HabRomMC) checks the acceptance automaton + the documented layout in small scope (untampered accepted, tampers and design
mutants rejected, coverage), TLC (HabGen) enumerates the abstract cases, this module only BUILDS them through
HabContainer.load_from_config, WALKS the exported bytes along the automaton (executor: asn1crypto parsing + `cryptography` /
hashlib primitives, never spsdk.crypto) and logs one event per step with every number used; TLC (HabRomTrace) decides every trace.

The XMCD kind is a dimension of the case space (HabLayout!XmcdKinds: the five block shapes of RT116x / RT117x + a raw header with
arbitrary bytes): every kind x plain / authenticated / encrypted x source of the block (golden block of NXP under anchors/C07/xmcd,
block built by SPSDK's XMCD class from its own template, header of the kind + random bytes).  The round-trip clause (ParseBackOK)
demands that SPSDK's parser recovers a DCD / XMCD segment at the place and of the size the ROM read, with the same header fields and
bytes, and that the parsed container exports to the image it was parsed from.

HISTORIES (spec/C07/HabHist.tla): the property speaks of every image SPSDK builds, also of the second and third image one Python
process builds.  HabGen emits histories of 2..3 builds from two projects "a" / "b" - two PKI trees with the same file names and
different keys (keys/hab/<tree>, keys/hab/<tree>_b), each with its own configuration directory = search path - whose
configurations name keys and certificates by the same relative strings.  run_hist builds a history in ONE process; the executor
walks every image with the context of ITS project; the history is one trace (images separated by NextBuild events) that
HabRomTrace judges image by image, each against its own inputs, from fresh ROM registers.
"""
import hashlib
import json
import os
import struct

from lib import hab_twins as hab_keys  # same interface as lib.hab_keys, knows the twin trees (<tree>_b: same file names, other keys)
from lib import tlc
from lib.common import Machinery, import_spsdk, rng, say, scratch, seed
from lib.par import pmap
from lib.verdict import Verdict

PROP = "C07"
STARTS = [0x20001C00, 0x80001000, 0x60000000, 0x2024FC00, 0x00001000, 0x30000000]
SEC = {"Header": 20, "InstallSRK": 21, "InstallCSFK": 22, "InstallNOCAK": 23, "AuthenticateCSF": 24, "InstallKey": 25,
       "AuthenticateData": 26, "SecretKey": 27, "Decrypt": 28, "SetEngine": 31, "Unlock": 33}
BIGN = 1 << 30


def lim(a):
    return [(a >> 16) & 0xFFFF, a & 0xFFFF]


def n31(x):
    return x if 0 <= x < BIGN else BIGN


def be16(b, o):
    return struct.unpack_from(">H", b, o)[0]


def be32(b, o):
    return struct.unpack_from(">I", b, o)[0]


# ====================================================================================== concretisation of an abstract case
def make_dcd(n, r, ver=0x41):
    """A DCD of exactly n bytes with header version `ver`: header, one Write Data command, optionally one Check Data command, NOPs.  The most significant
    byte of every value is even so that no word can imitate a Thumb reset vector for SPSDK's heuristic application finder."""
    assert n % 4 == 0 and n >= 12
    rest = n - 4
    chk = b""
    if rest >= 40 and r.random() < 0.5:  # CHK_DAT, 4 bytes wide, ops 0..3, address + mask (no count)
        chk = bytes([0xCF, 0x00, 0x0C, (r.randrange(4) << 3) | 4]) + struct.pack(">II", 0x400D8000 + 4 * r.randrange(0x100), 1 << r.randrange(31))
    room = rest - len(chk)
    z = 0 if (room - 4) % 8 == 0 else 1
    k = (room - 4 * z - 4) // 8
    body = b""
    if k >= 1:
        body = bytes([0xCC]) + struct.pack(">H", 4 + 8 * k) + bytes([0x04])
        for _ in range(k):
            body += struct.pack(">II", 0x400A0000 + 4 * r.randrange(0, 0x1000), (r.randrange(0, 0x40) << 25) | r.getrandbits(24))
    body += chk
    body += bytes([0xC0, 0x00, 0x04, 0x00]) * ((rest - len(body)) // 4)
    out = bytes([0xD2]) + struct.pack(">H", n) + bytes([ver]) + body
    assert len(out) == n, (len(out), n)
    return out


DCD_TAGS = {0xCC: "wr", 0xCF: "chk", 0xC0: "nop", 0xB2: "unlk"}


def render_dcd(cmds, ver, r):
    """Bytes of the abstract DCD of HabGen (DcdCmdsOf: a sequence of [tag, len]) with header version `ver`: Write Data commands with
    every operation (write value / clear bits / set bits ...) and 1, 2, 4-byte accesses, Check Data commands with every operation,
    with a count >= 1 where the command has the count word, NOPs, Unlock commands with one feature word.  Values fit the access width."""
    body = b""
    for i, c in enumerate(cmds):
        tag, ln = c["tag"], c["len"]
        w = r.choice([1, 2, 4])
        fit = (1 << (8 * w)) - 1
        if tag == 0xCC:
            par = (((i + r.randrange(2)) % 4) << 3) | w
            words = b"".join(struct.pack(">II", 0x400A0000 + 4 * r.randrange(0x1000), r.getrandbits(31) & fit) for _ in range((ln - 4) // 8))
        elif tag == 0xCF:
            par = (((i + r.randrange(2)) % 4) << 3) | w
            words = struct.pack(">II", 0x400D8000 + 4 * r.randrange(0x100), (1 << r.randrange(31)) & fit or 1)
            if ln == 16:
                words += struct.pack(">I", r.choice([1, 2, 5, 100, 0x10000]))
        elif tag == 0xC0:
            par, words = 0, b""
        elif tag == 0xB2:
            par = r.choice([0x1E, 0x1D, 0x0C])  # SNVS, CAAM, OCOTP
            words = struct.pack(">I", 1 << r.randrange(3))
        else:
            raise Machinery(f"DCD command tag {tag} of the generator has no rendering")
        cmd = bytes([tag]) + struct.pack(">H", ln) + bytes([par]) + words
        if len(cmd) != ln:
            raise Machinery(f"DCD command {c} rendered in {len(cmd)} bytes")
        body += cmd
    return bytes([0xD2]) + struct.pack(">H", 4 + len(body)) + bytes([ver]) + body


def dcd_cmds(b):
    """Command list [tag, len] of the DCD at the start of b (a plain walk over tag | length | parameter headers, bounded by the length
    of the DCD header and of b; stops at the first command that does not fit).  Total."""
    out = []
    if len(b) < 4:
        return out
    end = min(be16(b, 1), len(b))
    q = 4
    while q + 4 <= end and len(out) < 128:
        ln = be16(b, q + 1)
        out.append({"tag": b[q], "len": ln})
        if ln < 4 or q + ln > end:
            break
        q += ln
    return out


XMCD_SEL = [(0, 0, 0), (1, 0, 0), (0, 0, 1), (0, 1, 0), (1, 0, 1), (1, 1, 0)]  # (interface, instance, block type)


def _no_reset_vector(block):
    """File offset 0x104 = block offset 0xC4 is a place SPSDK's heuristic application finder probes: an even byte there is
    never a Thumb reset vector (assumption of the check, see v.assumptions)."""
    block = bytearray(block)
    if len(block) > 0xC4:
        block[0xC4] &= 0xFE
    return bytes(block)


# XMCD kind (names of HabLayout!XmcdKinds) -> (memory type, configuration type, option size of the simplified FlexSPI block)
XMCD_KIND_CFG = {"fsr_s0": ("flexspi_ram", "simplified", 0), "fsr_s1": ("flexspi_ram", "simplified", 1), "sdram_s": ("semc_sdram", "simplified", None),
                 "sdram_f": ("semc_sdram", "full", None), "fsr_f": ("flexspi_ram", "full", None)}
_xmcd_golden = {}
_xmcd_tmpl = {}


def xmcd_golden(kind):
    """Golden block of that kind (NXP's test data, frozen under anchors/C07/xmcd; checked against its recorded SHA-256)."""
    if kind not in _xmcd_golden:
        from lib.common import ROOT

        base = os.path.join(ROOT, "anchors", "C07", "xmcd")
        m = json.load(open(os.path.join(base, "meta.json")))["blocks"][kind]
        b = open(os.path.join(base, m["file"]), "rb").read()
        if hashlib.sha256(b).hexdigest() != m["sha256"] or len(b) != m["size"]:
            raise Machinery(f"golden XMCD block {kind} does not match anchors/C07/xmcd/meta.json")
        _xmcd_golden[kind] = b
    return _xmcd_golden[kind]


def xmcd_families():
    """HAB families that have an XMCD (database)."""
    from spsdk.image.hab.hab_container import HabContainer
    from spsdk.image.xmcd.xmcd import XMCD

    return sorted(set(HabContainer.get_supported_families()) & set(XMCD.get_supported_families()))


def _xmcd_from_template(arg):
    """The block SPSDK's own XMCD class builds from its configuration template (real path of a user: get-template -> export)."""
    kind, family = arg
    try:
        import io

        from ruamel.yaml import YAML
        from spsdk.image.mem_type import MemoryType
        from spsdk.image.xmcd.xmcd import XMCD, ConfigurationBlockType

        mem, cfgt, optsize = XMCD_KIND_CFG[kind]
        tpl = XMCD.generate_config_template(family, MemoryType.from_label(mem), ConfigurationBlockType.from_label(cfgt))
        cfg = YAML(typ="safe").load(io.StringIO(tpl))
        if optsize == 0:  # FlexSPI RAM simplified with option word 0 only
            cfg["xmcd_settings"]["configOption0"]["optionSize"] = 0
            cfg["xmcd_settings"].pop("configOption1", None)
        return kind, XMCD.load_from_config(cfg).export(), family
    except Exception as x:  # noqa: BLE001 - the XMCD class is not the subject of C07: the case falls back to the golden block
        return kind, None, f"{family}: {type(x).__name__}: {x}"[:200]


def prepare_xmcd(kinds=None):
    """Build the template blocks once (in the parent, before the workers fork).  Family by seed: all HAB families with an XMCD share
    the register files, so one family per run is drawn."""
    kinds = [k for k in (kinds or sorted(XMCD_KIND_CFG)) if k not in _xmcd_tmpl]
    if not kinds:
        return
    fams = xmcd_families()
    if not fams:
        raise Machinery("no HAB family with an XMCD in the database")
    fam = rng(PROP, "xmcd-family").choice(fams)
    for kind, block, note in pmap(_xmcd_from_template, [(k, fam) for k in kinds], chunksize=1):
        _xmcd_tmpl[kind] = (block, note)


def make_xmcd(c, r):
    """XMCD block of the abstract case: (bytes, class name for the finding key, source actually used)."""
    kind, var = c.get("xmcdKind", "raw"), c.get("xmcdVar", "rand")
    if kind == "raw":  # well-formed header of any interface / instance / type + arbitrary configuration bytes
        n = c["cfgLen"]
        iface, inst, btype = XMCD_SEL[c["xmcdSel"]]
        hdr = bytes([n & 0xFF, (btype << 4) | (n >> 8), (iface << 4) | inst, 0xC0])
        return _no_reset_vector(hdr + bytes(r.randrange(256) for _ in range(n - 4))), f"if{iface}-inst{inst}-type{btype}", "rand"
    gold = xmcd_golden(kind)
    src = var
    if var == "tmpl":
        prepare_xmcd([kind])
        block = _xmcd_tmpl[kind][0]
        if block is None:
            block, src = gold, "golden(tmpl failed)"
    elif var == "rand":  # header of the kind (from the golden block), instance by index, arbitrary configuration bytes
        hdr = gold[0:2] + bytes([(gold[2] & 0xF0) | c.get("xmcdInst", 0)]) + gold[3:4]
        block = hdr + bytes(r.randrange(256) for _ in range(len(gold) - 4))
    else:
        block = gold
    return _no_reset_vector(block), f"{kind}-{var}", src


_db_lays = None


def db_lays():
    """(ivtOff, ils) -> [(family, bootDevice)] from SPSDK's database (the documented per-device constants)."""
    global _db_lays
    if _db_lays is None:
        from spsdk.image.hab.hab_container import HabContainer
        from spsdk.utils.database import DatabaseManager, get_db

        res = {}
        for fam in HabContainer.get_supported_families():
            db = get_db(fam)
            for dev, v in db.get_dict(DatabaseManager.HAB, "mem_types").items():
                try:
                    ivt = db.get_int(DatabaseManager.BOOTABLE_IMAGE, ["mem_types", dev, "segments", "hab_container"])
                except Exception:  # noqa: BLE001
                    continue
                res.setdefault((ivt, int(v["initial_load_size"])), []).append((fam, dev))
        _db_lays = res
    return _db_lays


_srk_cache = {}


def srk_table(tree, n):
    """SRK table file + fuse value as SPSDK produces / reports them (SrkTable.export / export_fuses)."""
    if (tree, n) not in _srk_cache:
        from spsdk.crypto.certificate import Certificate
        from spsdk.image.secret import SrkItem, SrkTable

        t = SrkTable(version=0x40)
        for i in range(1, n + 1):
            t.append(SrkItem.from_certificate(Certificate.load(hab_keys.crt_path(tree, hab_keys.srk_name(tree, i)))))
        _srk_cache[(tree, n)] = (t.export(), t.export_fuses())
    return _srk_cache[(tree, n)]


def pem_to_der(path):
    from cryptography import x509
    from cryptography.hazmat.primitives import serialization

    with open(path, "rb") as f:
        return x509.load_pem_x509_certificate(f.read()).public_bytes(serialization.Encoding.DER)


def concretise(c, wd):
    """Abstract case -> files in wd + config dictionary (the structure the BD parser hands to load_from_config) + inputs."""
    r = rng(PROP, "case", c["id"], c["rep"])
    os.makedirs(wd, exist_ok=True)
    start = STARTS[c["startSel"]]
    ivt_off, ils, flags = c["ivtOff"], c["ils"], c["flags"]
    xmcd_src = None
    app = bytearray(r.randrange(256) for _ in range(c["appLen"]))
    rv = (start + ils + r.randrange(8, max(9, min(c["appLen"], 0x3000)))) | 1
    app[0:4] = struct.pack("<I", 0x20200000 + 8 * r.randrange(0x1000))
    app[4:8] = struct.pack("<I", rv)
    app = bytes(app)
    with open(os.path.join(wd, "app.bin"), "wb") as f:
        f.write(app)
    entry = rv if c["entryGiven"] == 0 else (rv if c["entryGiven"] == 1 else rv + 2 * r.randrange(1, 64))
    opts = {"flags": {"plain": 0x00, "auth": 0x08, "enc": 0x0C}[flags], "startAddress": start}
    fam = None
    if c["byDb"] and (ivt_off, ils) in db_lays():
        fam = r.choice(sorted(db_lays()[(ivt_off, ils)]))
        opts["family"], opts["bootDevice"] = fam
    else:
        opts["ivtOffset"], opts["initialLoadSize"] = ivt_off, ils
    if c["entryGiven"] != 0:
        opts["entryPointAddress"] = entry
    if c["tsGiven"]:
        opts["signatureTimestamp"] = "%02d/%02d/20%02d %02d:%02d:%02d" % (r.randrange(1, 29), r.randrange(1, 13), r.randrange(20, 40),
                                                                           r.randrange(24), r.randrange(60), r.randrange(60))
    cfg_bytes, cfg_cls = b"", c["cfg"]
    if c["cfg"] == "dcd":
        if c.get("dcdShape", "gen") == "gen":
            cfg_bytes = make_dcd(c["cfgLen"], r, c.get("dcdVer", 0x41))
        else:  # shape of the supplied DCD = the abstract command list of the case
            cfg_bytes = render_dcd(c["dcdCmds"], c["dcdVer"], r)
            if len(cfg_bytes) != c["cfgLen"] or dcd_cmds(cfg_bytes) != [dict(x) for x in c["dcdCmds"]]:
                raise Machinery(f"DCD of case {c['id']} is not the abstract DCD {c['dcdCmds']}")
        cfg_cls = f"dcd-{c.get('dcdShape', 'gen')}-v{cfg_bytes[3]:02x}"
        opts["DCDFilePath"] = "dcd.bin"
        with open(os.path.join(wd, "dcd.bin"), "wb") as f:
            f.write(cfg_bytes)
    elif c["cfg"] == "xmcd":
        cfg_bytes, cls, xmcd_src = make_xmcd(c, r)
        cfg_cls = "xmcd-" + cls
        opts["XMCDFilePath"] = "xmcd.bin"
        with open(os.path.join(wd, "xmcd.bin"), "wb") as f:
            f.write(cfg_bytes)
    sections = []

    def sec(name, **kw):
        sections.append({"section_id": SEC[name], "options": [{k: v} for k, v in kw.items()], "commands": []})

    # project of the build: "a" = the tree, "b" = its twin (same file names, other keys).  naming "rel": keys and certificates are
    # named relative to the configuration directory (../keys/<name>_key.pem, ../crts/<name>_crt.pem - the project directory holds a
    # copy of its PKI tree, as CST leaves it) and resolved through the search path; otherwise by absolute paths
    tree, src, fast = hab_keys.of_project(c["tree"], c.get("proj", "a")), c["src"], c["fast"]
    rel = c.get("naming", "abs") == "rel"
    if rel and flags != "plain":
        hab_keys.install_project(c["tree"], c.get("proj", "a"), os.path.dirname(wd))

    def crt_ref(name):
        return f"../crts/{name}_crt.pem" if rel else hab_keys.crt_path(tree, name)

    ver = int(c["ver"].replace(".", ""), 16)
    inp = {"start": lim(start), "ivtOff": ivt_off, "ils": ils, "appLen": len(app), "flags": flags, "cfgKind": c["cfg"],
           "cfgLen": len(cfg_bytes), "entry": lim(entry), "ver": ver, "nSrk": c["nSrk"], "srcIdx": src, "fast": fast,
           "imgTgt": c["tgt"], "vfyIdx": 0 if fast else c["tgt"], "macLen": c["macLen"], "dekLen": c["dekLen"],
           "nonceGiven": c.get("nonceLen", 13) if (flags == "enc" and c["nonceGiven"]) else 0,  # length of the supplied nonce, 0 = generated
           "xmcdKind": c.get("xmcdKind", "raw") if c["cfg"] == "xmcd" else "none",
           "cfgVer": cfg_bytes[3] if c["cfg"] == "dcd" else 0, "dcdCmds": dcd_cmds(cfg_bytes) if c["cfg"] == "dcd" else []}
    ctx = {"case": c, "wd": wd, "app": app, "cfg_bytes": cfg_bytes, "cfg_cls": cfg_cls, "start": start, "inp": inp, "family": fam, "xmcd_src": xmcd_src,
           "dek_path": None, "fuse": None, "srk_pub_der": None, "csfk_der": None, "imgk_der": None}
    if flags != "plain":
        table, fuse = srk_table(tree, c["nSrk"])
        with open(os.path.join(wd, "srk_table.bin"), "wb") as f:
            f.write(table)
        ctx["fuse"] = fuse
        srk = hab_keys.srk_name(tree, src + 1)
        ctx["srk_der"] = pem_to_der(hab_keys.crt_path(tree, srk))
        eng = r.choice(["ANY", "DCP", "CAAM", "SW"])
        sec("Header", Header_Version=c["ver"], Header_HashAlgorithm="sha256", Header_Engine=eng, Header_EngineConfiguration=0,
            Header_CertificateFormat="x509", Header_SignatureFormat="CMS")
        sec("InstallSRK", InstallSRK_Table="srk_table.bin", InstallSRK_SourceIndex=src)

        def keyopts(prefix, name):
            kp = f"../keys/{name}_key.pem" if rel else hab_keys.key_path(tree, name)
            if c["keyvar"] == "pk":
                return {prefix + "_PrivateKeyFile": kp}
            if c["keyvar"] == "sp":
                return {prefix + "_SignProvider": f"type=file;file_path={kp}"}
            return {}

        if fast:
            sec("InstallNOCAK", InstallNOCAK_File=crt_ref(srk), InstallNOCAK_CertificateFormat="x509")
            sec("AuthenticateCSF", **keyopts("AuthenticateCsf", srk))
            ctx["csfk_der"] = ctx["imgk_der"] = ctx["srk_der"]
            img_name = srk
        else:
            csfk, imgk = hab_keys.leaf_name(tree, "CSF", src + 1), hab_keys.leaf_name(tree, "IMG", src + 1)
            sec("InstallCSFK", InstallCSFK_File=crt_ref(csfk), InstallCSFK_CertificateFormat="x509")
            sec("AuthenticateCSF", **keyopts("AuthenticateCsf", csfk))
            sec("InstallKey", InstallKey_File=crt_ref(imgk), InstallKey_VerificationIndex=0, InstallKey_TargetIndex=c["tgt"])
            ctx["csfk_der"], ctx["imgk_der"] = pem_to_der(hab_keys.crt_path(tree, csfk)), pem_to_der(hab_keys.crt_path(tree, imgk))
            img_name = imgk
        eng2 = r.choice(["ANY", "DCP", "CAAM"])
        sec("AuthenticateData", AuthenticateData_VerificationIndex=inp["vfyIdx"], AuthenticateData_Engine=eng2,
            AuthenticateData_EngineConfiguration=0, **keyopts("AuthenticateData", img_name))
        extra_first = c["extra"] in (1, 3) and r.random() < 0.5
        def extras():
            if c["extra"] in (1, 3):
                sec("SetEngine", SetEngine_HashAlgorithm="sha256", SetEngine_Engine=r.choice(["ANY", "DCP"]), SetEngine_EngineConfiguration="0")
            if c["extra"] in (2, 3):
                if r.random() < 0.5:
                    sec("Unlock", Unlock_Engine="SNVS", Unlock_Features="ZMK WRITE")
                else:
                    sec("Unlock", Unlock_Engine="OCOTP", Unlock_Features="JTAG, SRK REVOKE", Unlock_UID="0x1, 0x23, 0x45, 0x67, 0x89, 0xab, 0xcd, 0xef")
        if extra_first or flags != "enc":
            extras()
        if flags == "enc":
            ctx["dek_path"] = os.path.join(wd, "dek.bin")
            if c["reuseDek"]:
                ctx["dek_given"] = bytes(r.randrange(256) for _ in range(c["dekLen"]))
                with open(ctx["dek_path"], "wb") as f:
                    f.write(ctx["dek_given"])
            sec("SecretKey", SecretKey_Name="dek.bin", SecretKey_Length=c["dekLen"] * 8, SecretKey_VerifyIndex=r.choice([0, 2, 3]),
                SecretKey_TargetIndex=r.randrange(0, 4), SecretKey_ReuseDek=1 if c["reuseDek"] else 0)
            tgt = sections[-1]["options"][3]["SecretKey_TargetIndex"]
            dk = {"Decrypt_Engine": "ANY", "Decrypt_EngineConfiguration": "0", "Decrypt_VerifyIndex": tgt, "Decrypt_MacBytes": c["macLen"]}
            if c["nonceGiven"]:
                ctx["nonce_given"] = bytes(r.randrange(256) for _ in range(c.get("nonceLen", 13)))
                with open(os.path.join(wd, "nonce.bin"), "wb") as f:
                    f.write(ctx["nonce_given"])
                dk["Decrypt_Nonce"] = "nonce.bin"
            sec("Decrypt", **dk)
            if not extra_first:
                extras()
    config = {"options": opts, "sources": {"elfFile": "app.bin"}, "sections": sections}
    ctx["config"] = config
    return ctx


def build(ctx):
    """The real code: configuration -> HAB container -> bytes."""
    from spsdk.image.hab.hab_container import HabContainer

    hab = HabContainer.load_from_config(json.loads(json.dumps(ctx["config"])), search_paths=[ctx["wd"]])
    return hab.export()


# ====================================================================================== independent crypto facts
def _hash(name):
    from cryptography.hazmat.primitives import hashes

    return {"sha1": hashes.SHA1, "sha224": hashes.SHA224, "sha256": hashes.SHA256, "sha384": hashes.SHA384, "sha512": hashes.SHA512}[name]()


def verify_sig(pub, sig, data, hash_name):
    from cryptography.hazmat.primitives.asymmetric import ec, padding, rsa

    try:
        if isinstance(pub, rsa.RSAPublicKey):
            pub.verify(sig, data, padding.PKCS1v15(), _hash(hash_name))
        elif isinstance(pub, ec.EllipticCurvePublicKey):
            pub.verify(sig, data, ec.ECDSA(_hash(hash_name)))
        else:
            return False
        return True
    except Exception:  # noqa: BLE001 - InvalidSignature, malformed DER, unknown hash ...
        return False


def cert_chain_ok(der, parent_pub):
    """X.509 signature of `der` verifies under parent_pub with the algorithm the certificate declares."""
    from cryptography import x509

    try:
        c = x509.load_der_x509_certificate(der)
        h = c.signature_hash_algorithm
        return verify_sig(parent_pub, c.signature, c.tbs_certificate_bytes, h.name), c.public_key()
    except Exception:  # noqa: BLE001
        return False, None


def cms_facts(der, content, pub, signer_der):
    """Independent CMS check: structure, declared algorithms, messageDigest over `content`, signature over the signed attributes
    with exactly the declared digest algorithm, signer identifier = configured certificate."""
    from asn1crypto import cms, x509 as ax509

    res = {"digAlg": "?", "sigAlg": "?", "attrsOk": False, "sidOk": False, "digestOk": False, "sigOk": False, "sigRange": None, "attrRange": None}
    try:
        ci = cms.ContentInfo.load(der, strict=True)
        if ci["content_type"].native != "signed_data":
            return res
        sd = ci["content"]
        if len(sd["signer_infos"]) != 1:
            return res
        si = sd["signer_infos"][0]
        dig = si["digest_algorithm"]["algorithm"].native
        sig_alg = si["signature_algorithm"]["algorithm"].native
        res["digAlg"], res["sigAlg"] = str(dig), str(sig_alg)
        attrs = si["signed_attrs"]
        types = [a["type"].native for a in attrs]
        md = [a["values"][0].native for a in attrs if a["type"].native == "message_digest"]
        ct = [a["values"][0].native for a in attrs if a["type"].native == "content_type"]
        declared = [d["algorithm"].native for d in sd["digest_algorithms"]]
        res["attrsOk"] = (len(md) == 1 and ct == ["data"] and len(set(types)) == len(types) and dig in declared
                          and sd["encap_content_info"]["content_type"].native == "data"
                          and sd["encap_content_info"]["content"].native is None)
        if len(md) == 1:
            res["digestOk"] = md[0] == hashlib.new(dig, content).digest()
        # the hash the signature algorithm implies must be the declared digest algorithm
        if sig_alg == "rsassa_pkcs1v15":
            sig_hash = dig
        elif sig_alg.endswith("_rsa") or sig_alg.endswith("_ecdsa"):
            sig_hash = sig_alg.split("_")[0]
        else:
            sig_hash = None
        signed = b"\x31" + attrs.dump()[1:]
        sig = si["signature"].native
        if sig_hash == dig:
            res["sigOk"] = verify_sig(pub, sig, signed, dig)
        sc = ax509.Certificate.load(signer_der)
        sid = si["sid"]
        if sid.name == "issuer_and_serial_number":
            res["sidOk"] = sid.chosen["issuer"].dump() == sc.issuer.dump() and sid.chosen["serial_number"].native == sc.serial_number
        p = der.rfind(sig)
        if p >= 0:
            res["sigRange"] = (p, p + len(sig))
        q = der.find(attrs.dump()[2:])
        if q >= 0:
            res["attrRange"] = (q, q + len(attrs.dump()[2:]))
    except Exception:  # noqa: BLE001 - malformed DER in tampered files
        pass
    return res


def der_len(body):
    """Total length of the DER object at the start of body (its own header included); len(body) if that is not a SEQUENCE."""
    if len(body) < 4 or body[0] != 0x30:
        return len(body)
    if body[1] < 0x80:
        return 2 + body[1]
    if body[1] == 0x81:
        return 3 + body[2]
    if body[1] == 0x82:
        return 4 + int.from_bytes(body[2:4], "big")
    return len(body)


def srk_entries(tbl):
    """SRK table bytes (incl. D7 header) -> list of raw entries; bounded walk."""
    n = be16(tbl, 1)
    out, q = [], 4
    while q + 4 <= min(n, len(tbl)) and len(out) < 16:
        rl = be16(tbl, q + 1)
        if rl < 4 or q + rl > n:
            return None
        out.append(tbl[q:q + rl])
        q += rl
    return out if q == n else None


def srk_pub(entry):
    """Public key of one SRK table entry (E1 len alg | 0 0 0 flag | ...) -> (cryptography public key, CA flag)."""
    from cryptography.hazmat.primitives.asymmetric import ec, rsa

    if entry[0] != 0xE1:
        return None, False
    ca = entry[7] == 0x80
    if entry[3] == 0x21:  # PKCS#1
        ml, el = be16(entry, 8), be16(entry, 10)
        if 12 + ml + el != len(entry):
            return None, ca
        n, e = int.from_bytes(entry[12:12 + ml], "big"), int.from_bytes(entry[12 + ml:12 + ml + el], "big")
        return rsa.RSAPublicNumbers(e, n).public_key(), ca
    if entry[3] == 0x27:  # ECDSA
        curve = {0x4B: ec.SECP256R1, 0x4D: ec.SECP384R1, 0x4E: ec.SECP521R1}.get(entry[8])
        bits = be16(entry, 10)
        cl = (bits + 7) // 8
        if curve is None or 12 + 2 * cl != len(entry):
            return None, ca
        x, y = int.from_bytes(entry[12:12 + cl], "big"), int.from_bytes(entry[12 + cl:], "big")
        return ec.EllipticCurvePublicNumbers(x, y, curve()).public_key(), ca
    return None, ca


def same_pub(a, b):
    from cryptography.hazmat.primitives import serialization

    try:
        f = (serialization.Encoding.DER, serialization.PublicFormat.SubjectPublicKeyInfo)
        return a.public_bytes(*f) == b.public_bytes(*f)
    except Exception:  # noqa: BLE001
        return False


# ====================================================================================== the executor
class Stop(Exception):
    pass


def execute(d, ctx):
    """Walk the exported bytes d (offset 0 = IVT) along the automaton of HabRom.tla.  Returns (events, regions) where regions
    names the byte ranges of every authenticated field class (for the tamper runs).  Total: never raises on damaged input."""
    ev, reg = [], {}
    try:
        _walk(d, ctx, ev, reg)
    except Stop as x:
        ev.append({"ev": "Stop", "why": str(x)})
    except Exception as x:  # noqa: BLE001 - damaged structure
        ev.append({"ev": "Stop", "why": f"{type(x).__name__}: {x}"[:120]})
    return ev, reg


def _walk(d, ctx, ev, reg):
    from cryptography import x509

    inp, app, cfgb = ctx["inp"], ctx["app"], ctx["cfg_bytes"]
    base = ctx["start"] + inp["ivtOff"]  # address of file offset 0

    def fo(a):
        return a - base

    def need(o, n, what):
        if not (0 <= o and o + n <= len(d)):
            raise Stop(f"{what} outside the file ({o}+{n} of {len(d)})")

    need(0, 32, "IVT")
    entry, _r1, dcd, bd, self_, csf, _r2 = struct.unpack_from("<7I", d, 4)
    ev.append({"ev": "ParseIvt", "tag": d[0], "len": be16(d, 1), "ver": d[3], "entry": lim(entry), "dcd": lim(dcd), "bd": lim(bd),
               "self": lim(self_), "csf": lim(csf), "fileLen": len(d)})
    reg["ivt"] = [(0, 32)]
    o = fo(bd)
    need(o, 12, "boot data")
    bstart, blen, plugin = struct.unpack_from("<3I", d, o)
    ev.append({"ev": "BootData", "at": o, "start": lim(bstart), "len": n31(blen), "plugin": n31(plugin)})
    reg["bd"] = [(o, o + 12)]
    if inp["cfgKind"] == "dcd":
        o = fo(dcd)
        need(o, 4, "DCD")
        ln = be16(d, o + 1)
        ev.append({"ev": "Dcd", "at": o, "tag": d[o], "len": ln, "ver": d[o + 3], "cmds": dcd_cmds(d[o:o + ln]) if d[o] == 0xD2 else [],
                   "match": d[o:o + len(cfgb)] == cfgb})
        reg["cfg"] = [(o, o + len(cfgb))]
    elif inp["cfgKind"] == "xmcd":
        o = 0x40
        need(o, 4, "XMCD")
        size = d[o] | ((d[o + 1] & 0x0F) << 8)
        ev.append({"ev": "Xmcd", "at": o, "tag": d[o + 3] >> 4, "ver": d[o + 3] & 0x0F, "size": size, "iface": d[o + 2] >> 4, "inst": d[o + 2] & 0x0F,
                   "btype": d[o + 1] >> 4, "match": d[o:o + len(cfgb)] == cfgb})
        reg["cfg"] = [(o, o + len(cfgb))]
    app_at = inp["ils"] - inp["ivtOff"]
    found = d.find(app)
    csf_o = fo(csf) if inp["flags"] != "plain" else len(d)
    pad_end = csf_o if 0 <= csf_o <= len(d) else len(d)
    pad_ok = found >= 0 and all(b == 0 for b in d[found + len(app):pad_end])
    ev.append({"ev": "App", "at": found, "len": len(app), "padOk": pad_ok})
    if inp["flags"] != "enc":
        reg["app"] = [(app_at, app_at + len(app))]
    if inp["flags"] == "plain":
        ev.append({"ev": "Accept"})
        return
    # ---- CSF
    c = csf_o
    need(c, 4, "CSF header")
    clen = be16(d, c + 1)
    ev.append({"ev": "CsfHeader", "at": c, "tag": d[c], "len": clen, "ver": d[c + 3]})
    need(c, clen, "CSF commands")
    reg["csfcmds"] = [(c, c + clen)]
    keys = {}  # slot -> public key
    dek = None
    if ctx["dek_path"] and os.path.exists(ctx["dek_path"]):
        with open(ctx["dek_path"], "rb") as f:
            dek = f.read()
    n_cms = 0
    o = c + 4
    steps = 0
    while o < c + clen:
        steps += 1
        if steps > 64:
            raise Stop("too many commands")
        need(o, 4, "command header")
        tag, ln, par = d[o], be16(d, o + 1), d[o + 3]
        if ln < 4:
            raise Stop("command length < 4")
        need(o, ln, "command")
        if tag == 0xBE and ln >= 12:
            pcl, alg, src, tgt = d[o + 4:o + 8]
            dat = be32(d, o + 8)
            e = {"ev": "InstallKey", "at": o, "len": ln, "flg": par, "pcl": pcl, "alg": alg, "src": src, "tgt": tgt, "dat": n31(dat)}
            if pcl == 0xBB:  # secret key: absolute address of the DEK blob
                e["loc"] = lim(dat)
                ev.append(e)
            elif pcl == 0x03:  # SRK table
                p = c + dat
                need(p, 4, "SRK table")
                tl = be16(d, p + 1)
                need(p, tl, "SRK table")
                ents = srk_entries(d[p:p + tl])
                e.update({"tblTag": d[p], "tblLen": tl, "tblVer": d[p + 3], "nKeys": len(ents) if ents else 0, "fuseOk": False, "keyOk": False, "ca": False})
                if ents:
                    fuse = hashlib.sha256(b"".join(hashlib.sha256(x).digest() for x in ents)).digest()
                    e["fuseOk"] = fuse == ctx["fuse"]
                    if src < len(ents):
                        pub, ca = srk_pub(ents[src])
                        e["ca"] = ca
                        if pub is not None:
                            # anchors come without the SRK certificate: there the fuse hash alone pins the table
                            e["keyOk"] = ctx.get("srk_der") is None or same_pub(pub, x509.load_der_x509_certificate(ctx["srk_der"]).public_key())
                            keys[tgt] = pub
                    reg["srktable"] = [(p + 4, p + tl)]
                ev.append(e)
            else:  # certificate
                p = c + dat
                need(p, 8, "certificate")
                cl = be16(d, p + 1)
                need(p, cl, "certificate")
                body = d[p + 4:p + cl]
                dl = min(der_len(body), len(body))
                der = body[:dl]
                ok, pub = cert_chain_ok(der, keys[src]) if src in keys else (False, None)
                want = ctx["csfk_der"] if par == 2 else ctx["imgk_der"]
                e.update({"crtTag": d[p], "crtLen": cl, "crtVer": d[p + 3], "derLen": dl, "chainOk": ok, "certMatch": der == want})
                if pub is not None and ok:
                    keys[tgt] = pub
                reg["csfkcert" if par == 2 else "imgkcert"] = [(p + 4, p + 4 + dl)]
                ev.append(e)
        elif tag == 0xCA and ln >= 12:
            key, fmt, eng, cfg = d[o + 4:o + 8]
            dat = be32(d, o + 8)
            p = c + dat
            nb = (ln - 12) // 8
            blocks = [(be32(d, o + 12 + 8 * i), be32(d, o + 16 + 8 * i)) for i in range(nb)]
            e = {"ev": "Authenticate", "at": o, "len": ln, "flg": par, "key": key, "pcl": fmt, "eng": eng, "cfg": cfg, "dat": n31(dat),
                 "blocks": [{"a": lim(a), "n": n31(n)} for a, n in blocks], "dataLen": n31(sum(n for _, n in blocks))}
            need(p, 4, "signature / MAC")
            sl = be16(d, p + 1)
            need(p, sl, "signature / MAC")
            if blocks:
                for a, n in blocks:
                    need(fo(a), n, "authenticated block")
                content = b"".join(d[fo(a):fo(a) + n] for a, n in blocks)
                rng_from = rng_to = -1
            else:
                content = d[c:c + clen]
                rng_from, rng_to = c, c + clen
            if fmt == 0xC5:
                body = d[p + 4:p + sl]
                dl = min(der_len(body), len(body))
                der = body[:dl]
                signer = ctx["csfk_der"] if n_cms == 0 else ctx["imgk_der"]
                kslot = key if key in keys else (0 if (key == 1 and inp["fast"]) else key)
                facts = cms_facts(der, content, keys.get(kslot), signer)
                sr, ar = facts.pop("sigRange"), facts.pop("attrRange")
                e.update({"sigTag": d[p], "sigLen": sl, "sigVer": d[p + 3], "derLen": dl, "from": rng_from, "to": rng_to})
                e.update(facts)
                name = "csf" if not blocks else "data"
                if sr:
                    reg[name + "sig"] = [(p + 4 + sr[0], p + 4 + sr[1])]
                if ar:
                    reg[name + "attrs"] = [(p + 4 + ar[0], p + 4 + ar[1])]
                n_cms += 1
            elif fmt == 0xA3:
                need(p, 8, "MAC record")
                nonce_len, mac_bytes = d[p + 5], d[p + 7]
                need(p, 8 + nonce_len + mac_bytes, "MAC record")
                nonce, mac = d[p + 8:p + 8 + nonce_len], d[p + 8 + nonce_len:p + 8 + nonce_len + mac_bytes]
                mac_ok, plain_ok = False, False
                if dek is not None:
                    try:
                        from cryptography.hazmat.primitives.ciphers.aead import AESCCM

                        pt = AESCCM(dek, tag_length=mac_bytes).decrypt(nonce, content + mac, None)
                        mac_ok = True
                        # reference plaintext: the application given to the builder, zero padded to the block; elsewhere the image itself
                        ref = bytearray(d)
                        aa = inp["ils"] - inp["ivtOff"]
                        padded = ctx["app"] + bytes(-len(ctx["app"]) % 16)
                        ref[aa:aa + len(padded)] = padded
                        plain_ok = pt == b"".join(bytes(ref[fo(a):fo(a) + n]) for a, n in blocks)
                    except Exception:  # noqa: BLE001 - InvalidTag, bad lengths
                        pass
                e.update({"macTag": d[p], "macLen": sl, "macVer": d[p + 3], "nonceLen": nonce_len, "macBytes": mac_bytes,
                          "dekLen": len(dek) if dek is not None else 0, "macOk": mac_ok, "plainOk": plain_ok,
                          "dekKept": ctx.get("dek_given") is None or dek == ctx["dek_given"],
                          "nonceKept": ctx.get("nonce_given") is None or nonce == ctx["nonce_given"]})
                reg["mac"] = [(p + 8, p + 8 + nonce_len + mac_bytes)]
                reg["encapp"] = [(fo(a), fo(a) + n) for a, n in blocks]
            ev.append(e)
        else:
            ev.append({"ev": "Cmd", "at": o, "tag": tag, "len": ln, "par": par})
        o += ln
    ev.append({"ev": "CsfEnd", "at": o})
    ev.append({"ev": "Accept", "note": accept_note(ev, reg, inp, base)})


def accept_note(ev, reg, inp, base):
    """Informational only (names the finding class when TLC rejects the Accept step; the spec does not read it)."""
    cov = []
    for e in ev:
        if e["ev"] == "Authenticate":
            cov += [(((b["a"][0] << 16) | b["a"][1]) - base, ((b["a"][0] << 16) | b["a"][1]) - base + b["n"]) for b in e["blocks"]]
    miss = []
    for name in ("ivt", "bd", "cfg", "app", "encapp"):
        for a, b in reg.get(name, []):
            pts = sorted({a} | {p for iv in cov for p in iv if a < p < b})
            if not all(any(x <= p < y for x, y in cov) for p in pts):
                miss.append(name)
    if inp["flags"] == "enc" and "encapp" in reg:
        aa = inp["ils"] - inp["ivtOff"]
        if not any(a <= aa and aa + inp["appLen"] <= b for a, b in reg["encapp"]):
            miss.append("app")
    return "uncovered-" + "-".join(sorted(set(miss))) if miss else "bootlen-or-overlap"


def parse_back(d, ctx):
    """What SPSDK's own parser recovers from the bytes it exported."""
    from spsdk.image.hab.hab_container import HabContainer

    inp, app, cfgb = ctx["inp"], ctx["app"], ctx["cfg_bytes"]
    try:
        hab = HabContainer.parse(d)
        ivt, bdt = hab.ivt_segment.segment, hab.bdt_segment.segment
        bd_at = hab.bdt_segment.offset
        csf = hab.csf_segment
        csf_at = csf.offset if csf else len(d)
        cfg_seg = hab.dcd_segment if inp["cfgKind"] == "dcd" else hab.xmcd_segment if inp["cfgKind"] == "xmcd" else None
        cfg_eq = (cfg_seg is not None and cfg_seg.export() == cfgb) if inp["cfgKind"] != "none" else True
        # the DCD / XMCD segment the parser recovered: where, how long, and (XMCD) the header fields of the parsed object
        any_cfg = hab.xmcd_segment or hab.dcd_segment
        cfg_at, cfg_len = (any_cfg.offset, len(any_cfg.export())) if any_cfg is not None else (-1, 0)
        xh = hab.xmcd_segment.segment.header if hab.xmcd_segment is not None else None
        xf = {"xSize": xh.block_size, "xIface": xh.interface, "xInst": xh.instance, "xType": xh.block_type} if xh is not None else \
            {"xSize": -1, "xIface": -1, "xInst": -1, "xType": -1}
        dseg = hab.dcd_segment.segment if hab.dcd_segment is not None else None
        df = {"dVer": dseg.header.param, "dN": len(dseg.commands)} if dseg is not None else {"dVer": -1, "dN": -1}
        ab = hab.app_segment.binary
        aa = hab.app_segment.offset
        if inp["flags"] == "enc":
            app_eq = ab == d[aa:csf_at]
        else:
            app_eq = ab[:len(app)] == app and not any(ab[len(app):]) and aa + len(ab) == csf_at
        return {"ev": "ParseBack", "ok": True, "self": lim(ivt.ivt_address), "bd": lim(ivt.bdt_address), "dcd": lim(ivt.dcd_address),
                "csf": lim(ivt.csf_address), "entry": lim(ivt.app_address), "bdStart": lim(bdt.app_start), "bdLen": n31(bdt.app_length),
                "plugin": n31(bdt.plugin), "flags": hab.flags, "hasDcd": hab.dcd_segment is not None, "hasXmcd": hab.xmcd_segment is not None,
                "hasCsf": csf is not None, "appAt": aa, "cStart": lim(hab.start_address), "cIvtOff": n31(hab.ivt_offset), "nCmds": len(csf.segment.commands) if csf else 0,
                "ivtEq": hab.ivt_segment.export() == d[0:32], "bdEq": hab.bdt_segment.export()[:12] == d[bd_at:bd_at + 12],
                "cfgAt": cfg_at, "cfgLen": cfg_len, **xf, **df, "cfgEq": cfg_eq, "appEq": app_eq, "csfEq": (csf.export() == d[csf_at:csf_at + 0x2000]) if csf else True,
                "reexpEq": hab.export() == d}
    except Exception as x:  # noqa: BLE001 - recorded, decided by the spec
        return {"ev": "ParseBack", "ok": False, "err": f"{type(x).__name__}: {x}"[:160], "where": _raised_in(x)}


def _raised_in(x):
    """Which segment parser of spsdk/image/hab gave up (class name of the innermost frame inside that package): names the CAUSE of a
    failed parse in the finding key, so that a known parse failure (application finder on ciphertext) does not absorb another one."""
    where, tb = "outside-hab", x.__traceback__
    while tb is not None:
        code = tb.tb_frame.f_code
        if os.sep + os.path.join("spsdk", "image", "hab") + os.sep in code.co_filename:
            where = getattr(code, "co_qualname", code.co_name).split(".")[0]
        tb = tb.tb_next
    return "".join(ch for ch in where if ch.isalnum() or ch in "-_") or "unknown"


# ====================================================================================== one case end to end
TAMPER_CLASSES = ["ivt", "bd", "cfg", "app", "csfcmds", "srktable", "csfkcert", "csfsig", "csfattrs", "imgkcert", "datasig", "dataattrs",
                  "mac", "encapp"]


def run_case(arg):
    c, n_tamper = arg
    wd = os.path.join(scratch(), "c07", f"case-{c['id']}-{c['rep']}")
    tid = f"c{c['id']}r{c['rep']}"
    try:
        ctx = concretise(c, wd)
    except Machinery:
        raise
    except Exception as x:  # noqa: BLE001 - SRK table / fuse value could not be produced by SPSDK from valid certificates
        ev = [{"ev": "BuildFailed", "exc": type(x).__name__, "msg": "preparing the SRK table: " + str(x)[:160]}]
        return [{"id": tid, "inp": {"flags": c["flags"], "waive": []}, "ev": ev, "meta": {"case": c, "cfg_cls": c["cfg"], "family": None}}]
    meta = {"case": c, "cfg_cls": ctx["cfg_cls"], "family": ctx["family"], "xmcd_src": ctx["xmcd_src"]}
    try:
        d = build(ctx)
    except Exception as x:  # noqa: BLE001 - a refused / crashed build of a valid configuration is an observation
        ev = [{"ev": "BuildFailed", "exc": type(x).__name__, "msg": str(x)[:200]}]
        return [{"id": tid, "inp": ctx["inp"], "ev": ev, "meta": meta}]
    ev, reg = execute(d, ctx)
    if ev and ev[-1]["ev"] == "Accept":
        ev.append(parse_back(d, ctx))
    out = [{"id": tid, "inp": ctx["inp"], "ev": ev, "meta": meta}]
    if n_tamper and ev and ev[-1]["ev"] == "ParseBack":
        r = rng(PROP, "tamper", c["id"], c["rep"])
        for cls in TAMPER_CLASSES:
            if cls not in reg:
                continue
            for k in range(n_tamper):
                a, b = r.choice(reg[cls])
                if b <= a:
                    continue
                pos, bit = r.randrange(a, b), r.randrange(8)
                t = bytearray(d)
                t[pos] ^= 1 << bit
                tev, _ = execute(bytes(t), ctx)
                out.append({"id": f"{tid}/t/{cls}/{pos}.{bit}", "inp": ctx["inp"], "ev": tev, "meta": {"tamper": cls, "pos": pos, "bit": bit}})
    return out


def run_hist(h):
    """One HISTORY (HabGen!Hist) end to end, in THIS process: the builds one after the other through HabContainer.load_from_config,
    every image walked by the executor with the context of its own project.  One trace: the ROM walks joined by NextBuild events,
    `inps` = the inputs of every build.  A build that fails ends the history there (its BuildFailed event has no action)."""
    base = os.path.join(scratch(), "c07", f"hist-{h['hid']}-{h['rep']}")
    tid = f"h{h['hid']}r{h['rep']}"
    ev, inps, metas = [], [], []
    for i, c in enumerate(h["builds"]):
        wd = os.path.join(base, c["proj"], f"cfg{c['pos']}")   # <history>/<project>/{crts,keys,cfg1,cfg2..}
        if i:
            ev.append({"ev": "NextBuild", "idx": i + 1, "proj": c["proj"]})
        try:
            ctx = concretise(c, wd)
        except Machinery:
            raise
        except Exception as x:  # noqa: BLE001 - as in run_case
            inps.append({"flags": c["flags"], "waive": []})
            metas.append({"case": c, "cfg_cls": c["cfg"], "family": None})
            ev.append({"ev": "BuildFailed", "exc": type(x).__name__, "msg": "preparing the SRK table: " + str(x)[:160]})
            break
        inps.append(ctx["inp"])
        metas.append({"case": c, "cfg_cls": ctx["cfg_cls"], "family": ctx["family"], "xmcd_src": ctx["xmcd_src"]})
        try:
            d = build(ctx)
        except Exception as x:  # noqa: BLE001 - a refused / crashed build of a valid configuration is an observation
            ev.append({"ev": "BuildFailed", "exc": type(x).__name__, "msg": str(x)[:200]})
            break
        ev += execute(d, ctx)[0]
    # the trace carries the inputs of every build that was started (a failed build ends it: BuildFailed is rejected by the spec)
    hist = {k: v for k, v in h.items() if k != "builds"}
    return [{"id": tid, "inps": inps, "ev": ev, "meta": {"hist": h, "builds": metas, "case": dict(h["builds"][0], hist=hist)}}]


def run_item(item):
    return run_hist(item[1]) if item[0] == "h" else run_case(item[1])


def build_of(t, matched):
    """Index of the build of history trace t the event number `matched` belongs to."""
    return sum(1 for e in t["ev"][:matched + 1] if e["ev"] == "NextBuild")


# A golden image of the repository's test data that a ROM would NOT accept: its SRK table holds the keys in the order SRK3, SRK1, SRK2,
# SRK4, Install SRK selects index 0 (SRK3), but both signatures were made with SRK1 (table index 1) - the CMS signatures verify under
# entry 1 only.  It is kept as a NEGATIVE anchor: the automaton must reject it, and at this step.
ANCHOR_MUST_REJECT = {"anchor/rt1060_flashloader_authenticated_nocak": "Authenticate"}


def anchor_traces():
    """Golden images of the repository's test data (frozen copies under anchors/C07, produced by NXP's tool chain): the ROM part of
    the automaton must accept every one of them - this binds the R-spec to artefacts that were not produced by the tree under test."""
    from lib.common import ROOT

    base = os.path.join(ROOT, "anchors", "C07")
    out = []
    for name in sorted(os.listdir(base)):
        a = os.path.join(base, name)
        if not os.path.exists(os.path.join(a, "output.bin")):  # anchors/C07/xmcd: golden XMCD blocks (inputs), not images
            continue
        m = json.load(open(os.path.join(a, "meta.json")))
        o, sec = m["options"], m["sections"]
        rd = lambda f: open(os.path.join(a, f), "rb").read() if os.path.exists(os.path.join(a, f)) else None  # noqa: E731
        d, app, dcd, table = rd("output.bin"), rd("app.bin"), rd("dcd.bin"), rd("srk_table.bin")
        flags = {0: "plain", 8: "auth", 12: "enc"}[o["flags"]]
        entry = o.get("entrypointaddress") or m.get("exec_start") or struct.unpack_from("<I", app, 4)[0]
        ents = srk_entries(table) if table else []
        inp = {"start": lim(o["startaddress"]), "ivtOff": o["ivtoffset"], "ils": o["initialloadsize"], "appLen": len(app), "flags": flags,
               "cfgKind": "dcd" if dcd else "none", "cfgLen": len(dcd) if dcd else 0, "entry": lim(int(entry)),
               "ver": int(sec["20"]["header_version"].replace(".", ""), 16) if "20" in sec else 0x40, "nSrk": len(ents or []),
               "srcIdx": int(sec["21"]["installsrk_sourceindex"]) if "21" in sec else 0, "fast": "23" in sec,
               "imgTgt": int(sec["25"]["installkey_targetindex"]) if "25" in sec else 0,
               "vfyIdx": int(sec["26"]["authenticatedata_verificationindex"]) if "26" in sec else 0,
               "macLen": int(sec["28"].get("decrypt_macbytes", 16)) if "28" in sec else 16, "dekLen": len(rd("dek.bin") or b""), "waive": [], "xmcdKind": "none",
               "cfgVer": dcd[3] if dcd else 0, "dcdCmds": dcd_cmds(dcd) if dcd else []}
        ctx = {"inp": inp, "app": app, "cfg_bytes": dcd or b"", "start": o["startaddress"], "srk_der": None,
               "fuse": bytes.fromhex(m["fuse_hex"]) if m.get("fuse_hex") else None, "csfk_der": rd("csfk.der"), "imgk_der": rd("imgk.der"),
               "dek_path": os.path.join(a, "dek.bin") if rd("dek.bin") else None}
        ev, _ = execute(d, ctx)
        out.append({"id": "anchor/" + name, "inp": inp, "ev": ev, "meta": {}})
    return out


def preload():
    """Import everything the forked workers need once, in the parent."""
    import warnings

    warnings.filterwarnings("ignore")  # tampered certificates (e.g. negative serial numbers) make `cryptography` warn
    import asn1crypto.cms  # noqa: F401
    import asn1crypto.x509  # noqa: F401
    import cryptography.hazmat.primitives.ciphers.aead  # noqa: F401
    import cryptography.x509  # noqa: F401
    import spsdk.crypto.signature_provider  # noqa: F401
    import spsdk.image.hab.hab_container  # noqa: F401
    import spsdk.utils.images  # noqa: F401


def gen_cases(tier):
    env = {"GEN_SEED": seed() % 100000, "GEN_FULL": 0 if tier == "quick" else 1, "GEN_REPS": 1 if tier == "quick" else 3}
    r = tlc.run("C07", "HabGen", workers=1 if tier == "quick" else 4, env=env, timeout=600, heap="4g")
    if r.violated:
        raise Machinery(f"HabGen: {r.violated}")
    out = r.json_prints()
    cases = sorted((c for c in out if "builds" not in c), key=lambda c: c["id"])
    hists = sorted((c for c in out if "builds" in c), key=lambda c: c["hid"])
    if len(cases) + len(hists) != r.distinct or len(cases) < 100:
        raise Machinery(f"GEN emitted {len(cases)} cases + {len(hists)} histories for {r.distinct} states")
    return cases, hists, r


def hint(e):
    bad = [k for k, v in e.items() if v is False and k not in ("ca", "hasDcd", "hasXmcd", "hasCsf", "ok")]
    if e.get("ev") == "ParseBack" and e.get("ok") is False:
        return "parse-raised:" + e.get("err", "").split(":")[0] + ":" + e.get("where", "unknown")
    if e.get("ev") == "BuildFailed":
        return e.get("exc", "?")
    if e.get("ev") == "Stop":
        return "executor-stopped"
    if e.get("ev") == "Accept":
        return e.get("note", "structure")
    return "+".join(sorted(bad)) if bad else "structure"


def finding_key(t, matched):
    m = t["meta"]
    if "hist" in m:  # a history: the key of the build the rejected step belongs to + its place in the history
        h = m["hist"]
        k = min(build_of(t, min(matched, len(t["ev"]) - 1)), len(m["builds"]) - 1)
        e = t["ev"][matched] if matched < len(t["ev"]) else {"ev": "end"}
        if e["ev"] in ("NextBuild", "end"):
            return f"C07/{h['builds'][k]['flags']}/{e['ev']}/history/{'-'.join(h['shape'])}@{k + 1}-{h['tree']}-{h['keyvar']}"
        one = {"meta": m["builds"][k], "ev": [e]}
        return finding_key(one, 0) + f"/hist-{'-'.join(h['shape'])}@{k + 1}-{h['keyvar']}"
    c = m["case"]
    e = t["ev"][matched] if matched < len(t["ev"]) else {"ev": "end"}
    name = e["ev"]
    if name in ("Dcd", "Xmcd"):
        cls = m["cfg_cls"]
    elif name in ("InstallKey", "Authenticate"):
        cls = f"pcl{e.get('pcl')}-{c['tree']}"
    elif name == "BuildFailed":
        cfg = c["cfg"] + (f"-{c.get('xmcdKind', 'raw')}" if c["cfg"] == "xmcd" else "")
        cls = f"{cfg}-{c['tree'] if c['flags'] != 'plain' else 'nokeys'}-{c['keyvar'] if c['flags'] != 'plain' else ''}"
    elif name in ("Accept", "ParseBack"):
        cls = f"{c['lay']}-{m['cfg_cls']}"
    else:
        cls = f"{c['lay']}-{c['cfg']}"
    return f"C07/{c['flags']}/{name}/{hint(e)}/{cls}"


CANARY_FIELDS = [("ParseIvt", "self", lambda v: [v[0], (v[1] + 0x400) & 0xFFFF]), ("BootData", "len", lambda v: v - 0x2000),
                 ("Authenticate", "digestOk", lambda v: False), ("Authenticate", "blocks", lambda v: v[:-1]),
                 ("InstallKey", "fuseOk", lambda v: False), ("ParseBack", "appEq", lambda v: False),
                 ("Dcd", "ver", lambda v: v ^ 1), ("Dcd", "tag", lambda v: 0), ("ParseBack", "dVer", lambda v: v ^ 1)]


XMCD_CANARY_FIELDS = [("ParseBack", "hasXmcd", lambda v: False), ("ParseBack", "cfgLen", lambda v: 0), ("ParseBack", "cfgAt", lambda v: -1),
                      ("ParseBack", "xSize", lambda v: v - 4), ("ParseBack", "xType", lambda v: 1 - v), ("ParseBack", "xIface", lambda v: 1 - v),
                      ("ParseBack", "xInst", lambda v: v + 1), ("ParseBack", "cfgEq", lambda v: False), ("ParseBack", "reexpEq", lambda v: False),
                      ("Xmcd", "size", lambda v: v + 4), ("Xmcd", "iface", lambda v: 1 - v), ("Xmcd", "btype", lambda v: 1 - v),
                      ("Xmcd", "match", lambda v: False)]


def synthetic_xmcd_trace(kind):
    """A known-good trace written down by hand from the documented layout - no code of the tree under test involved: a plain image
    for a FlexSPI NOR device (IVT at 0x1000, application at 0x2000) that carries the golden XMCD block of `kind` at IVT + 0x40, and a
    parser that recovers everything.  The header fields are read from the golden block with plain bit arithmetic."""
    g = xmcd_golden(kind)
    word = int.from_bytes(g[0:4], "little")  # tag [31:28] version [27:24] interface [23:20] instance [19:16] type [15:12] size [11:0]
    size, btype, inst, iface = word & 0xFFF, (word >> 12) & 0xF, (word >> 16) & 0xF, (word >> 20) & 0xF
    start, ivt_off, ils, app_len = 0x30000000, 0x1000, 0x2000, 4097
    base, app_at = start + ivt_off, ils - ivt_off
    file_len = app_at + app_len
    entry = start + ils + 0x101
    inp = {"start": lim(start), "ivtOff": ivt_off, "ils": ils, "appLen": app_len, "flags": "plain", "cfgKind": "xmcd", "cfgLen": len(g),
           "entry": lim(entry), "ver": 0x40, "nSrk": 0, "srcIdx": 0, "fast": False, "imgTgt": 0, "vfyIdx": 0, "macLen": 16, "dekLen": 0,
           "waive": [], "xmcdKind": kind, "cfgVer": 0, "dcdCmds": []}
    ev = [{"ev": "ParseIvt", "tag": 0xD1, "len": 32, "ver": 0x40, "entry": lim(entry), "dcd": [0, 0], "bd": lim(base + 32), "self": lim(base),
           "csf": [0, 0], "fileLen": file_len},
          {"ev": "BootData", "at": 32, "start": lim(start), "len": ivt_off + file_len, "plugin": 0},
          {"ev": "Xmcd", "at": 0x40, "tag": word >> 28, "ver": (word >> 24) & 0xF, "size": size, "iface": iface, "inst": inst, "btype": btype, "match": True},
          {"ev": "App", "at": app_at, "len": app_len, "padOk": True},
          {"ev": "Accept"},
          {"ev": "ParseBack", "ok": True, "self": lim(base), "bd": lim(base + 32), "dcd": [0, 0], "csf": [0, 0], "entry": lim(entry),
           "bdStart": lim(start), "bdLen": ivt_off + file_len, "plugin": 0, "flags": 0, "hasDcd": False, "hasXmcd": True, "hasCsf": False,
           "appAt": app_at, "cStart": lim(start), "cIvtOff": ivt_off, "nCmds": 0, "ivtEq": True, "bdEq": True, "cfgAt": 0x40, "cfgLen": len(g),
           "xSize": size, "xIface": iface, "xInst": inst, "xType": btype, "dVer": -1, "dN": -1, "cfgEq": True, "appEq": True, "csfEq": True, "reexpEq": True}]
    return {"id": f"canary/xmcd-{kind}/good", "inp": inp, "ev": ev, "meta": {}}


DCD_CANARY_FIELDS = [("Dcd", "tag", lambda v: 0), ("Dcd", "ver", lambda v: 0x41), ("Dcd", "ver", lambda v: 0x30), ("Dcd", "len", lambda v: v + 4),
                     ("Dcd", "cmds", lambda v: v + [{"tag": 0xC0, "len": 4}]), ("Dcd", "match", lambda v: False), ("Dcd", "at", lambda v: v + 4),
                     ("ParseBack", "hasDcd", lambda v: False), ("ParseBack", "dVer", lambda v: 0x41), ("ParseBack", "dN", lambda v: v + 1),
                     ("ParseBack", "cfgLen", lambda v: 0), ("ParseBack", "cfgEq", lambda v: False), ("ParseBack", "ok", lambda v: False)]


def synthetic_dcd_trace(cmds):
    """A known-good trace written down by hand from the documented layout - no code of the tree under test involved: a plain image
    (IVT at 0x400, application at 0x1000) whose IVT points at a HAB 4.0 DCD (version 0x40) at IVT + 0x40 with the given commands
    (none = the smallest legal DCD, D2 00 04 40), and a parser that recovers everything."""
    n = 4 + sum(c["len"] for c in cmds)
    start, ivt_off, ils, app_len = 0x80000000, 0x400, 0x1000, 4097
    base, app_at = start + ivt_off, ils - ivt_off
    file_len = app_at + app_len
    entry = start + ils + 0x101
    inp = {"start": lim(start), "ivtOff": ivt_off, "ils": ils, "appLen": app_len, "flags": "plain", "cfgKind": "dcd", "cfgLen": n,
           "entry": lim(entry), "ver": 0x40, "nSrk": 0, "srcIdx": 0, "fast": False, "imgTgt": 0, "vfyIdx": 0, "macLen": 16, "dekLen": 0,
           "waive": [], "xmcdKind": "none", "cfgVer": 0x40, "dcdCmds": cmds}
    ev = [{"ev": "ParseIvt", "tag": 0xD1, "len": 32, "ver": 0x40, "entry": lim(entry), "dcd": lim(base + 0x40), "bd": lim(base + 32), "self": lim(base),
           "csf": [0, 0], "fileLen": file_len},
          {"ev": "BootData", "at": 32, "start": lim(start), "len": ivt_off + file_len, "plugin": 0},
          {"ev": "Dcd", "at": 0x40, "tag": 0xD2, "len": n, "ver": 0x40, "cmds": cmds, "match": True},
          {"ev": "App", "at": app_at, "len": app_len, "padOk": True},
          {"ev": "Accept"},
          {"ev": "ParseBack", "ok": True, "self": lim(base), "bd": lim(base + 32), "dcd": lim(base + 0x40), "csf": [0, 0], "entry": lim(entry),
           "bdStart": lim(start), "bdLen": ivt_off + file_len, "plugin": 0, "flags": 0, "hasDcd": True, "hasXmcd": False, "hasCsf": False,
           "appAt": app_at, "cStart": lim(start), "cIvtOff": ivt_off, "nCmds": 0, "ivtEq": True, "bdEq": True, "cfgAt": 0x40, "cfgLen": n,
           "xSize": -1, "xIface": -1, "xInst": -1, "xType": -1, "dVer": 0x40, "dN": len(cmds), "cfgEq": True, "appEq": True, "csfEq": True, "reexpEq": True}]
    return {"id": f"canary/dcd-{len(cmds)}cmds/good", "inp": inp, "ev": ev, "meta": {}}


def corrupt(good, prefix, fields):
    out = []
    for i, (evn, fld, fn) in enumerate(fields):
        ev = json.loads(json.dumps(good["ev"]))
        idx = [k for k, e in enumerate(ev) if e["ev"] == evn and fld in e and (fld != "blocks" or len(e[fld]) > 1)]
        if not idx:
            continue
        k = idx[-1] if evn == "Authenticate" else idx[0]
        ev[k][fld] = fn(ev[k][fld])
        out.append({"id": f"{prefix}/bad{i}-{evn}.{fld}", "inp": good["inp"], "ev": ev, "meta": {}})
    return out


def canary_batch(traces, anchors):
    """Known-good traces and the same traces with one corrupted field each.  The first known-good trace is a frozen golden image
    (independent of the tree under test): it must be accepted and every corrupted copy rejected.  Up to three traces of this run
    are added (they also carry the ParseBack step): for each of them that TLC accepts, every corrupted copy must be rejected."""
    good = next((t for t in anchors if t["inp"]["flags"] == "auth" and t["inp"]["cfgKind"] == "dcd"), None)
    if good is None:
        raise Machinery("no authenticated golden image with DCD for the canary")
    groups = [("canary/anchor", dict(good, id="canary/anchor/good"), True, CANARY_FIELDS)]
    for kind in sorted(XMCD_KIND_CFG):  # one hand-written trace per XMCD kind: the kind table of the spec = the golden blocks
        groups.append((f"canary/xmcd-{kind}", synthetic_xmcd_trace(kind), True, XMCD_CANARY_FIELDS))
    # hand-written traces for the DCD step: the smallest legal DCD (header only) and one with a command of every kind, HAB 4.0 header
    for cmds in ([], [{"tag": 0xCC, "len": 12}, {"tag": 0xC0, "len": 4}, {"tag": 0xCF, "len": 16}, {"tag": 0xB2, "len": 8}]):
        groups.append((f"canary/dcd-{len(cmds)}cmds", synthetic_dcd_trace(cmds), True, DCD_CANARY_FIELDS))
    cands = [t for t in traces if "inp" in t and t["inp"]["flags"] == "auth" and t["inp"]["cfgKind"] == "dcd" and t["ev"][-1]["ev"] == "ParseBack"
             and t["ev"][-1].get("ok") and "/t/" not in t["id"]][:3]
    for k, t in enumerate(cands):
        groups.append((f"canary/run{k}", {"id": f"canary/run{k}/good", "inp": dict(t["inp"], waive=[]), "ev": t["ev"], "meta": {}}, False, CANARY_FIELDS))
    batch = []
    for prefix, g, _must, fields in groups:
        batch += [g] + corrupt(g, prefix, fields)
    hb, hg = history_canary(anchors)
    return batch + hb, groups + hg


def history_canary(anchors):
    """Known-good HISTORY written from two different golden images (NXP's tool chain, different SRK tables / certificates): the walk
    over the first, NextBuild, the walk over the second, judged against the inputs of the first resp. the second.  Must be accepted;
    rejected must be: the same events judged against the inputs in the other order (every image against the material of the OTHER
    project), a second image whose CMS signature does not verify under its installed certificate / whose certificate is not the
    configured one / whose SRK table is not the one of the reported fuse value, a wrong build index, a missing second image, a second
    image without the NextBuild event, a NextBuild behind an image that was not accepted."""
    good = [t for t in anchors if t["id"] not in ANCHOR_MUST_REJECT and t["inp"]["flags"] == "auth" and t["ev"][-1]["ev"] == "Accept"]
    pair = next(((a, b) for a in good for b in good if a["inp"] != b["inp"] and [e for e in a["ev"] if e["ev"] == "ParseIvt"] != [e for e in b["ev"] if e["ev"] == "ParseIvt"]), None)
    if pair is None:
        raise Machinery("no two different authenticated golden images for the history canary")
    a, b = pair
    nb = {"ev": "NextBuild", "idx": 2, "proj": "b"}
    ev = a["ev"] + [nb] + b["ev"]
    n1 = len(a["ev"])
    g = {"id": "canary/hist/good", "inps": [a["inp"], b["inp"]], "ev": ev, "meta": {}}

    def mod(name, fn, inps=None):
        e2 = json.loads(json.dumps(ev))
        e2 = fn(e2)
        return {"id": f"canary/hist/bad-{name}", "inps": inps or g["inps"], "ev": e2, "meta": {}}

    def set_last(evn, fld, val):
        def fn(e2):
            k = [i for i, e in enumerate(e2) if i >= n1 and e["ev"] == evn and fld in e][-1]
            e2[k][fld] = val
            return e2
        return fn

    def drop_accept_of_first(e2):
        return [e for i, e in enumerate(e2) if i != n1 - 1]

    bad = [mod("inps-swapped", lambda e2: e2, [b["inp"], a["inp"]]), mod("second-sigOk", set_last("Authenticate", "sigOk", False)),
           mod("second-certMatch", set_last("InstallKey", "certMatch", False)),
           mod("second-fuseOk", lambda e2: [dict(e, fuseOk=False) if (i > n1 and "fuseOk" in e) else e for i, e in enumerate(e2)]),
           mod("idx", set_last("NextBuild", "idx", 1)), mod("second-missing", lambda e2: e2[:n1]),
           mod("no-nextbuild", lambda e2: e2[:n1] + e2[n1 + 1:]), mod("first-not-accepted", drop_accept_of_first)]
    return [g] + bad, [("canary/hist", g, True, bad)]


def canary_check(batch, groups, rej):
    n_bad = 0
    for prefix, g, must, fields in groups:
        if g["id"] in rej:
            if must:
                raise Machinery(f"canary failed: the known-good trace {g['id']} (golden image / hand-written) was rejected: {rej[g['id']]}")
            continue  # a trace of this run that the R-spec rejects is reported by the normal path
        bad = [b["id"] for b in batch if b["id"].startswith(prefix + "/bad")]
        acc = [i for i in bad if i not in rej]
        if prefix == "canary/hist" and (rej.get("canary/hist/bad-second-sigOk", (0, 0, ""))[2] != "Authenticate"
                                        or rej.get("canary/hist/bad-second-missing", (0, 0, ""))[2] != "Accept"):
            raise Machinery(f"history canary: corrupted histories rejected at an unexpected step: {[(i, rej.get(i)) for i in bad]}")
        if acc or len(bad) < (len(fields) if must and fields is not CANARY_FIELDS else 4):
            raise Machinery(f"canary failed: corrupted copies accepted {acc} ({len(bad)} corrupted copies of {g['id']})")
        n_bad += len(bad)
    n_x = len(XMCD_KIND_CFG)
    n_d = sum(1 for prefix, _g, _m, _f in groups if prefix.startswith("canary/dcd-"))
    return (f"{len(groups)} known-good traces (1 golden image + {n_x} hand-written XMCD traces, one per kind + {n_d} hand-written DCD traces "
            f"(header only / every command kind, version 0x40) + 1 history of two different golden images + {len(groups) - 2 - n_x - n_d} of this run), "
            f"{n_bad} corrupted copies of the accepted ones rejected")


def strip(t):
    if "inps" in t:
        return {"id": t["id"], "inps": t["inps"], "ev": t["ev"]}
    return {"id": t["id"], "inp": t["inp"], "ev": t["ev"]}


WAIVERS = [("C07/*/Xmcd/match/*", "xmcdMatch"), ("C07/*/Accept/uncovered-cfg/*", "cfgCoverage")]


def decide(v, traces):
    """TLC decides every trace.  A main trace rejected under a KNOWN finding key that has a waiver is validated again with that one
    clause waived (HabRom.tla, inp.waive) so that the known defect does not hide later steps; tampered copies are judged only
    for originals accepted without any waiver.  Returns (#accepted, #accepted after waiver, #tamper rejected, #tamper total)."""
    import fnmatch

    for t in traces:
        for i in (t["inps"] if "inps" in t else [t["inp"]]):
            i["waive"] = []
    anchors = anchor_traces()
    cb, groups = canary_batch(traces, anchors)
    mains = [t for t in traces if "/t/" not in t["id"]]
    tampers = [t for t in traces if "/t/" in t["id"]]
    rej, _ = tlc.tv("C07", "HabRomTrace", [strip(t) for t in cb + anchors + traces], heap="8g", timeout=1500)
    v.extra["canary"] = canary_check(cb, groups, rej)  # decided first: nothing below counts if the monitor is not bound
    bad_anchors = [(t["id"], rej[t["id"]]) for t in anchors if t["id"] in rej and t["id"] not in ANCHOR_MUST_REJECT]
    if bad_anchors or len(anchors) < 11:
        raise Machinery(f"golden images (anchors/C07, not produced by the tree under test) rejected by the automaton: {bad_anchors}")
    not_rejected = [i for i, evn in ANCHOR_MUST_REJECT.items() if i not in rej or rej[i][2] != evn]
    if not_rejected:
        raise Machinery(f"negative golden image (signed with another key than the installed SRK) not rejected at the expected step: {not_rejected}")
    v.extra["anchors_accepted"] = len(anchors) - len(ANCHOR_MUST_REJECT)
    v.extra["anchors_rejected_as_expected"] = sorted(ANCHOR_MUST_REJECT)
    v.traces(len(traces) + len(anchors))
    clean = {t["id"] for t in mains if t["id"] not in rej}
    for tid in clean:
        v.nontrivial(tid)
    # the ROM part (everything up to and including Accept) was accepted without waiver: tampered copies of these are judged
    rom_ok = clean | {t["id"] for t in mains if t["id"] in rej and rej[t["id"]][2] == "ParseBack"}
    n_waived_ok = 0
    todo = [(t, rej[t["id"]]) for t in mains if t["id"] in rej]
    for _round in range(3):
        again = []
        for t, (matched, ln, evn) in todo:
            key = finding_key(t, matched)
            e = t["ev"][matched] if matched < ln else {}
            if "hist" in t["meta"]:  # a history: which image, after which builds
                h, k = t["meta"]["hist"], min(build_of(t, min(matched, ln - 1)), len(t["meta"]["builds"]) - 1)
                what = (f"R-spec rejects step {matched + 1}/{ln} ({evn}) of a history of builds in one process: image {k + 1} of {len(h['builds'])} "
                        f"(projects {'-'.join(h['shape'])}: PKI trees {h['tree']} / {h['tree']}_b with the same file names, keys named by the same relative strings, "
                        f"key-path variant {h['keyvar']}) built for {json.dumps(h['builds'][k])[:300]}: {json.dumps(e)[:400]}")
                v.violation(key, what, {"hist": h, "case": h["builds"][k], "image": k + 1, "rejected_at": matched, "event": e, "trace": t["ev"], "inps": t["inps"]})
                continue
            new = v.violation(key, f"R-spec rejects step {matched + 1}/{ln} ({evn}) of the image built for {json.dumps(t['meta']['case'])[:300]}: {json.dumps(e)[:400]}",
                              {"case": t["meta"]["case"], "rejected_at": matched, "event": e, "trace": t["ev"], "inp": t["inp"]})
            w = next((w for pat, w in WAIVERS if fnmatch.fnmatchcase(key, pat)), None)
            if not new and w and w not in t["inp"]["waive"]:
                t2 = dict(t)
                t2["inp"] = dict(t["inp"], waive=t["inp"]["waive"] + [w])
                again.append(t2)
        if not again:
            break
        rej2, _ = tlc.tv("C07", "HabRomTrace", [strip(t) for t in again], heap="8g", timeout=1500)
        v.traces(len(again))
        n_waived_ok += sum(1 for t in again if t["id"] not in rej2)
        todo = [(t, rej2[t["id"]]) for t in again if t["id"] in rej2]
    n_t = n_trej = 0
    accepted_tampers = []
    for t in tampers:
        if t["id"].split("/t/")[0] not in rom_ok:
            continue
        n_t += 1
        if t["id"] in rej:
            n_trej += 1
        else:
            accepted_tampers.append(t["id"])
    if accepted_tampers:
        raise Machinery(f"acceptance automaton accepted {len(accepted_tampers)} tampered copies of accepted images: {accepted_tampers[:5]}")
    return len(clean), n_waived_ok, n_trej, n_t


def run(tier):
    import_spsdk()
    hab_keys.ensure()
    v = Verdict(PROP, tier)
    db_lays()
    preload()

    # ---- MC: automaton + documented layout in small scope
    acts = ["DoParseIvt", "DoBootData", "DoDcd", "DoXmcd", "DoApp", "DoCsfHeader", "DoInstallSrk", "DoInstallCsfk", "DoAuthenticateCsf",
            "DoInstallImgk", "DoAuthenticateData", "DoInstallSecretKey", "DoDecryptData", "DoOtherCmd", "DoCsfEnd", "DoAccept", "DoParseBack"]
    mc = tlc.mc("C07", "HabRomMC", require_actions=acts, env={"MC_FULL": 0 if tier == "quick" else 1}, timeout=1200, heap="6g")
    v.add_mc(mc)
    say(f"[C07] MC HabRomMC: {mc.distinct} states, depth {mc.depth}, {mc.wall:.1f}s, all {len(acts)} actions fired, 8 lemmas hold "
        f"(incl. every parse mutant rejected by the round-trip clause; every XMCD kind x flag and every DCD shape x header version x flag in scope; "
        f"builders that force the DCD version / drop the DCD but keep the IVT pointer rejected at the DCD step)")

    # ---- MC of the history dimension: builders with a memory, two projects with the same file names
    mh = tlc.mc("C07", "HabHistMC", require_actions=["Build"], timeout=300)
    if mh.distinct != 9 * (1 + 4 + 16 + 64):  # every history of up to three builds, for every builder
        raise Machinery(f"HabHistMC explored {mh.distinct} states, expected 765")
    v.add_mc(mh)
    say(f"[C07] MC HabHistMC: {mh.distinct} states ({mh.wall:.1f}s), 4 lemmas hold (reference builder isolated; a memory keyed by the unresolved name is invisible to "
        f"single builds / one-project histories and rejected in every history of the generator's shapes)")

    # ---- GEN
    cases, hists, g = gen_cases(tier)
    v.add_mc(g)
    say(f"[C07] GEN HabGen: {len(cases)} abstract cases + {len(hists)} histories of {sum(len(h['builds']) for h in hists)} builds ({g.wall:.1f}s)")
    # the history dimension is spanned in EVERY tier: every key tree x every key-path variant in a history that builds project a
    # and then project b (same relative names, different key files), all builds authenticated or encrypted
    have_h = {(h["tree"], h["keyvar"]) for h in hists if h["shape"][:2] == ["a", "b"]
              and all(b["naming"] == "rel" and b["flags"] != "plain" and b["tree"] == h["tree"] and b["src"] == h["src"] for b in h["builds"])}
    want_h = {(t, kv) for t in hab_keys.K.TREES for kv in ("pk", "sp", "auto")}
    if want_h - have_h:
        raise Machinery(f"GEN does not span the history dimension: missing {sorted(want_h - have_h)[:5]}")
    twins_bad = [t for t in hab_keys.K.TREES if not hab_keys.same_names_different_keys(t)]
    if twins_bad:
        raise Machinery(f"twin PKI trees do not have the same file names with different contents: {twins_bad}")
    # every XMCD kind under every flag, from every source, is in the case list of EVERY tier (deterministic, not sampled)
    have = {(c["xmcdKind"], c["flags"], c["xmcdVar"]) for c in cases if c["cfg"] == "xmcd"}
    want = {(k, f, s) for k in XMCD_KIND_CFG for f in ("plain", "auth", "enc") for s in ("golden", "tmpl", "rand")} | \
           {("raw", f, "rand") for f in ("plain", "auth", "enc")}
    if want - have:
        raise Machinery(f"GEN does not span the XMCD dimension: missing {sorted(want - have)[:5]}")
    # ... and so is the shape of the supplied DCD: every shape x header version (0x40 / 0x41 / another 4.x) x flag
    have_d = {(c["dcdShape"], c["dcdVerSel"], c["flags"]) for c in cases if c["cfg"] == "dcd"}
    want_d = {(sh, vs, f) for sh in ("hdr", "one", "wr", "chk", "misc", "mix") for vs in (0, 1, 2) for f in ("plain", "auth", "enc")}
    if want_d - have_d or not any(c["cfg"] == "dcd" and c["cfgLen"] == 4 and c["dcdVer"] == 0x40 for c in cases):
        raise Machinery(f"GEN does not span the DCD shape dimension: missing {sorted(want_d - have_d)[:5]}")
    # ... and the supplied nonce of an encrypted image: every legal length x encrypted data below / at / above 2^16 bytes
    have_n = {(c["nonceLen"], (-(-c["appLen"] // 16) * 16 >= 0x10000)) for c in cases if c["flags"] == "enc" and c["nonceGiven"] and c["appLen"] >= 0xF000}
    want_n = {(n, over) for n in range(7, 14) for over in (False, True)}
    if want_n - have_n:
        raise Machinery(f"GEN does not span nonce length x CCM length-field boundary: missing {sorted(want_n - have_n)[:5]}")
    prepare_xmcd()
    failed = {k: note for k, (b, note) in _xmcd_tmpl.items() if b is None}
    v.extra["xmcd_blocks"] = {"golden": {k: len(xmcd_golden(k)) for k in sorted(XMCD_KIND_CFG)},
                              "template": {k: (len(b) if b is not None else None) for k, (b, _n) in sorted(_xmcd_tmpl.items())},
                              "template_family": next((n for b, n in _xmcd_tmpl.values() if b is not None), None),
                              "template_failed": failed}
    if failed:
        say(f"[C07] note: SPSDK's XMCD class could not build {sorted(failed)} from its template ({list(failed.values())[0]}); "
            f"these cases use the golden block (the XMCD class is not the subject of C07)")

    # ---- build + execute (+ tamper) on the real code
    n_t = 1 if tier == "quick" else 3
    every = 6 if tier == "quick" else 4
    args = [(c, n_t if (c["flags"] != "plain" and c["id"] % every == 0) else 0) for c in cases]
    t0 = v.timer.s()
    # histories: every history is built in ONE process (a worker builds its history from the first to the last image); they go
    # first into the pool, the ones with the biggest keys ahead (the longest tasks), the single builds fill the rest
    weight = {"rsa4096": 0, "rsa3072": 1, "p521": 2}
    hsorted = sorted(hists, key=lambda h: (weight.get(h["tree"], 3), -len(h["builds"]), h["hid"]))
    res = pmap(run_item, [("h", h) for h in hsorted] + [("c", a) for a in args], chunksize=1)
    traces = [t for group in res[len(hsorted):] for t in group]
    n_single = len(traces)
    htraces = sorted((t for group in res[:len(hsorted)] for t in group), key=lambda t: t["meta"]["hist"]["hid"])
    traces += htraces
    n_hbuilds = sum(len(t["inps"]) for t in htraces)
    v.count(n_single + n_hbuilds)
    say(f"[C07] executed {len(cases)} builds, {n_single - len(cases)} tampered copies, {len(htraces)} histories of {n_hbuilds} builds ({v.timer.s() - t0:.1f}s)")

    n_ok, n_wok, n_trej, n_tt = decide(v, traces)
    v.extra["tamper_rejected"] = f"{n_trej}/{n_tt}"
    v.extra["accepted_untampered"] = n_ok
    v.extra["accepted_with_known_clause_waived"] = n_wok
    v.extra["histories"] = {"n": len(hists), "builds": n_hbuilds, "shapes": sorted({"-".join(h["shape"]) for h in hists}),
                            "trees": sorted({h["tree"] for h in hists}), "keyvars": sorted({h["keyvar"] for h in hists})}
    for t in traces[:400:97]:
        v.sample({"id": t["id"], "inp": t["inp"], "ev": [{k: (x if not isinstance(x, list) or len(x) < 6 else x[:6]) for k, x in e.items()} for e in t["ev"]][:8]})
    say(f"[C07] TV done at {v.timer.s():.1f}s")
    say(f"[C07] TV HabRomTrace: {n_ok}/{len(cases) + len(hists)} untampered images / histories accepted (+{n_wok} with a known-finding clause waived), "
        f"{n_trej}/{n_tt} tampered images rejected")
    v.cov["rule"] = ("cases = states of HabGen (layout class x application size around the 4 KiB / 16-byte boundaries x plain/auth/enc x "
                     "none/DCD, flags x SHAPE OF THE SUPPLIED DCD (header only = 4 bytes / one Write Data command / several Write Data / several Check Data / "
                     "NOP + Unlock / every kind) x DCD header version (0x40 / 0x41 / another 4.x), and layout class x plain/auth/enc x XMCD kind (FlexSPI RAM simplified 8 / 12 B, SEMC SDRAM simplified 13 B, "
                     "SEMC SDRAM full 72 B, FlexSPI RAM full 516 B, raw header + bytes of 8..516 B) x source of the block (golden / built by "
                     "SPSDK's XMCD class from its template / random configuration bytes); secondary dimensions spread by index) "
                     "+ HISTORIES of 2..3 authenticated / encrypted builds in one process (key tree x key-path variant x shape a-b / b-a-b / ...: projects a and b are two PKI trees "
                     "with the same file names and different keys, every build names keys and certificates by the same relative strings resolved through its own "
                     "search path; every image judged against the material of its own project); one evaluation = one image built by HabContainer.load_from_config "
                     "and walked by the executor (or one single-bit tampered copy); a case is non-trivial if TLC accepted its whole trace "
                     "(every ROM step + SPSDK's own parse)")
    v.cov["exhaustive"] = False
    v.cov["checker_cmd"] = "TLC HabRomMC (lemmas) ; TLC HabHistMC (lemmas of the history dimension) ; TLC HabGen (cases + histories) ; TLC HabRomTrace (decides each trace)"
    v.extra["trusted_base"] = ["TLC 2 (tla2tools.jar) + CommunityModules (Json, IOUtils)", "hashlib (SHA-256)",
                               "cryptography: RSA PKCS#1 v1.5 / ECDSA verification, X.509 parsing, AESCCM - called directly, never through spsdk.crypto",
                               "asn1crypto: CMS / X.509 DER parsing", "harness/c07.py executor (validated step by step by HabRomTrace: every range it used is recomputed)"]
    v.assumptions += [
        "application offset (initial load size - IVT offset) is one of the device offsets of the database / of the repository's examples (0x400, 0xC00, 0x1000, 0x2000)",
        "DCD and XMCD are alternatives (both live at IVT+0x40); DCD words are chosen so that no byte pattern imitates a Thumb reset vector or an XMCD tag for SPSDK's heuristic parser; "
        "likewise the byte of an XMCD block at file offset 0x104 (a place the heuristic application finder probes) is even",
        "DCDs given to the builder are well formed (tag 0xD2, HAB major version 4: header version 0x40..0x45, commands Write Data / Check Data / NOP / Unlock of legal "
        "lengths, at most 332 bytes); NOT generated, hence not asserted: Check Data with an explicit count of 0 and Unlock commands with more or fewer than one "
        "feature word (SegDCD.parse of the unchanged tree refuses / does not reproduce them: no image is built from them), header versions outside 4.x",
        "XMCD blocks are the kinds that exist for RT116x / RT117x (anchors/C07/xmcd, HabLayout!XmcdKinds) or a well-formed header + arbitrary bytes of 8..516 bytes "
        "(no block bigger than the biggest real kind is asserted); the XMCD is accepted with every layout whose application offset is >= 0xC00, whatever the family",
        "parse-back of encrypted images is not observable (known finding C07/enc/ParseBack/...): the XMCD round trip is decided for plain and authenticated images",
        "fast authentication (NOCAK): the key index written into Authenticate CSF is not asserted (0 or 1), only that the signature verifies under the SRK",
        "private keys are unencrypted PEM files (no pass phrase prompt); HAB engine / engine configuration bytes are not asserted",
        "the DEK blob itself is produced on the device and is not part of the image: only its location and the room reserved for it are checked",
        "CMS: one SignerInfo, signed attributes contentType/signingTime/messageDigest; the signing time is not asserted",
        "histories: every image of a history is judged on its own (ROM walk up to Accept, fresh registers, inputs of its own project); NOT asserted, because the property does "
        "not state it: that an image built after other builds is byte-identical to the image a fresh process builds, and that a DEK / nonce generated for a build differs "
        "from the ones of earlier builds (a given DEK / nonce must be the one used, and the DEK file of the build must decrypt - per image); SPSDK's parse-back is judged "
        "for the single builds only",
    ]
    return v.finish()


def replay(path):
    import_spsdk()
    hab_keys.ensure()
    db_lays()
    w = json.load(open(path))["witness"]
    if w.get("hist"):  # a history: all its builds again, in this process
        traces = run_hist(w["hist"])
        for t in traces:
            for i in t["inps"]:
                i["waive"] = []
    else:
        traces = run_case((w["case"], 0))
        for t in traces:
            t["inp"]["waive"] = list(w.get("inp", {}).get("waive", []))
    rej, _ = tlc.tv("C07", "HabRomTrace", [strip(t) for t in traces])
    for t in traces:
        say(json.dumps({"id": t["id"], "ev": t["ev"]})[:3000])
    if rej:
        say(f"VIOLATION property=C07 replay={path}")
        say(f"  rejected: {rej}")
        return 1
    say("replay: trace conforms")
    return 0
