"""C01, range lane - a number a header field cannot hold is REFUSED, a number it can hold is CARRIED; never accepted and altered.

spec/C01/Mbi.tla      : "what a header field can hold" - the fields (image version 16 bits, image sub-type 2 bits, load address and firmware
                        version 32 bits), wide values <<l2, l1, l0>>, Fits / Cut, the value classes of a request, the clause Carried
spec/C01/MbiRange.tla : MC + GEN - per composition x offered field x value class x example: the two answers a builder has (refuse / carry) meet the
                        clause, a field of n bits holds exactly what fits; the builder that cuts to the width is refuted by TLC (RANGE_CUT=1)
spec/C01/MbiTrace.tla : TV - TRequest (the request lies in the class it claims) / TOutcome (Carried on what the real builder did)

This module only ASKS the real builder (load_from_config route and class-constructor route) for an image with one numeric setting replaced by
the requested number, and reads the field off the emitted bytes (struct) and off the parsed object.  A refusal is any exception on the way
from the option set to the bytes.
"""
import os
import shutil
import struct

from lib import mbi_build as B
from lib.common import rng, scratch

PROP = "C01"
FIELD_OPT = {"imgVer": "img_ver", "sub": "sub", "load": "load", "fwVer": "fw_ver"}
FIELD_ATTR = {"imgVer": "image_version", "sub": "image_subtype", "load": "load_address", "fwVer": "firmware_version"}
WIDTH = {"imgVer": 16, "sub": 2, "load": 32, "fwVer": 32}       # only used to DRAW seeded members of a class; the spec checks the class (InClass)
ROUTES = {"imgVer": ("cfg", "ctor"), "load": ("cfg", "ctor"), "fwVer": ("cfg", "ctor"),
          "sub": ("ctor",)}   # the configuration names sub-types by label (main / nbu / recovery): no number can be requested there


def wide(n):
    return [(n >> 32) & 0xFFFF, (n >> 16) & 0xFFFF, n & 0xFFFF]


def unwide(w):
    return (w[0] << 32) | (w[1] << 16) | w[2]


def draw(field, cls, r):
    """A seeded member of the classes that have more than one member (None for the single-valued ones)."""
    n = WIDTH[field]
    if cls == "alias" and n < 32:
        while True:
            v = (r.randrange(1, 1 << (32 - n)) << n) | r.randrange(1, 1 << n)
            if v != 0xFFFFFFFF:
                return wide(v)
    if cls == "beyond":
        return wide((r.randrange(1, 0x8000) << 32) | r.getrandbits(32) | 1)
    return None


def plan(cases, comps, mem, tier, twin_of, sub_labels):
    """Every printed case on a member of its composition through every route that can express the request; per (composition, field) one more
    seeded member of each many-valued class.  Members whose class the reader finds by its own type word come first and rotate."""
    by_id = {c["id"]: c for c in comps}
    turn, jobs, seen = {}, [], set()
    cases = sorted(cases, key=lambda c: (c["c"], c["field"], c["class"], c["w"]))
    extra = []
    for case in cases:
        k = (case["c"], case["field"], case["class"])
        if k in seen:
            continue
        seen.add(k)
        for rep in range(1 if tier == "quick" else 6):
            w = draw(case["field"], case["class"], rng(PROP, "range", *k, rep))
            if w is not None:
                extra.append(dict(case, w=w))
    for n, case in enumerate(cases + extra):
        comp = by_id[case["c"]]
        ms = [dict(m, twin=twin_of(m, mem)) for m in comp["members"]]
        own = [m for m in ms if m["twin"] == "self"] or ms
        t = turn.get(case["c"], 0)
        turn[case["c"]] = t + 1
        member = own[t % len(own)]
        member["sub_labels"] = sub_labels(member)
        for route in ROUTES[case["field"]]:
            jobs.append({"case": case, "member": member, "rid": n, "route": route})
    return jobs


def observe(job):
    wd = os.path.join(scratch(), "c01", f"r{job['rid']}{job['route']}")
    try:
        return _observe(job, wd)
    finally:
        shutil.rmtree(wd, ignore_errors=True)


def read_field(field, data):
    """The field as the ROM reads it: struct on the emitted bytes only.  -> (present flag, number) or None if the place cannot be found."""
    _, flags, _, load = B.header_words(data)
    if field == "imgVer":
        return bool(flags & 0x400), (flags >> 16) & 0xFFFF
    if field == "sub":
        return True, (flags >> 6) & 3
    if field == "load":
        return True, load
    certs = B.find_cert_headers(data)
    at = data.find(b"imgm", certs[0]) if certs else -1
    if at < 0 or at + 20 > len(data):
        return None
    return True, struct.unpack_from("<I", data, at + 8)[0]


def _observe(job, wd):
    import c01 as C

    case, member, route = job["case"], job["member"], job["route"]
    field, w = case["field"], case["w"]
    o = C.concretise({"c": case["c"], "x": case["x"]}, member, job["rid"], route, rng(PROP, "range", "base", job["rid"]))
    o[FIELD_OPT[field]] = unwide(w)
    if field == "sub":
        o.pop("sub_label", None)
    cls_rec = {"id": case["c"], "type": member["type"], "mixins": member["mixins"]}
    meta = {"rid": job["rid"], "route": route, "twin": member.get("twin", "self"), "c": case["c"], "x": case["x"], "field": field, "class": case["class"], "w": w,
            "member": {k: member[k] for k in ("family", "revision", "target", "auth", "cls")}}
    req = {"ev": "Request", "field": field, "class": case["class"], "w": w}
    out = {"ev": "Outcome", "built": False, "present": False, "emitted": [0, 0, 0], "parsed": [0, 0, 0], "exc": "", "flags": [0, 0], "pexc": ""}
    try:
        mbi, _ = (B.build_config if route == "cfg" else B.build_ctor)(member, o, wd)
        data = mbi.export()
    except Exception as e:  # noqa: BLE001 - refused: nothing was emitted
        out["exc"] = f"{type(e).__name__}: {str(e)[:120]}"
    else:
        got = read_field(field, data)
        flags = B.header_words(data)[1]
        out.update(built=True, flags=[flags >> 16, flags & 0xFFFF])
        out["present"], out["emitted"] = (got[0], wide(got[1])) if got else (False, [65535, 65535, 65535])
        try:
            q = B.parse_image(member, data, o)
            val = getattr(q, FIELD_ATTR[field], None)
            out["parsed"] = wide(int(val)) if isinstance(val, int) and 0 <= val < 1 << 48 else [65535, 65535, 65535]
            if not isinstance(val, int):
                out["pexc"] = f"attribute {FIELD_ATTR[field]} = {val!r}"
        except Exception as e:  # noqa: BLE001 - a reader that gives nothing back: decided by the spec (parsed is no number of the case space)
            out["parsed"] = [65535, 65535, 65535]
            out["pexc"] = f"{type(e).__name__}: {str(e)[:120]}"
    return {"t": {"cls": cls_rec, "x": case["x"], "ev": [{"ev": "Build"}, req, out]}, "meta": meta, "built": out["built"]}


def key_of(trace, matched, meta):
    ev = trace["ev"][min(matched, len(trace["ev"]) - 1)]
    what = ev["ev"]
    if what == "Outcome":
        w = meta["w"]
        fits = unwide(w) < 1 << WIDTH[meta["field"]]
        what = ("altered" if not fits else "emitted" if ev["emitted"] != w else "parsed" if ev["parsed"] != w else "present")
    return f"C01/{meta['c']}/Carried/Outcome:{meta['field']}:{meta['class']}:{what}/route={meta['route']},twin={meta.get('twin', 'self')}"


# ------------------------------------------------------------------ canary
def canary(good, bad, expect):
    """Recorded range traces of one real composition (anchors/C01/canary_range.json: image version, load address and firmware version of a v2.1 signed
    image asked for at the top of the field, one above it and far beyond, through both entry points - recorded once on the pinned tree) must be accepted.
    Rejected at the Outcome event must be: a refused request turned into 'built with the low bits of the number' (accepted-and-altered), and a
    carried request whose emitted field / parsed number / version-present flag is off by one bit."""
    import json

    from lib.common import ROOT

    with open(os.path.join(ROOT, "anchors", "C01", "canary_range.json")) as f:
        rec = json.load(f)
    n = 0
    for i, t in enumerate(rec):
        good.append(dict(t, id=f"goodR-{i}"))
        req, out = t["ev"][1], t["ev"][2]

        def variant(tag, **changes):
            u = json.loads(json.dumps(t))
            u["ev"][2].update(changes)
            u["id"] = f"badR-{i}-{tag}"
            bad.append(u)
            expect.add((u["id"], 3, "Outcome"))

        if not out["built"] and req["class"] not in ("zero", "one", "top"):
            cut = wide(unwide(req["w"]) & ((1 << WIDTH[req["field"]]) - 1))
            variant("altered", built=True, present=True, emitted=cut, parsed=cut)
            variant("spilled", built=True, present=True, emitted=req["w"], parsed=req["w"])   # even a reader that 'gives it back' cannot make it fit
            n += 2
        elif out["built"]:
            variant("emitted", emitted=out["emitted"][:2] + [out["emitted"][2] ^ 1])
            variant("parsed", parsed=out["parsed"][:2] + [out["parsed"][2] ^ 1])
            n += 2
            if req["field"] == "imgVer":
                variant("present", present=not out["present"])
                n += 1
    if n < 12:
        raise RuntimeError(f"range canary: only {n} corruptions derived from {len(rec)} recorded traces")
    return len(rec), n
