"""C14, lane "container kinds": application containers of EVERY kind a family supports, supplied as a binary file and as the YAML
configuration of the container (the segment then holds the container OBJECT and asks it for its length and its bytes), merged through
BootableImage.load_from_config + export and through `nxpimage bootable-image merge`.

spec/C14/BimgKinds.tla : MC + GEN of the dimension.  An OFFER is one container kind of one device with the payload lengths of its
                         STANDALONE export; TLC enumerates offer x form (bin / yaml) x route (api / cli) x requested start (full image /
                         image that starts at the container), checks the lemmas of Bimg and ContainerWhole / StartsWithContainer /
                         NeverRefused / OfferOK on every walk and emits each case with the placement the R-spec prescribes.
spec/C14/BimgTrace.tla : decides every executed case (the reader of Bimg; clause ContOk for the container of a trace of this lane).

Kinds (read from the device database at run time):
  MBI   every (execution target, authentication type) of the family's `images` table: plain, CRC, signed with certificate block v1 (RSA) or
        v2.1 (ECDSA), NXP-signed, encrypted (+signed) - built through the shared MBI driver lib.mbi_build (the driver of C01 / C02)
  HAB   plain (no CSF)                      [authenticated / encrypted HAB containers: see assumptions - not in this lane]
  AHAB  container set unsigned / signed (SRK table of four keys; ECDSA or RSA-PSS)

Python only EXECUTES: it builds the container standalone through the public builder of its class (that export is the payload of the case),
writes the two forms, drives the real BootableImage / the real command, finds the container in the exported bytes by its first bytes and logs
facts: where it lies, what the object says (offset, length), whether the bytes are those of the standalone export (`same`), and - for the
kinds with a randomised signature - whether they are equal outside the signature (`sameOutside`) and whether the signature found in the image
verifies over the bytes found in the image (`acc`; `cryptography` primitives only: lib.mbi_rom.ecdsa_ok, lib.ahab_rom.walk).
"""
import json
import os

from lib import tlc
from lib.common import Machinery, rng, say, scratch
from lib.par import pmap

PROP = "C14"
MBI_APP = 0x1234
AHAB_IMGS = {"primary": 0x7F4, "secondary": 0x1234}
V1_CERTS = ("r4x2048k0", "chain3x4096", "r3mixed3072", "chain2")
V21_CERTS = ("p256x4k0", "p384x4k3", "p256x1", "p384x4k0")     # (without an ISK certificate: its signature inside the certificate block is randomised as well)
AHAB_KEYS = ("ecc256", "ecc384", "rsa2048", "ecc521")
AHAB_SEGS = ("ahab_container", "primary_image_container_set", "secondary_image_container_set")


# ------------------------------------------------------------------ what the database offers
def mbi_members(fam, rev):
    """Every (target, authentication) image of the family's MBI table with its mixin list (the shape lib.mbi_build works with)."""
    from lib import mbi_build as MB
    from spsdk.utils.database import DatabaseManager, get_db

    db = get_db(fam, rev)
    classes = db.get_dict(DatabaseManager.MBI, "mbi_classes")
    images = db.get_dict(DatabaseManager.MBI, "images")
    out = []
    for target, auths in images.items():
        for auth, cn in auths.items():
            d = classes[cn]
            out.append({"family": fam, "resolved": fam, "revision": rev, "target": target, "auth": auth, "cls": cn, "image_type": d["image_type"],
                        "type": MB.IMAGE_TYPES[d["image_type"]], "mixins": [m.replace("Mbi_", "").replace("Mixin", "") for m in d["mixins"]]})
    return out


def mbi_kind(m):
    cb = "certv1-rsa" if "CertBlockV1" in m["mixins"] else "certv21-ecc" if "CertBlockV21" in m["mixins"] else "nocert"
    return f"mbi.{m['auth']}.{cb}"


def kinds_of(fam, rev, cname):
    """-> [(kind label, group = what makes two offers the same construction, builder arguments)] of a container segment of the family"""
    from lib import mbi_build as MB

    if cname == "mbi":
        # (the export mixins are what assembles - and measures - the image: application, TrustZone block, certificate block, CRC / signature)
        return [(mbi_kind(m), f"{mbi_kind(m)}:{m['image_type']}:{'+'.join(x for x in m['mixins'] if x.startswith('Export'))}", m) for m in mbi_members(fam, rev)]
    if cname == "hab_container":
        return [("hab.plain", "hab.plain", None)]
    return [("ahab.unsigned", "ahab.unsigned", None), ("ahab.signed", "ahab.signed", None)]


# ------------------------------------------------------------------ standalone containers (the payload of a case)
class Skip(Exception):
    """The standalone builder does not make a container of this kind from the configuration of this lane (subject of C01 / C02 / C06 / C07)."""


def build_mbi(m, wd, salt):
    import yaml

    from c14 import app_image
    from lib import mbi_build as MB
    from lib import mbi_rom as MR

    r = rng(PROP, "kinds", "mbi", salt)
    o = MB.Opts(app=app_image(MBI_APP, 0x10000141, f"kinds{salt}"), load=0x20001000 if m["target"] == "load_to_ram" else 0x10000000, tz="disabled",
                hwkey=False, iv=r.randbytes(16), variant=1, certdir=wd)
    det, sig = True, None
    if MB.has(m, "CertBlockV1"):
        o["cert"] = r.choice(V1_CERTS)
    elif MB.has(m, "CertBlockV21"):
        o["cert"] = r.choice(V21_CERTS)
        det = False
    mbi, cfg = MB.build_config(m, o, wd)
    alone = mbi.export()
    if not det:     # where the ECDSA signature lies and which key it has to verify under (public half of the signing key, read with `cryptography`)
        from cryptography.hazmat.primitives.serialization import load_pem_private_key

        n = MB.v21_sig_len(o["cert"])
        pn = load_pem_private_key(open(MB.v21_sign_key(o["cert"]), "rb").read(), None).public_key().public_numbers()
        pub = pn.x.to_bytes(n // 2, "big") + pn.y.to_bytes(n // 2, "big")
        if not MR.ecdsa_ok(pub, alone[-n:], alone[:-n]):
            raise Skip("the standalone export does not end with an ECDSA signature over everything in front of it")
        sig = {"how": "mbi-ecdsa-tail", "n": n, "pub": pub.hex()}
    ypath = os.path.join(wd, "mbi.yaml")
    with open(ypath, "w") as f:
        yaml.safe_dump(cfg, f)
    # does the family's own MBI parser accept the container (without keys)?  That is what BootableImage.parse relies on; where it does not
    # (an encrypted image cannot be read without its key), the parse of the bootable image is not part of the case
    try:
        from spsdk.image.mbi.mbi import MasterBootImage

        MasterBootImage.parse(m["family"], alone, revision=m["revision"]).validate()
        selfparse = True
    except Exception:  # noqa: BLE001
        selfparse = False
    return {"alone": alone, "yaml": ypath, "det": det, "sig": sig, "note": o.get("cert", ""), "selfparse": selfparse}


def build_hab(fam, off, wd, salt):
    import yaml

    from c14 import app_image
    from spsdk.image.hab.hab_container import HabContainer

    ivt = off if off in (0x400, 0x1000) else 0x400
    ils = 2 * ivt
    start = 0x30000000
    app = os.path.join(wd, "app.bin")
    with open(app, "wb") as f:
        f.write(app_image(0x1001, start + ils + 0x141, f"kinds-hab{salt}"))
    cfg = {"options": {"flags": 0, "startAddress": start, "ivtOffset": ivt, "initialLoadSize": ils, "entryPointAddress": start + ils + 0x141},
           "inputImageFile": app, "sections": []}
    hab = HabContainer.load_from_config(HabContainer.transform_bd_configuration(json.loads(json.dumps(cfg))), search_paths=[wd])
    alone = hab.export()
    ypath = os.path.join(wd, "hab.yaml")
    with open(ypath, "w") as f:
        yaml.safe_dump(cfg, f)
    return {"alone": alone, "yaml": ypath, "det": True, "sig": None, "note": f"ivt@{ivt:#x}"}


def build_ahab(fam, rev, which, signed, wd, salt):
    import yaml

    from lib.common import ROOT
    from spsdk.image.ahab.ahab_image import AHABImage
    from spsdk.utils.database import get_db

    r = rng(PROP, "kinds", "ahab", salt)
    core_ids = get_db(fam, rev).get_dict("ahab", "core_ids")
    labels = [v[1] for v in core_ids.values()]
    core = next((c for c in ("cortex-m33", "cortex-a55") if c in labels), labels[0])
    n = AHAB_IMGS[which]
    img = os.path.join(wd, f"{which}-img.bin")
    data = rng(PROP, "kinds", "ahab-img", fam, which).randbytes(n)
    with open(img, "wb") as f:
        f.write(data)
    cont = {"srk_set": "none", "used_srk_id": 0, "srk_revoke_mask": 0, "fuse_version": 0, "sw_version": 0,
            "images": [{"image_path": img, "image_offset": 0x2000, "load_address": 0x1FFC0000, "entry_point": 0x1FFC0000,
                        "image_type": "executable", "core_id": core, "is_encrypted": False, "boot_flags": 0,
                        "meta_data_start_cpu_id": 0, "meta_data_mu_cpu_id": 0, "meta_data_start_partition_id": 0, "hash_type": "sha256"}]}
    kt = ""
    if signed:
        kt = r.choice(AHAB_KEYS)
        used = r.randrange(4)
        keys = os.path.join(ROOT, "keys", "ahab")
        cont.update(srk_set="oem", used_srk_id=used, signing_key=os.path.join(keys, f"srk{used}_{kt}.pem"),
                    srk_table={"flag_ca": False, "srk_array": [os.path.join(keys, f"srk{i}_{kt}.pub") for i in range(4)]})
    cfg = {"family": fam, "revision": rev, "target_memory": "standard", "output": os.path.join(wd, f"{which}-ahab.bin"), "containers": [{"container": cont}]}
    a = AHABImage.load_from_config(json.loads(json.dumps(cfg)), search_paths=[wd])
    a.update_fields()
    alone = bytes(a.export())
    sig = None
    if signed:
        sig = {"how": "ahab-walk", "img": data.hex()}
        rep = ahab_facts(alone, sig)
        if not rep["acc"]:
            raise Skip(f"the standalone export is not accepted by the AHAB reader of C06 ({rep['why']})")
    ypath = os.path.join(wd, f"{which}-ahab.yaml")
    with open(ypath, "w") as f:
        yaml.safe_dump(cfg, f)
    return {"alone": alone, "yaml": ypath, "det": not signed, "sig": sig, "note": kt}


# ------------------------------------------------------------------ independent facts about a container with a randomised signature
def ahab_facts(blob, sig):
    """Walk of the AHAB acceptance reader of C06 (lib.ahab_rom: hashlib + `cryptography` only, keys from the SRK table in the file itself)
    -> {acc, why, ranges: [(from, to)] of the signature data, walk: the event list}"""
    from lib import ahab_rom as AR

    sec = {"cver": 2 if blob[:1] == b"\x02" else 1, "max_cont": 1, "images": {(0, 0): bytes.fromhex(sig["img"])}}
    ev = AR.walk(blob, sec)
    vs = [e for e in ev if e["ev"] == "VerifySignature"]
    ims = [e for e in ev if e["ev"] == "ImageEntry"]
    why = ""
    if not ev or ev[-1]["ev"] != "Accept":
        why = f"walk ends with {ev[-1] if ev else None}"
    elif not vs or not all(e["ok"] and e["tagOk"] for e in vs):
        why = "no signature / signature does not verify"
    elif not ims or not all(e["hashOk"] and e["dataOk"] and e["inFile"] for e in ims):
        why = "image hash / image data"
    return {"acc": not why, "why": why, "ranges": [(e["sigAt"] + 8, e["sigAt"] + e["length"]) for e in vs],
            "walk": [{k: v for k, v in e.items()} for e in ev]}


def judge(found, c):
    """Facts about the bytes `found` at the container's place against the standalone export c['alone'] -> (same, sameOutside, acc, note)"""
    alone = c["alone"]
    same = found == alone
    if c["det"]:
        return same, same, same, ""
    if len(found) != len(alone):
        return same, False, False, "length"
    s = c["sig"]
    if s["how"] == "mbi-ecdsa-tail":
        from lib import mbi_rom as MR

        n = s["n"]
        return same, found[:-n] == alone[:-n], MR.ecdsa_ok(bytes.fromhex(s["pub"]), found[-n:], found[:-n]), ""
    a, b = ahab_facts(alone, s), ahab_facts(found, s)
    mask = bytearray(len(alone))
    for x, y in a["ranges"]:
        mask[x:y] = b"\x01" * (y - x)
    outside = all(m or p == q for m, p, q in zip(mask, found, alone))
    return same, outside, b["acc"] and a["walk"] == b["walk"], b["why"]      # as acceptable as: the reader takes the same steps with the same facts


# ------------------------------------------------------------------ offers
def make_offers(tier, tables, triples, mats, only=None):
    """One offer per (device, container kind).  quick: for every distinct construction (MBI: kind x image type x export mixins; HAB plain; AHAB unsigned /
    signed) ONE device (drawn with the run's seed) - and for every kind one whose container does not lie at offset 0, so that the image that starts
    at the container exists; thorough: every (family, table, construction) on one revision of the family."""
    from c14 import CONTAINERS, VERSION

    cand = {}       # (fam, rev, tb) -> first memory type label
    for fam, rev, mt, tb in triples:
        cand.setdefault((fam, rev, tb), mt)
    pool = []
    for (fam, rev, tb), mt in sorted(cand.items()):
        segs = tables[tb]["segs"]
        cs = [i for i, s in enumerate(segs) if s["name"] == "mbi" or s["name"] == "hab_container" or s["name"] in AHAB_SEGS]
        if not cs:
            continue
        for kind, group, arg in kinds_of(fam, rev, segs[cs[0]]["name"]):
            pool.append({"fam": fam, "rev": rev, "mt": mt, "tb": tb, "kind": kind, "group": group, "arg": arg, "conts": cs})
    if only is not None:
        pool = [p for p in pool if p["kind"] == only[0]]
        pool = [p for p in pool if p["group"] == only[1]] or pool[:1]        # the same construction, else the first image of the kind
        if not pool:
            return [], {}
    if not pool:
        raise Machinery("the device database offers no MBI / HAB / AHAB application container for any bootable image")
    r = rng(PROP, "kinds", "pick")
    if tier != "quick" and only is None:    # every (family, table, construction), one revision of the family each (drawn with the run's seed)
        by = {}
        for p in pool:
            by.setdefault((p["fam"], p["tb"], p["group"]), []).append(p)
        pool = [r.choice(v) for _, v in sorted(by.items())]
    if tier == "quick":
        by = {}
        for p in pool:
            by.setdefault(p["group"], []).append(p)
        chosen = [r.choice(v) for _, v in sorted(by.items())]
        def later(p):
            return tables[p["tb"]]["segs"][p["conts"][0]]["off"] > 0

        for kind in sorted({p["kind"] for p in pool}):
            if not any(later(p) for p in chosen if p["kind"] == kind) and any(later(p) for p in pool if p["kind"] == kind):
                chosen.append(r.choice([p for p in pool if p["kind"] == kind and later(p)]))
        pool = chosen
    root = os.path.join(scratch(), "c14-kinds")

    def build(n_p):
        n, p = n_p
        wd = os.path.join(root, f"o{n}")
        os.makedirs(wd, exist_ok=True)
        segs = tables[p["tb"]]["segs"]
        conts, skip = {}, None
        try:
            for i in p["conts"]:
                name = segs[i]["name"]
                salt = f"{p['fam']}/{p['rev']}/{p['kind']}"
                if name == "mbi":
                    conts[i] = build_mbi(p["arg"], wd, salt)
                elif name == "hab_container":
                    conts[i] = build_hab(p["fam"], segs[i]["off"], wd, salt)
                else:
                    conts[i] = build_ahab(p["fam"], p["rev"], "secondary" if name.startswith("secondary") else "primary", p["kind"] == "ahab.signed", wd, salt)
                with open(os.path.join(wd, f"cont{i}.bin"), "wb") as f:
                    f.write(conts[i]["alone"])
                conts[i]["bin"] = os.path.join(wd, f"cont{i}.bin")
        except Machinery:
            raise
        except Exception as e:  # noqa: BLE001 - the standalone builder refuses the configuration of this lane: nothing to merge, counted
            skip = f"{type(e).__name__}: {str(e)[:200]}"
        return dict(p, wd=wd, built=conts, skip=skip)

    built = pmap(build, list(enumerate(pool)), chunksize=1)
    offers, skipped = [], {}
    for p in built:
        if p["skip"]:
            skipped[f"{p['fam']}/{p['rev']}/{p['kind']}"] = p["skip"]
            continue
        segs = tables[p["tb"]]["segs"]
        plen, other = [], {}
        for i, s in enumerate(segs):
            if i in p["built"]:
                plen.append(len(p["built"][i]["alone"]))
            elif s["name"] in VERSION:
                plen.append(4)
            elif not s["opt"]:         # a mandatory container of another family of formats (SB2.1 / SB3.1 file): the smallest golden file
                m = mats.get(p["fam"], p["rev"], p["mt"], tables[p["tb"]], i)
                if not m:
                    raise Machinery(f"no payload for the mandatory segment {s['name']} of table {tables[p['tb']]['sig']}")
                other[i] = m[0]["bin"]
                plen.append(m[0]["len"])
            else:
                plen.append(0)
        rm_ok = True
        for i, s in enumerate(segs):    # payload sizes up to the next segment's offset
            later = [x["off"] for x in segs[i + 1:] if x["off"] >= 0]
            if plen[i] and s["off"] >= 0 and later and s["off"] + plen[i] > min(later):
                rm_ok = False
        if not rm_ok:
            skipped[f"{p['fam']}/{p['rev']}/{p['kind']}"] = "the container does not fit in front of the next table offset"
            continue
        p["other"] = other
        p["plen"] = plen
        p["det"] = all(c["det"] for c in p["built"].values())
        offers.append(p)
    if not offers and only is None:
        raise Machinery(f"no container of any kind could be built standalone: {skipped}")
    return offers, skipped


def replay_case(t0, tables, triple, mats):
    """Build the container of the witness' kind for the witness' device again and execute the same form / route / start."""
    info = t0["info"]
    fam, rev, mt, tb = triple
    one, _ = make_offers("thorough", tables, [triple], mats, only=(info["kind"], info.get("group")))
    if not one:
        return None
    offer = one[0]
    case = {"of": 1, "form": info["form"], "route": info["route"], "req": t0["req"], "present": [n > 0 for n in offer["plen"]]}
    return execute(t0["id"], case, offer, tables)


def offer_file(offers):
    path = os.path.join(scratch(), "c14-kinds.json")
    with open(path, "w") as f:
        json.dump([{"tb": p["tb"] + 1, "kind": p["kind"], "det": p["det"], "yaml": True, "plen": p["plen"]} for p in offers], f)
    return path


def generate(v, table_file, kind_file, offers):
    inv = ("KTypeOK", "OfferOK", "NeverRefused", "ContainerWhole", "StartsWithContainer")
    mc = tlc.mc("C14", "BimgKinds", "BimgKinds.cfg", env={"TABLE_FILE": table_file, "KIND_FILE": kind_file}, workers=4, deadlock=False, heap="2g",
                timeout=600, coverage=False)
    v.add_mc(mc)
    cases = sorted(mc.json_prints(), key=lambda c: json.dumps(c, sort_keys=True))
    # non-vacuity: every offer in both forms on both routes, the full image always and the image that starts at the container wherever the
    # container does not lie at offset 0; the state count is exactly the walks of the emitted cases
    want = {(n + 1, f, r) for n in range(len(offers)) for f in ("bin", "yaml") for r in ("api", "cli")}
    got = {(c["of"], c["form"], c["route"]) for c in cases if c["req"] == 0}
    if want != got or any(c["refused"] for c in cases):
        raise Machinery(f"BimgKinds did not emit every offer in every form on every route: {len(got)} of {len(want)}")
    steps = 0
    for c in cases:
        inc = [p for p in c["place"] if p[0] >= 0]
        cur = gaps = 0
        for off, n in inc:
            gaps += off > cur
            cur = off + n
        steps += 1 + gaps + 2 * len(inc) + 3       # Build, Gap*, Seg*, End, Parse, PSeg*, Done
    if mc.distinct != len(cases) + steps:
        raise Machinery(f"BimgKinds: {mc.distinct} states do not match the walks of the {len(cases)} emitted cases ({steps} steps)")
    v.extra["kinds_invariants"] = list(inv)
    return cases


def plan(tier, cases, offers):
    """quick: per offer the YAML form on both routes as a full image, the YAML form through the API as an image that starts at the container
    (where there is one), the binary form through the API; thorough: every emitted case."""
    if tier != "quick":
        return cases
    out = []
    for c in cases:
        later = c["req"] > 0
        if (c["form"], c["route"], later) in (("yaml", "api", False), ("yaml", "cli", False), ("yaml", "api", True), ("bin", "api", False)):
            out.append(c)
    return out


# ------------------------------------------------------------------ executor
def execute(cid, case, offer, tables):
    from c14 import Exec, version_bytes
    from c14 import VERSION
    from spsdk.exceptions import SPSDKError
    from spsdk.image.bootable_image.bimg import BootableImage

    t = tables[offer["tb"]]
    fam, rev, mt = offer["fam"], offer["rev"], offer["mt"]
    form, route, req = case["form"], case["route"], case["req"]
    r = rng(PROP, "kinds", "case", cid)
    cfg = {"family": fam, "revision": rev, "memory_type": mt, "init_offset": req}
    data = {}
    for i, s in enumerate(t["segs"]):
        if not case["present"][i]:
            continue
        if i in offer["built"]:
            c = offer["built"][i]
            cfg[s["cfg"]] = c["yaml"] if form == "yaml" else c["bin"]
            data[i] = c["alone"]
        elif s["name"] in VERSION:
            val = r.randrange(1, 0xFFFF)
            cfg[s["cfg"]] = val
            data[i] = version_bytes(s["name"], val)
        else:
            cfg[s["cfg"]] = offer["other"][i]
            data[i] = open(offer["other"][i], "rb").read()
    plen = [len(data[i]) if i in data else 0 for i in range(len(t["segs"]))]
    tr = {"id": cid, "tb": offer["tb"] + 1, "present": case["present"], "plen": plen, "req": req, "ev": [],
          "kd": {"kind": offer["kind"], "det": offer["det"], "form": form, "route": route},
          "info": {"family": fam, "revision": rev, "mem_type": mt, "mode": "kinds", "kind": offer["kind"], "group": offer["group"], "form": form, "route": route, "sig": t["sig"],
                   "of": case["of"], "notes": {t["segs"][i]["name"]: c["note"] for i, c in offer["built"].items()},
                   "config": {k: (os.path.basename(x) if isinstance(x, str) and os.sep in x else x) for k, x in cfg.items()}}}
    ev = tr["ev"]
    image = None
    try:
        if route == "cli":
            import yaml
            from click.testing import CliRunner

            from spsdk.apps import nxpimage

            wd = os.path.join(offer["wd"], cid)
            os.makedirs(wd, exist_ok=True)
            ypath, out = os.path.join(wd, "bimg.yaml"), os.path.join(wd, "bimg.bin")
            with open(ypath, "w") as f:
                yaml.safe_dump(cfg, f)
            cr = CliRunner().invoke(nxpimage.main, ["bootable-image", "merge", "-c", ypath, "-o", out])
            if cr.exit_code != 0 or not os.path.exists(out):
                x = cr.exception
                if isinstance(x, SPSDKError) or (x is None or isinstance(x, SystemExit)) and "ERROR" in (cr.output or ""):
                    ev.append({"ev": "Build", "refused": True, "eff": 0, "msg": f"exit {cr.exit_code}: {(cr.output or '').strip()[-200:]}"})
                else:
                    ev.append({"ev": "Crash", "of": "Export", "exc": type(x).__name__ if x is not None else f"Exit{cr.exit_code}", "msg": (str(x) or (cr.output or "").strip())[-160:]})
                return tr
            image = open(out, "rb").read()
        # the object: on the API route it makes the image; on the command route it is asked what it says about the image the command made
        bimg = BootableImage.load_from_config(dict(cfg), search_paths=[offer["wd"]])
    except SPSDKError as e:
        ev.append({"ev": "Build", "refused": True, "eff": 0, "msg": str(e)[:160]})
        return tr
    except Exception as e:  # noqa: BLE001 - a crash is an observation: no action of the spec matches it
        ev.append({"ev": "Crash", "of": "Build", "exc": type(e).__name__, "msg": str(e)[:160]})
        return tr
    eff = bimg.init_offset
    ev.append({"ev": "Build", "refused": False, "eff": eff if isinstance(eff, int) else -999})
    res = observe(bimg, image, t, data, offer, ev)
    tr["info"]["selfparse"] = all(c.get("selfparse", True) for c in offer["built"].values())
    # (an ENCRYPTED container cannot be read without its key, which the parser of the bootable image is not given: its parse is not part of the case)
    if res is not None and ".encrypted." not in offer["kind"]:
        Exec.parse_back(res[0], res[1], res[2], t, (fam, rev, mt, offer["tb"]), ev)      # (the bytes that lie in the image must come back)
    return tr


def observe(bimg, image, t, data, offer, ev):
    """The dumb scanner of c14.Exec.observe for this lane: a container is located by its first bytes (a randomised signature makes the bytes of
    two exports differ), judged against the standalone export; `image` = the bytes the command wrote (else the object exports).
    -> (image, found indexes, {index: the bytes that lie in the image}) or None after a Crash event."""
    try:
        if image is None:
            image = bimg.export()
        api_total = len(bimg)
        claimed = {seg.NAME.label: seg for seg in bimg.segments}
        api = {n: (bimg.get_segment_offset(seg), len(seg)) for n, seg in claimed.items()}
    except Exception as e:  # noqa: BLE001
        ev.append({"ev": "Crash", "of": "Export", "exc": type(e).__name__, "msg": str(e)[:160]})
        return None
    pat = bytes([t["pat"]])
    cur, found, lies = 0, [], {}

    def gap(a, b):
        return {"ev": "Gap", "from": a, "to": b, "rest": 0, "restPat": True, "pat": image[a:b] == pat * (b - a)}

    for i, s in enumerate(t["segs"]):
        if i not in data or s["name"] not in claimed:
            continue
        d = data[i]
        at = image.find(d[:16], cur)
        if at < 0:
            ev.append({"ev": "Seg", "i": i + 1, "at": -1, "len": len(d), "ok": False, "same": False, "sameOutside": False, "acc": False,
                       "apiOff": api[s["name"]][0], "apiLen": api[s["name"]][1]})
            continue
        if at > cur:
            ev.append(gap(cur, at))
        there = image[at:at + len(d)]
        if i in offer["built"]:
            same, outside, acc, note = judge(there, offer["built"][i])
        else:
            same = outside = acc = there == d
            note = ""
        e = {"ev": "Seg", "i": i + 1, "at": at, "len": len(d), "ok": same or (not offer["built"].get(i, {"det": True})["det"] and outside and acc),
             "same": same, "sameOutside": outside, "acc": acc, "apiOff": api[s["name"]][0], "apiLen": api[s["name"]][1]}
        if note:
            e["note"] = note
        ev.append(e)
        cur = at + len(d)
        found.append(i)
        lies[i] = there
    if cur < len(image):
        ev.append(gap(cur, len(image)))
    ev.append({"ev": "End", "total": len(image), "apiLen": api_total})
    return image, found, lies


def key_of(t, tables, matched):
    """The key of c14.key_of with the class of this lane in front of the clause: C14/<table>/kinds/<kind>/<form>/<route>/<clause>"""
    from c14 import key_of as base

    k = base(t, tables, matched)
    sig = tables[t["tb"] - 1]["sig"]
    head = f"C14/{sig}/"
    i = t["info"]
    ev = t["ev"][min(matched, len(t["ev"]) - 1)]
    rest = k[len(head):] if k.startswith(head) else k
    if ev["ev"] == "Seg" and ev["ok"] and ev["apiOff"] == ev["at"] and ev["apiLen"] == ev["len"]:
        rest = rest.rsplit("/", 1)[0] + "/not-the-standalone-container"      # (ContOk: e.g. same bytes demanded, equal only outside the signature)
    return f"{head}kinds/{i['kind']}/{i['form']}/{i['route']}/{rest}"


def canary_traces(cases, offers, tables):
    """Spec-generated traces of this lane (accepted) and corruptions (rejected): a deterministic container that is not byte-identical, a container
    with a randomised signature whose signature does not verify / that differs outside the signature, a segment that reports the length without
    the signature, an image that ends before the container does (what the reader sees of an export that was cut)."""
    from c14 import synthetic_trace

    def trace(c, name, fn=None):
        t = synthetic_trace(c, name)
        t["kd"] = {"kind": c["kind"], "det": c["det"], "form": c["form"], "route": c["route"]}
        for e in t["ev"]:
            if e["ev"] == "Seg":
                e.update(same=True, sameOutside=True, acc=True)
                if not c["det"] and tables[c["tb"] - 1]["segs"][e["i"] - 1]["cont"]:
                    e["same"] = False           # two exports of a container with a randomised signature differ (in the signature)
        if fn:
            fn(t, [e for e in t["ev"] if e["ev"] == "Seg" and tables[c["tb"] - 1]["segs"][e["i"] - 1]["cont"]][0])
        return t

    out, want = [], set()
    det = next((c for c in cases if c["det"] and c["form"] == "yaml"), None)
    rnd = next((c for c in cases if not c["det"] and c["form"] == "yaml"), None)
    if det is None or rnd is None:
        raise Machinery("the container kinds lane has no deterministic / no randomised kind for its canary")
    out.append(trace(det, "kcanary-det-good"))
    out.append(trace(rnd, "kcanary-rnd-good"))

    def bad(c, name, fn):
        out.append(trace(c, name, fn))
        want.add(name)

    bad(det, "kcanary-det-not-identical", lambda t, e: e.update(same=False))
    bad(rnd, "kcanary-rnd-signature-does-not-verify", lambda t, e: e.update(acc=False))
    bad(rnd, "kcanary-rnd-differs-outside-signature", lambda t, e: e.update(sameOutside=False))
    bad(det, "kcanary-length-without-signature", lambda t, e: e.update(apiLen=e["apiLen"] - 256))
    bad(det, "kcanary-image-cut", lambda t, e: [x for x in t["ev"] if x["ev"] == "End"][0].update(total=[x for x in t["ev"] if x["ev"] == "End"][0]["total"] - 256))
    bad(det, "kcanary-bad-form", lambda t, e: t["kd"].update(form="object"))
    return out, want


def run_lane(v, tier, tables, triples, mats, table_file):
    """-> (traces of the lane, spec-generated cases) ; the traces are decided by BimgTrace together with those of the other lanes"""
    import_cli()
    offers, skipped = make_offers(tier, tables, triples, mats)
    kind_file = offer_file(offers)
    cases = generate(v, table_file, kind_file, offers)
    jobs = [(f"k{n}", c, offers[c["of"] - 1]) for n, c in enumerate(plan(tier, cases, offers))]
    traces = pmap(lambda j: execute(j[0], j[1], j[2], tables), jobs, chunksize=2)
    v.count(len(traces))
    kinds = {}
    for t in traces:
        if any(e["ev"] == "Seg" for e in t["ev"]):
            v.nontrivial(json.dumps([t["info"]["family"], t["info"]["revision"], t["info"]["mem_type"], t["info"]["kind"], t["info"]["form"], t["info"]["route"], t["req"]]))
        d = kinds.setdefault(t["info"]["kind"], {"bin": 0, "yaml": 0, "api": 0, "cli": 0, "devices": set()})
        d[t["info"]["form"]] += 1
        d[t["info"]["route"]] += 1
        d["devices"].add(t["info"]["family"])
    for k, d in kinds.items():
        if not (d["yaml"] and d["bin"] and d["api"] and d["cli"]):
            raise Machinery(f"container kind {k}: not executed in both forms on both routes ({d})")
        d["devices"] = len(d["devices"])
    # a kind that the database offers and that NO standalone builder of this lane produced is a hole in the lane, not a pass
    lost = sorted({s.rsplit("/", 1)[1] for s in skipped} - {p["kind"] for p in offers})
    if lost:
        raise Machinery(f"container kinds that no standalone builder produced: {lost}: {skipped}")
    v.extra["container_kinds_executed"] = kinds
    v.extra["container_kinds_skipped"] = skipped
    v.extra["container_kind_offers"] = len(offers)
    v.sample({k: traces[len(traces) // 2][k] for k in ("tb", "present", "plen", "req", "kd", "ev", "info")})
    say(f"[C14] container kinds: {len(offers)} offers ({len(skipped)} not built), {len(cases)} cases generated, {len(traces)} executed; "
        f"kinds {sorted(kinds)} ({v.timer.s()}s)")
    return traces, cases, offers


def import_cli():
    """The command line application is imported once, before the workers are forked."""
    from spsdk.apps import nxpimage  # noqa: F401
