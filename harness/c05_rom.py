"""Independent executor of the SB 3.1 loader automaton (spec/C05/Sb31Rom.tla) on real bytes.

It does NOT import spsdk. Trusted base: struct, hashlib, and `cryptography` primitives called directly (ECDSA verify,
AES-CBC decrypt, AES-CMAC). It walks a file along the acceptance automaton and logs ONE event per automaton action with every
number it used; crypto facts are logged as booleans. It never decides: TLC (Sb31RomTrace) recomputes every relation and
demands the facts. The executor is total: it stops at the first fact that makes further reading meaningless, every loop is
bounded by the file length, and any exception ends the trace with an `ExecutorStop` event (matched by no spec action).
"""
import hashlib
import struct

from cryptography.hazmat.primitives import cmac, hashes
from cryptography.hazmat.primitives.asymmetric import ec
from cryptography.hazmat.primitives.asymmetric import utils as autils
from cryptography.hazmat.primitives.ciphers import Cipher, algorithms, modes

BIG = 2**31 - 1
HDR = 60
CHUNK = 256


def N(x):
    """TLC integers are 32 bit: a number that does not fit can never satisfy a clause, log it saturated."""
    return x if x < BIG else BIG


def W(x):
    """32-bit word as two 16-bit limbs [hi, lo]."""
    return [(x >> 16) & 0xFFFF, x & 0xFFFF]


def limbs(x, n):
    """n 16-bit limbs, most significant first."""
    return [(x >> (16 * (n - 1 - i))) & 0xFFFF for i in range(n)]


def H(n):
    return hashlib.sha256 if n == 32 else hashlib.sha384


def aes_cmac(key, data):
    c = cmac.CMAC(algorithms.AES(key))
    c.update(data)
    return c.finalize()


def kdf_fields(const, rights, mode, hash_len):
    """Parameters of the documented CMAC counter-mode KDF (NIST SP 800-108) for one derivation."""
    key_bits = 128 if hash_len == 32 else 256
    return {"const": limbs(const, 6), "rightsByte": (rights & 3) << 6, "modeByte": 0x01 if mode == "kdk" else 0x10,
            "opt": 0x20 if key_bits == 128 else 0x21, "keyBits": key_bits, "iters": key_bits // 128}


def kdf(key, f):
    """derived key = CMAC(key, label || context || L || i) for i = 1..iters;
    label = 12-byte little-endian derivation constant, context = 8 zero bytes, rights<<6, mode, 0, key option,
    L = requested length in bits (big endian), i = iteration counter (big endian)."""
    const = 0
    for l in f["const"]:
        const = (const << 16) | l
    out = b""
    for it in range(1, f["iters"] + 1):
        d = const.to_bytes(12, "little") + bytes(8) + bytes([f["rightsByte"], f["modeByte"], 0, f["opt"]])
        d += f["keyBits"].to_bytes(4, "big") + it.to_bytes(4, "big")
        out += aes_cmac(key, d)
    return out


def cbc_decrypt_zero_iv(key, data):
    c = Cipher(algorithms.AES(key), modes.CBC(bytes(16))).decryptor()
    return c.update(data) + c.finalize()


def ecdsa_ok(pub_xy, sig, data):
    """Raw r||s signature under the raw x||y public key; the digest follows the signer's curve."""
    n = len(pub_xy) // 2
    if n not in (32, 48) or len(sig) != 2 * n:
        return False
    try:
        curve = ec.SECP256R1() if n == 32 else ec.SECP384R1()
        pk = ec.EllipticCurvePublicNumbers(int.from_bytes(pub_xy[:n], "big"), int.from_bytes(pub_xy[n:], "big"), curve).public_key()
        der = autils.encode_dss_signature(int.from_bytes(sig[:n], "big"), int.from_bytes(sig[n:], "big"))
        pk.verify(der, data, ec.ECDSA(hashes.SHA256() if n == 32 else hashes.SHA384()))
        return True
    except Exception:  # noqa: BLE001 - invalid point, invalid signature, r/s out of range ...
        return False


def lz(pub_xy):
    """[leading byte of X is zero, leading byte of Y is zero] of a raw fixed-width X || Y public key (value class of the key)."""
    n = len(pub_xy) // 2
    return [n > 0 and pub_xy[0] == 0, n > 0 and pub_xy[n] == 0]


def rotkth(pubs):
    """Root-of-trust key table hash as fused in the device: hash of the table of key hashes (one key: its own hash)."""
    n = len(pubs[0]) // 2
    hs = [H(n)(p).digest() for p in pubs]
    return hs[0] if len(hs) == 1 else H(n)(b"".join(hs)).digest()


class Stop(Exception):
    pass


def run(d, rom, waive=()):
    """d: file bytes; rom: {"rotkth": bytes, "pck": bytes|None, "rights": int, "enc": bool}.
    waive: names of layout clauses the caller wants to be carried on from (diagnosis of already rejected files only).
    Returns the list of events."""
    ev = []
    limit = len(d) // 16 + 64

    def L(_go=True, **k):
        ev.append(k)
        if not _go or len(ev) > limit:
            raise Stop()

    def need(o, n):
        if o < 0 or n < 0 or o + n > len(d):
            ev.append({"ev": "ExecutorStop", "why": f"read of {n} bytes at {o} beyond the end of the file"})
            raise Stop()

    try:
        need(0, HDR)
        magic, vmin, vmaj, flags, nblocks, bsize, ts, fw, total, itype, certoff, desc = struct.unpack_from("<4s2H3IQ4I16s", d)
        hlen = bsize - 4 - CHUNK
        L(ev="ParseHeader", magicOk=magic == b"sbv3", major=vmaj, minor=vmin, blockCount=N(nblocks), blockSize=N(bsize),
          totalLen=N(total), certOff=N(certoff), fileLen=len(d),
          _go=magic == b"sbv3" and hlen in (32, 48) and nblocks >= 1)
        L(ev="HeaderFields", flags=W(flags), fw=W(fw), ts=limbs(ts, 4), imageType=N(itype), desc=list(desc))
        lay_ok = len(d) == total + nblocks * bsize
        L(ev="Layout", fileLen=len(d), ok=lay_ok, _go=(lay_ok or "Layout" in waive) and nblocks * bsize <= len(d))
        b0len = total if lay_ok else len(d) - nblocks * bsize
        # ---- certificate block
        need(certoff, 12)
        cmagic, cmin, cmaj, csize = struct.unpack_from("<4s2HI", d, certoff)
        L(ev="CertHeader", at=N(certoff), magicOk=cmagic == b"chdr", major=cmaj, minor=cmin, _go=cmagic == b"chdr")
        o = certoff + 12
        need(o, 4)
        (rflags,) = struct.unpack_from("<I", d, o)
        nkeys, used, ctype, ca = (rflags >> 4) & 0xF, (rflags >> 8) & 0xF, rflags & 0xF, bool(rflags >> 31)
        clen = {1: 32, 2: 48}.get(ctype, 0)
        tlen = nkeys * clen if nkeys > 1 else 0
        key_at = o + 4 + tlen
        rkr_end = key_at + 2 * clen
        in_table = root_ok = False
        rootpub = b""
        if clen and rkr_end <= len(d):
            table = d[o + 4:o + 4 + tlen]
            rootpub = d[key_at:rkr_end]
            kh = H(clen)(rootpub).digest()
            if nkeys > 1:
                in_table = used < nkeys and table[used * clen:(used + 1) * clen] == kh
                root_ok = H(clen)(table).digest() == rom["rotkth"]
            else:
                in_table = True
                root_ok = kh == rom["rotkth"]
        L(ev="RootKeyRecord", at=o, ca=ca, used=used, nKeys=nkeys, ctype=ctype, curveLen=clen, tableLen=tlen, keyAt=key_at, end=rkr_end,
          keyLz=lz(rootpub), keyInTable=in_table, rotkthOk=root_ok, _go=in_table and root_ok)
        signer = rootpub
        o = rkr_end
        if not ca:
            need(o, 12)
            sigoff, constraints, iflags = struct.unpack_from("<3I", d, o)
            itype_, hasud = iflags & 0xF, bool(iflags >> 31)
            ilen = {1: 32, 2: 48}.get(itype_, 0)
            udlen = sigoff - 12 - 2 * ilen
            fits = ilen > 0 and udlen >= 0 and o + sigoff + 2 * clen <= len(d)
            ok = False
            udsha = ""
            iskpub = b""
            if fits:
                iskpub = d[o + 12:o + 12 + 2 * ilen]
                udsha = hashlib.sha256(d[o + 12 + 2 * ilen:o + sigoff]).hexdigest()[:16]
                # signed: root key record || ISK header || ISK public key || user data, by the root key
                ok = ecdsa_ok(rootpub, d[o + sigoff:o + sigoff + 2 * clen], d[certoff + 12:o + sigoff])
            L(ev="IskCert", at=o, sigOff=N(sigoff), constraints=W(constraints), iskType=itype_, iskLen=ilen, iskLz=lz(iskpub), hasUserData=hasud,
              sigLz=lz(d[o + sigoff:o + sigoff + 2 * clen]) if fits else [False, False],   # information: r / s with a leading zero byte
              userDataLen=N(udlen) if udlen >= 0 else -1, udSha=udsha, signedFrom=certoff + 12, signedTo=N(o + sigoff), sigLen=2 * clen, ok=ok,
              end=N(o + sigoff + 2 * clen), _go=ok)
            o = o + sigoff + 2 * clen
            signer = iskpub
        L(ev="CertBlockEnd", end=o, sizeField=N(csize))
        siglen = len(signer)
        need(o, siglen)
        ok = ecdsa_ok(signer, d[o:o + siglen], d[:o])
        L(ev="VerifyBlock0", frm=0, to=o, sigAt=o, sigLen=siglen, digestLen=siglen // 2, ok=ok, end=o + siglen, sigLz=lz(d[o:o + siglen]),
          _go=ok and o + siglen == b0len)
        # ---- key derivation key
        kdk = None
        if rom["enc"]:
            f = kdf_fields(ts, rom["rights"], "kdk", hlen)
            kdk = kdf(rom["pck"], f)
            L(ev="DeriveKdk", pckBits=8 * len(rom["pck"]), **f)
        # ---- hash chain, block keys, decryption
        expect = d[HDR:HDR + hlen]
        stream = b""
        for i in range(1, nblocks + 1):
            at = b0len + (i - 1) * bsize
            need(at, bsize)
            b = d[at:at + bsize]
            (num,) = struct.unpack_from("<I", b)
            nxt = b[4:4 + hlen]
            hash_ok = H(hlen)(b).digest() == expect
            f = kdf_fields(i, rom["rights"], "blk", hlen)
            L(ev="Block", i=i, at=at, num=N(num), hashOk=hash_ok, last=i == nblocks, nextZero=nxt == bytes(hlen), enc=rom["enc"], kdf=f,
              cipherAt=at + 4 + hlen, cipherLen=len(b) - 4 - hlen, ivZero=True, _go=hash_ok and num == i)
            expect = nxt
            stream += cbc_decrypt_zero_iv(kdf(kdk, f), b[4 + hlen:]) if rom["enc"] else b[4 + hlen:]
        # ---- section header and commands
        uid, stype, slen, spad = struct.unpack_from("<4I", stream)
        end = 16 + slen
        fits = end <= len(stream)
        L(ev="Section", uid=N(uid), type=N(stype), len=N(slen), rsvZero=spad == 0, streamLen=len(stream),
          padZero=fits and stream[end:] == bytes(len(stream) - end), _go=fits and uid == 1 and stype == 1)
        o, i = 16, 0
        while o < end:
            i += 1
            if o + 16 > end:
                L(ev="Cmd", i=i, at=o, tagOk=False, cmd=0, w1=W(0), w2=W(0), hasX=False, x=[W(0)] * 4, dataLen=0, dsha="", dataPadZero=False,
                  tail=0, tailZero=False, size=16, _go=False)
            tag, w1, w2, cmd = struct.unpack_from("<4I", stream, o)
            has_x = cmd in (1, 2, 7, 8, 9, 12)
            dlen = w2 if cmd in (2, 6, 7, 9, 10) else 4 * w2 if cmd == 5 else 0
            tail = 64 if cmd == 9 else 0
            size = 16 + (16 if has_x else 0) + (dlen + 15) // 16 * 16 + tail
            fits = o + size <= end
            x = list(struct.unpack_from("<4I", stream, o + 16)) if has_x and fits else [0, 0, 0, 0]
            data_at = o + 16 + (16 if has_x else 0)
            dsha, padz, tailz = "", False, False
            if fits:
                data = stream[data_at:data_at + dlen]
                dsha = hashlib.sha256(data).hexdigest()[:16] if cmd in (2, 5, 6, 7, 9, 10) else ""
                pad_end = o + size - tail
                padz = stream[data_at + dlen:pad_end] == bytes(pad_end - data_at - dlen)
                tailz = stream[pad_end:o + size] == bytes(tail)
            L(ev="Cmd", i=i, at=o, tagOk=tag == 0x55AAAA55, cmd=N(cmd), w1=W(w1), w2=W(w2), hasX=has_x, x=[W(v) for v in x], dataLen=N(dlen),
              dsha=dsha, dataPadZero=padz, tail=tail, tailZero=tailz, size=N(size), _go=fits and tag == 0x55AAAA55 and 1 <= cmd <= 14)
            o += size
        L(ev="Accept", end=o, nCmds=i, covEnd=b0len + nblocks * bsize)
    except Stop:
        pass
    except Exception as e:  # noqa: BLE001 - the executor must be total on tampered files
        ev.append({"ev": "ExecutorStop", "why": repr(e)[:120]})
    return ev


def regions(d):
    """Byte regions of a well-formed file (for stratified tampering): [(name, from, to)]. Only used to CHOOSE bit positions."""
    magic, vmin, vmaj, flags, nblocks, bsize, ts, fw, total, itype, certoff, desc = struct.unpack_from("<4s2H3IQ4I16s", d)
    hlen = bsize - 260
    r = [("hdr.magic_version", 0, 8), ("hdr.flags", 8, 12), ("hdr.block_count", 12, 16), ("hdr.block_size", 16, 20), ("hdr.timestamp", 20, 28),
         ("hdr.fw_version", 28, 32), ("hdr.total_length", 32, 36), ("hdr.image_type", 36, 40), ("hdr.cert_offset", 40, 44), ("hdr.description", 44, 60),
         ("hash_of_block1", 60, 60 + hlen), ("cert.header", certoff, certoff + 12)]
    o = certoff + 12
    (rflags,) = struct.unpack_from("<I", d, o)
    nkeys, ctype, ca = (rflags >> 4) & 0xF, rflags & 0xF, bool(rflags >> 31)
    clen = {1: 32, 2: 48}[ctype]
    r.append(("cert.rkr_flags", o, o + 4))
    o += 4
    if nkeys > 1:
        r.append(("cert.rkr_table", o, o + nkeys * clen))
        o += nkeys * clen
    r.append(("cert.root_key", o, o + 2 * clen))
    o += 2 * clen
    siglen = 2 * clen
    if not ca:
        sigoff, _, iflags = struct.unpack_from("<3I", d, o)
        ilen = {1: 32, 2: 48}[iflags & 0xF]
        r.append(("cert.isk_header", o, o + 12))
        r.append(("cert.isk_key", o + 12, o + 12 + 2 * ilen))
        if sigoff > 12 + 2 * ilen:
            r.append(("cert.isk_user_data", o + 12 + 2 * ilen, o + sigoff))
        r.append(("cert.isk_signature", o + sigoff, o + sigoff + 2 * clen))
        o += sigoff + 2 * clen
        siglen = 2 * ilen
    r.append(("signature", o, o + siglen))
    o += siglen
    for i in range(nblocks):
        tagn = "last" if i == nblocks - 1 else "first" if i == 0 else "mid"
        r.append((f"block.{tagn}.number", o, o + 4))
        r.append((f"block.{tagn}.next_hash", o + 4, o + 4 + hlen))
        r.append((f"block.{tagn}.data", o + 4 + hlen, o + bsize))
        o += bsize
    return r
