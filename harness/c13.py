"""C13 - flash encryption (OTFAD, BEE, IEE): the hardware decrypts what SPSDK encrypts.

spec/C13/FlashEnc.tla is the engine at cell granularity (R-spec): which context answers a fetch at an ABSOLUTE address, whether it
decrypts, which address-derived value enters the cipher, what the ROM must find in a key blob.
 MC  : FlashEncMC - geometry lemmas the trace form relies on, every engine action fires, and SPSDK's chunk walk (I-spec) checked
       against the engine: agrees for unit-aligned bases, the two known defects are *predicted* (FlashEncPredict*.cfg must fail).
 GEN : FlashEncGen - TLC enumerates the structural case space (region placements x base cell x length in cells); this module adds
       the byte-level parts (tails, sub-cell offsets, engine modes, end-address conventions, API level, keys).
       FlashEncGenWrap - the cases around the end of the documented range of an ADDITIVE counter (IEE AES-CTR: word + address >> 4
       reaches 2^32 in a cell inside the image): "engine output = plaintext" is asserted up to that block only (FetchUnsettled
       behind it), "whole = pieces" everywhere - it says nothing about an engine.
 exec: every case is run through the real code (Otfad / OtfadNxp, Iee / IeeNxp, BeeNxp + headers); then c13_hw (independent engine
       and ROM models, AES block function of `cryptography` only) loads the EXPORTED key blobs and reads the EXPORTED image cell by
       cell, logging per cell the context it selected, the cipher input and whether its output equals the plaintext.
 TV  : TLC (FlashEncTrace) recomputes every logged number from the case and demands ok = TRUE for every cell, every cut, every blob.
 CFG : c13_cfg.py + FlashEncGenCfg.tla - the CONFIGURATION entry points (load_from_config, nxpimage bee|otfad|iee export): TLC enumerates what a
       description may hold several of (regions, BEE engines, bee_engine entries, generated / binary headers, equal / different keys, data
       blobs); every shape is run through the dictionary route and the file route and judged by the same models and the same trace spec.
 HIST: c13_hist.py + FlashEncHist*.tla - the history of ONE object (Export / BinaryImage / ExportKeyBlobs repeated in any order on an
       Otfad / OtfadNxp / BeeNxp / Iee / IeeNxp object): every image equals the first one and is read back as the plaintext, every
       set of key blobs loads as configured.  Histories enumerated by TLC, run on a representative configuration of every engine and mode.
 Exit codes: nothing SPSDK does may end as a machinery failure - both canaries work on STORED traces (anchors/C13/canary_*.json, no SPSDK
       call), every call into SPSDK is guarded and a refusal / crash becomes an observation no spec step matches (exit 1, VIOLATION).
"""
import json
import os
import threading
import time

import c13_hw as hw
from lib import tlc
from lib.common import ROOT, Machinery, import_spsdk, rng, say, scratch
from lib.par import pmap
from lib.verdict import Verdict

PROP = "C13"
ANCH = os.path.join(ROOT, "anchors", "C13")
ORIGINS = [0x08001000, 0x30001000, 0x60001000, 0x04001000, 0x90011000, 0xF0001000, 0x2800F000]
TAILS = [0, 1, 15, 16, 17]
IEE_MODES = [("xts256", "AesXTS", "CTR128XTS256"), ("xts512", "AesXTS", "CTR256XTS512"),
             ("ctr128", "AesCTRWAddress", "CTR128XTS256"), ("ctr256", "AesCTRWAddress", "CTR256XTS512")]
IEE_NOCRASH = [("ctr-noaddr128", "AesCTRWOAddress", "CTR128XTS256"), ("ctr-noaddr256", "AesCTRWOAddress", "CTR256XTS512"),
               ("ctr-keystream128", "AesCTRkeystream", "CTR128XTS256"), ("ctr-keystream256", "AesCTRkeystream", "CTR256XTS512")]
OTFAD_FAMILIES = ["mimxrt1010", "mimxrt1176", "mimxrt1189", "mimx9352", "mimxrt595s", "mimxrt1166"]
IEE_FAMILIES = ["mimxrt1176", "mimxrt1166"]


def limbs(a):
    return [a >> 16, a & 0xFFFF]


def rd(*p):
    with open(os.path.join(ANCH, *p), "rb") as f:
        return f.read()


# ------------------------------------------------------------------------------------------------ anchors: is the engine model right?
def selftest():
    """The engine / ROM models must turn the golden artefacts (made by NXP's image_enc tool resp. frozen at the pinned commit) back
    into their plaintext. This anchors the counter-block, tweak, key-order and key-blob constructions without reading spsdk/*.py."""
    bad = []
    k1, k2 = bytes(range(32)), bytes(range(32, 64))
    # OTFAD unit artefacts
    rec = hw.otfad_load_table(rd("unit", "otfad_keyblob.bin"), bytes.fromhex("50F66BB4F23B855DCD8FEFC0DA59E963"), 1)[0]
    plain = rd("unit", "boot_image.bin")
    plain += bytes(-len(plain) % 512)
    enc = rd("unit", "otfad_image.bin")
    if not (rec["ivOk"] and rec["ctx"].lo == 0x08001000 and rec["ctx"].hi == 0x0800F3FF):
        bad.append("otfad unit key blob")
    if any(hw.otfad_read([rec["ctx"]], 0x08001000 + o, enc[o:o + 16], True)[3] != plain[o:o + 16] for o in range(0, len(enc), 16)):
        bad.append("otfad unit image (byte swap)")
    # OTFAD nxpimage artefacts: table + data, scrambling, byte-swapped key blobs, reversed scramble mask
    for name, swap, rev, tbl, addr, pf in [("otfad_rt1170_scramble", 0, False, 0x04000000, 0x04001000, ("otfad", "blink_fspi2_xip_cm33_ahab.bin")),
                                           ("otfad_rt1180_scramble", 8, True, 0x04000000, 0x04001000, ("otfad", "blink_fspi2_xip_cm33_ahab.bin")),
                                           ("otfad_rt1010_scramble", 0, False, 0x04000000, 0x04001000, ("otfad", "blink_fspi2_xip_cm33_ahab.bin")),
                                           ("otfad_rt1180", 8, True, 0x04000000, 0x04001000, ("otfad", "blink_fspi2_xip_cm33_ahab.bin")),
                                           ("otfad_rt1170", 0, False, 0x30000000, 0x30001000, ("iee", "plain.bin"))]:
        out = rd("otfad", name + "_out.bin")
        scr = (2018915346, 114, rev) if "scramble" in name else None
        t = hw.otfad_load_table(out[:256], rd("otfad", "kek_inc.bin"), 4, swap, scr)
        if not all(x["ivOk"] and x["crcOk"] for x in t) or not t[0]["ctx"].vld or any(x["ctx"].vld for x in t[1:]):
            bad.append(name + " key blobs")
        p = rd(*pf)
        p += bytes(-len(p) % 16)
        e = out[addr - tbl: addr - tbl + len(p)]
        ctxs = [x["ctx"] for x in t]
        if any(hw.otfad_read(ctxs, addr + o, e[o:o + 16], False)[3] != p[o:o + 16] for o in range(0, len(p), 16)):
            bad.append(name + " image")
    # IEE
    t, pl = hw.iee_load_keyblobs(rd("unit", "iee_keyblobs.bin"), k1, k2, 0x30000000, 4)
    if pl[:96] != rd("unit", "iee_keyblobs_plain.bin")[:96] or not (t[0]["tagOk"] and t[0]["crcOk"]):
        bad.append("iee unit key blob")
    p = rd("iee", "plain.bin")
    p += bytes(-len(p) % 16)
    for m in ["aes_ctr128", "aes_ctr256", "aes_xts256", "aes_xts512"]:
        e = rd("iee", m, "encrypted.bin")
        t, _ = hw.iee_load_keyblobs(rd("iee", m, "iee_keyblobs.bin"), k1, k2, 0x30000000, 4)
        if not (t[0]["tagOk"] and t[0]["crcOk"] and (t[0]["start"], t[0]["end"]) == (0x30001000, 0x30008000)):
            bad.append(m + " key blob")
            continue
        if any(hw.iee_read([t[0]["region"]], 0x30001000 + o, e[o:o + 16])[2] != p[o:o + 16] for o in range(0, len(p), 16)):
            bad.append(m + " image")
    # BEE
    key = bytes.fromhex("0123456789abcdeffedcba9876543210")
    hs = [hw.bee_load_header(rd("bee", f"bee_ehdr{i}.bin"), key) for i in (0, 1)]
    p, e = rd("bee", "plain.bin"), rd("bee", "encrypted.bin")
    if not all(h["tagOk"] and h["rsvOk"] for h in hs):
        bad.append("bee headers")
    res = [hw.bee_read([h["engine"] for h in hs], 0x60001000 + o, e[o:o + 16]) for o in range(0, len(p) - len(p) % 16, 16)]
    if any(x[3] != p[i * 16:i * 16 + 16] for i, x in enumerate(res)) or sum(1 for x in res if x[0]) != 512:
        bad.append("bee image")
    # published vectors of the primitives built here
    if hw.crc32_mpeg2(b"123456789") != 0x0376E6E7:
        bad.append("crc32/mpeg-2 check value")
    a, pt = hw.rfc3394_unwrap(bytes.fromhex("000102030405060708090A0B0C0D0E0F"), bytes.fromhex("1FA68B0A8112B447AEF34BD8FB5A7B829D3E862371D2CFE5"))
    if a != b"\xa6" * 8 or pt != bytes.fromhex("00112233445566778899AABBCCDDEEFF"):
        bad.append("RFC 3394 vector 4.1")
    # IEEE 1619 XTS-AES-128 vector 2 (data unit 0x3333333333, 32 bytes)
    ct = bytes.fromhex("c454185e6a16936e39334038acef838bfb186fff7480adc4289382ecd6d394f0")
    if hw.xts_decrypt_unit(bytes([0x11] * 16), bytes([0x22] * 16), 0x3333333333, ct) != bytes([0x44] * 32):
        bad.append("IEEE 1619 vector 2")
    if bad:
        raise Machinery(f"engine model does not reproduce the golden artefacts: {bad}")
    return 5 + 2 + 4 * 2 + 2 + 3


# ------------------------------------------------------------------------------------------------ abstract case -> concrete case
def ctr_word(cc, g, mg):
    """Initial value of an additive counter word (IEE AES-CTR with address binding: last big-endian word of the nonce); 0 where the
    engine adds nothing to a configured word (OTFAD: the address itself; BEE: the word is zero by format; XTS: page number)."""
    if cc["eng"] == "iee" and g["fl"] == "on" and g["m"][1] == "AesCTRWAddress":
        return g.get("w", mg["w"])
    return 0


def spec_regs(cc, m):
    """The regions as the spec sees them (cells)."""
    out = []
    for g, mg in zip(cc["regs"], m["regs"]):
        w = ctr_word(cc, g, mg)
        out.append({"lo": g["lo"], "hi": g["hi"], "vld": g["fl"] != "inv", "ade": g["fl"] == "on", "chk": g.get("chk", True), "inp": g["inp"] if g["fl"] == "on" else "none",
                    "wh": w >> 16, "wl": w & 0xFFFF})
    return out


def spec_case(cc, m):
    o = cc["origin"]
    return {"eng": cc["eng"], "C": cc["C"], "unit": cc["unit"], "oh": o >> 16, "ol": o & 0xFFFF, "regs": spec_regs(cc, m), "nrec": cc["nrec"],
            "base": cc["base"], "sub": cc["sub"], "len": cc["len"], "salign": cc["unit"] if cc["eng"] == "iee" else 1, "rule": cc["rule"]}


def cuts(cc, rule=None):
    rule = rule or cc["rule"]
    C = cc["C"]
    lo = cc["base"] * C + cc["sub"]
    hi = lo + cc["len"]
    if cc["len"] == 0:
        return []
    sal = cc["unit"] if cc["eng"] == "iee" else 1
    allc = [s for s in range(lo // C + 1, (hi - 1) // C + 1) if s % sal == 0]
    if rule == "all" or not allc:
        return allc
    if rule == "units":
        return [s for s in allc if s % cc["unit"] == 0]
    return [s for s in allc if s % cc["unit"] == 0 or s == allc[0] or s == allc[-1]]


SCR_MASKS = [0x12345678, 0, 1, 0x80000000, 0xFFFFFFFF]
SCR_ALIGNS = [0, 0xFF, 0xE4, 0x1B, 0x72, 0x01, 0x40]


def engine_patterns(n):
    """All assignments of n regions (in address order) to the two BEE engines that use both engines."""
    pats = [[(p >> i) & 1 for i in range(n)] for p in range(1, 2 ** n - 1)]
    return pats or [[0], [1]]


def concretise(eng, g, idx, r, tier, sampled=False):
    """One structural case of GEN (regions in cells, base cell, length in cells) -> list of concrete cases for engine `eng`.
    Byte-level and parameter choices rotate with the case index, so every boundary value meets every structural class."""
    unit = 4
    C = 1024 if eng == "iee" else 256
    fls = [x["fl"] for x in g["regs"]]
    if eng == "iee" and ("inv" in fls or g["base"] % unit):
        return []
    if eng == "bee" and any(f != "on" for f in fls):
        return []
    out = []
    thorough = tier == "thorough"
    tails = TAILS if (thorough and not sampled) else [TAILS[idx % 5]]
    if eng == "iee":
        subs = [0]
    elif thorough and not sampled:  # all sub-cell offsets where every region decrypts, in rotation where contexts bypass / are invalid
        subs = [0, 16, C - 16] if all(f == "on" for f in fls) else [[0, 16, C - 16][idx % 3]]
    else:
        subs = [[0, 0, 16, C - 16][idx % 4]]
    for tail in tails:
        for sub in subs:
            variants = {"otfad": ["ctr", "ctr-swap"], "bee": ["1eng", "2eng"], "iee": ["m0", "m1"]}[eng]
            if not thorough or sampled or (tail, sub) != (tails[0], subs[0]):
                variants = [variants[(idx + tail + sub) % 2]]
            for var in variants:
                cc = {"eng": eng, "C": C, "unit": unit, "base": g["base"], "sub": sub, "len": g["lc"] * C + tail,
                      "rule": "all" if (thorough and idx % 2 == 0) else "edges", "origin": r.choice(ORIGINS),
                      "var": var, "api": "low", "kb": sampled or idx % 4 == 0 or thorough}
                regs = [dict(x) for x in sorted(g["regs"], key=lambda x: x["lo"])]
                for x in regs:
                    x["style"] = r.choice(["incl", "excl"]) if eng == "otfad" else "excl"
                    x["inp"] = {"otfad": "addr", "bee": "shr4"}.get(eng, "page")
                if eng == "bee":  # engines are assigned in address order, every pattern in rotation
                    pats = engine_patterns(len(regs)) if var == "2eng" else [[0] * len(regs), [1] * len(regs)]
                    pat = pats[(idx // 2 + tail + sub) % len(pats)]
                    for x, e in zip(regs, pat):
                        x["engine"] = e
                        x["level"] = r.randrange(4)
                r.shuffle(regs)  # the order of the key blobs / FAC regions is not the address order
                if eng == "otfad":
                    cc["nrec"] = 4
                    cc["swap"] = var == "ctr-swap"
                    cc["mode"] = var
                    cc["kbswap"] = [0, 8, 2, 4, 16][(idx // 3) % 5]
                    kind = (idx + tail) % 3
                    if kind == 0:
                        cc["scr"] = None
                    elif kind == 1:  # boundary values of the scramble parameters
                        cc["scr"] = [SCR_MASKS[(idx // 3) % len(SCR_MASKS)], SCR_ALIGNS[(idx // 15) % len(SCR_ALIGNS)], (idx // 7) % 2 == 1]
                    else:
                        cc["scr"] = [r.getrandbits(32), r.getrandbits(8), r.random() < 0.5]
                    if not cc["swap"] and (idx // 2) % 3 == 0:
                        cc["api"] = "nxp"
                        cc["family"] = OTFAD_FAMILIES[(idx // 6) % len(OTFAD_FAMILIES)]
                    for x in regs:
                        x["flags"] = {"on": 3, "byp": 1, "inv": r.choice([0, 2])}[x["fl"]] | r.choice([0, 4])
                elif eng == "bee":
                    cc["nrec"] = len(regs)
                    cc["mode"] = "ctr-" + var
                    regs.sort(key=lambda x: x["engine"])  # records are read engine by engine (stable: shuffled order inside an engine)
                else:
                    cc["nrec"] = 4
                    if (idx // 2) % 3 == 0:
                        cc["api"] = "nxp"
                        cc["family"] = IEE_FAMILIES[(idx // 6) % len(IEE_FAMILIES)]
                    elif (idx // 2) % 3 == 1 and cc["len"] > 0:  # the key blob's own entry point, when the image lies in one region
                        last = g["base"] + (cc["len"] - 1) // C
                        own = [j for j, x in enumerate(regs) if x["fl"] != "inv" and x["lo"] <= g["base"] and last <= x["hi"]]
                        if own:
                            cc["api"], cc["blobreg"] = "blob", own[0]
                    for j, x in enumerate(regs):
                        if x["fl"] == "byp":
                            x["m"] = ["bypass", "Bypass", r.choice(["CTR128XTS256", "CTR256XTS512"])]
                            x["inp"] = "none"
                        elif (idx + j) % 13 == 5:
                            x["m"] = list(IEE_NOCRASH[(idx // 13) % 4])
                            x["chk"] = False
                            x["inp"] = "none"
                        else:
                            x["m"] = list(IEE_MODES[(idx + (var == "m1") + 2 * j + 2 * (idx // 4)) % 4])
                            x["inp"] = "page" if x["m"][1] == "AesXTS" else "shr4"
                        x["lock"] = r.random() < 0.3
                    cc["mode"] = "+".join(sorted({x["m"][0] for x in regs}))
                cc["regs"] = regs
                out.append(cc)
    return out


WRAP_BLOCKS = [1, 63, 0, 32, 2, 62, 31]      # 16-byte block inside the 1 KiB cell at which the counter word reaches 2^32 (64 blocks per cell)
WRAP_SHORT = [0, 1, 15, 16, 17, 1008]        # bytes missing at the end of the image's last cell (the image keeps its cells)


def concretise_wrap(g, idx, r, tier):
    """One structural case of FlashEncGenWrap -> IEE cases whose AES-CTR counter word (region wr) reaches 2^32 in cell wc of the image.
    API levels: the key blob's own entry point (IeeKeyBlob.encrypt_image, image inside the region), Iee.encrypt_image, IeeNxp."""
    C, unit = 1024, 4
    thorough = tier == "thorough"
    out = []
    for bi0 in (WRAP_BLOCKS if thorough else [WRAP_BLOCKS[idx % len(WRAP_BLOCKS)]]):
        short = WRAP_SHORT[(idx + bi0) % len(WRAP_SHORT)]
        ln = g["lc"] * C - short
        origin = r.choice(ORIGINS)
        # the wrap block must hold image bytes: in the image's last cell there may be fewer than 64 blocks
        in_cell = min(C, g["base"] * C + ln - g["wc"] * C)
        bi = min(bi0, (in_cell - 1) // 16)
        regs = [dict(x) for x in sorted(g["regs"], key=lambda x: x["lo"])]
        for j, x in enumerate(regs):
            x["style"] = "excl"
            x["lock"] = r.random() < 0.3
            if j == g["wr"] - 1:
                x["m"] = list(IEE_MODES[2 + (idx + bi0) % 2])
                x["inp"] = "shr4"
                x["w"] = ((1 << 32) - ((origin + g["wc"] * C) >> 4) - bi) & 0xFFFFFFFF
                x["wrapreg"] = True
            elif x["fl"] == "byp":
                x["m"] = ["bypass", "Bypass", r.choice(["CTR128XTS256", "CTR256XTS512"])]
                x["inp"] = "none"
            else:
                x["m"] = list(IEE_MODES[(idx + j) % 4])
                x["inp"] = "page" if x["m"][1] == "AesXTS" else "shr4"
        r.shuffle(regs)
        wreg = [j for j, x in enumerate(regs) if x.pop("wrapreg", False)][0]
        # the key blob's own entry point whenever the image lies in the region; Iee.encrypt_image / IeeNxp.binary_image in rotation
        apis = (["blob"] if g["inside"] else []) + ([["low", "nxp"][(idx // 2 + bi0) % 2]] if (thorough or idx % 2 == 0 or not g["inside"]) else [])
        for api in apis:
            cc = {"eng": "iee", "C": C, "unit": unit, "base": g["base"], "sub": 0, "len": ln, "rule": "all", "origin": origin, "var": "wrap", "api": api,
                  "kb": idx % 4 == 0, "nrec": 4, "regs": [dict(x) for x in regs], "mode": "+".join(sorted({x["m"][0] for x in regs})),
                  "wrap": {"reg": wreg, "cell": g["wc"], "blk": g["wc"] * (C // 16) + bi, "inside": g["inside"], "beyond": g["beyond"]}}
            if api == "nxp":
                cc["family"] = IEE_FAMILIES[(idx // 4) % len(IEE_FAMILIES)]
            if api == "blob":
                cc["blobreg"] = wreg
            out.append(cc)
    return out


def random_struct(r, ncells, maxctx, unit=4):
    """Sampled lane: a structural case the GEN constants do not reach (up to 4 regions, wider window)."""
    n = r.randrange(1, maxctx + 1)
    units = ncells // unit
    bounds = sorted(r.sample(range(units + 1), min(2 * n, units + 1) // 2 * 2))
    regs = [{"lo": bounds[2 * i] * unit, "hi": bounds[2 * i + 1] * unit - 1, "fl": r.choice(["on", "on", "on", "byp", "inv"])} for i in range(len(bounds) // 2)]
    base = r.randrange(ncells)
    return {"regs": regs, "base": base, "lc": r.randrange(0, ncells - base + 1)}


# ------------------------------------------------------------------------------------------------ executors
def cell_events(cc, plain, out, read):
    """The engine model reads the exported image `out` (placed at the image's base address) cell by cell."""
    C, origin = cc["C"], cc["origin"]
    lo = cc["base"] * C + cc["sub"]
    hi = lo + cc["len"]
    evs = []
    if cc["len"] > 0:
        for k in range(lo // C, (hi - 1) // C + 1):
            clo, chi = max(k * C, lo), min((k + 1) * C, hi)
            seen, ok, first = set(), True, None
            for off in range(clo, chi, 16):
                o = off - lo
                cb = out[o:o + 16]
                n = min(16, hi - off)
                short = len(cb) < 16
                if len(cb) < n:  # the exported image ends before the plaintext does
                    ok = False
                ctx, dec, inp, data = read(origin + off, cb.ljust(16, b"\0"), short)
                if first is None:
                    first = inp
                seen.add((ctx, dec))
                if data is not None and data[:n] != plain[o:o + n]:
                    ok = False
            ctx, dec = seen.pop() if len(seen) == 1 else (-1, False)
            evs.append({"e": "Cell", "k": k, "a": limbs(origin + clo), "n": chi - clo, "ctx": ctx, "dec": dec, "inp": first, "ok": ok})
    evs.append({"e": "EndFetch", "outLen": len(out)})
    return evs


def local_events(cc, plain, whole, enc, rule=None, joint=None):
    """whole image = pieces encrypted at their own addresses, for the cuts of the rule.
    enc(piece, address) encrypts one piece (low-level API); joint(cut) exports both pieces as two data blobs of one NXP-level object."""
    from spsdk.exceptions import SPSDKError

    C = cc["C"]
    lo = cc["base"] * C + cc["sub"]
    base = cc["origin"] + lo
    evs = []
    for s in cuts(cc, rule):
        cut = s * C - lo
        try:
            if joint is not None:
                both = joint(cut)
                ok = both[:cc["len"]] == whole[:cc["len"]]
            else:
                e1, e2 = enc(plain[:cut], base), enc(plain[cut:], base + cut)
                ok = (e1[:cut] + e2)[:cc["len"]] == whole[:cc["len"]] and len(e1) >= cut
            note = ""
        except SPSDKError as x:
            ok, note = False, f"refused: {x}"[:120]
        except Exception as x:  # noqa: BLE001 - a crash of SPSDK on a piece is an observation (whole != pieces), never a failure of the machinery
            ok, note = False, f"crash: {type(x).__name__}: {x}"[:120]
        ev = {"e": "Local", "s": s, "ok": ok}
        if note:
            ev["note"] = note
        evs.append(ev)
    evs.append({"e": "EndLocal", "n": len(evs)})
    return evs


def all_local(cc, plain, whole, enc, joint=None):
    """The tier's rule, and - so that a failing unaligned cut cannot hide the aligned ones - the unit-aligned cuts on their own."""
    tr = {"loc": local_events(cc, plain, whole, enc, None, joint)}
    if cc["eng"] != "iee" and cc["base"] % cc["unit"] == 0 and cc["sub"] == 0 and cuts(cc, "units"):
        tr["loc:units"] = local_events(cc, plain, whole, enc, "units", joint)
    return tr


def addr_range(cc, g):
    start = cc["origin"] + g["lo"] * cc["C"]
    last = cc["origin"] + (g["hi"] + 1) * cc["C"] - 1
    return start, last


def material(cc):
    """Keys, counters, plaintext of a case: a function of (VERIF_SEED, case id)."""
    r = rng(PROP, "material", cc["id"])
    m = {"plain": r.randbytes(cc["len"]), "kek": r.randbytes(16), "regs": []}
    for g in cc["regs"]:
        k = r.randrange(12)
        ctr = {0: bytes(8), 1: b"\xff" * 8, 2: bytes(4) + b"\xff" * 4}.get(k) or r.randbytes(8)
        key = {3: bytes(32), 4: b"\xff" * 32}.get(k) or r.randbytes(32)
        m["regs"].append({"key": key, "ctr": ctr, "nonce": bytes(12) if k == 5 else r.randbytes(12), "key2": r.randbytes(32),
                          "w": {6: 0, 7: 2 ** 31 - 1}.get(k, r.getrandbits(31))})
    m["ibkek1"], m["ibkek2"] = r.randbytes(32), r.randbytes(32)
    m["swkeys"] = [r.randbytes(16), r.randbytes(16)]
    m["kib"] = [(r.randbytes(16), r.randbytes(16)), (r.randbytes(16), r.randbytes(16))]
    m["bnonce"] = [r.randbytes(12) + bytes(4), r.randbytes(12) + bytes(4)]
    m["tamper"] = r.getrandbits(32)
    if "cfg" in cc:  # configuration lane: "the same key in every key blob / in both engines" is a dimension of the case
        import c13_cfg

        c13_cfg.same_keys(cc, m)
    return m


def guarded(fn):
    """Run SPSDK; a refusal or a crash is an observation (no spec action matches it)."""
    from spsdk.exceptions import SPSDKError

    try:
        return fn(), None
    except SPSDKError as e:
        return None, [{"e": "Refused", "exc": "SPSDKError", "msg": str(e)[:160]}]
    except Exception as e:  # noqa: BLE001
        return None, [{"e": "Crash", "exc": type(e).__name__, "msg": str(e)[:160]}]


def flip(data, bitno):
    b = bytearray(data)
    b[bitno // 8] ^= 1 << (bitno % 8)
    return bytes(b)


def otfad_blob_events(cc, m, table, kek, kbswap, hwscr):
    """The ROM model loads an exported OTFAD key-blob table -> (one Blob event per record, the contexts the engine then holds)."""
    recs = hw.otfad_load_table(table.ljust(256, b"\0"), kek, 4, kbswap, hwscr)
    evs, ctxs = [], []
    for j, rec in enumerate(recs, start=1):
        ctx = rec["ctx"]
        ev = {"e": "Blob", "j": j, "authOk": rec["ivOk"], "crcOk": rec["crcOk"], "lo": limbs(rec["srt"]), "hi": limbs(ctx.hi),
              "vld": rec["ivOk"] and ctx.vld, "ade": rec["ivOk"] and ctx.vld and ctx.ade, "keyOk": True, "ctrOk": True, "attrOk": True}
        if j <= len(cc["regs"]):
            g, mg = cc["regs"][j - 1], m["regs"][j - 1]
            ev["keyOk"] = rec["key"] == mg["key"][:16]
            ev["ctrOk"] = rec["ctr"] == mg["ctr"]
            ev["attrOk"] = (rec["end"] & 7) == g["flags"]  # RO / ADE / VLD exactly as configured
        evs.append(ev)
        ctxs.append(ctx if rec["ivOk"] else None)
    return evs, ctxs


def exec_otfad(cc, m):
    from spsdk.utils.crypto.otfad import KeyBlob, Otfad, OtfadNxp
    from spsdk.utils.database import get_db
    from spsdk.utils.images import BinaryImage

    C, origin = cc["C"], cc["origin"]
    plain = m["plain"]
    base = origin + cc["base"] * C + cc["sub"]
    kek = m["kek"]

    def blobs():
        res = []
        for g, mg in zip(cc["regs"], m["regs"]):
            start, last = addr_range(cc, g)
            res.append(KeyBlob(start_addr=start, end_addr=last if g["style"] == "incl" else last + 1, key=mg["key"][:16], counter_iv=mg["ctr"],
                               key_flags=g["flags"], zero_fill=bytes(4)))
        return res

    scr = cc["scr"]
    kbswap, rev = cc["kbswap"], bool(scr and scr[2])
    cfg_build = None
    if cc["api"] in ("nxp", "cfg"):
        db = get_db(cc["family"], "latest")
        kbswap = db.get_int("otfad", "keyblob_byte_swap_cnt")
        rev = db.get_bool("otfad", "reversed_scramble_key", False)
        if not db.get_bool("otfad", "supports_key_scrambling", False):
            scr = None
        table_address = origin - 0x1000
        if cc["api"] == "cfg":  # SPSDK builds the object itself from a description (dictionary or file + nxpimage function)
            import c13_cfg

            cfg_build = c13_cfg.otfad(cc, m, kek, scr, table_address, base)

        def pieces(cut=None):
            return [(base, plain)] if cut is None else [(base, plain[:cut]), (base + cut, plain[cut:])]

        def build():
            if cfg_build:
                cut = cc["cfg"]["cut"]
                flash = cfg_build(pieces(None if cut is None else cut * C - (cc["base"] * C + cc["sub"])))
                if flash is None:
                    raise FileNotFoundError("no whole image was written")
                return flash[:256], flash[base - table_address: base - table_address + len(plain) + (-len(plain) % 16)]
            start = min([base] + [addr_range(cc, g)[0] for g in cc["regs"]])
            bins = BinaryImage("encrypted_blobs", offset=start - table_address)
            bins.add_image(BinaryImage("data", offset=base - start, binary=plain))
            nx = OtfadNxp(cc["family"], kek, table_address, key_blobs=blobs(), key_scramble_mask=scr[0] if scr else None,
                          key_scramble_align=scr[1] if scr else None, binaries=bins if plain else None)
            flash = nx.binary_image().export()
            return flash[:256], flash[base - table_address: base - table_address + len(plain) + (-len(plain) % 16)]

        res, err = guarded(build)
        table, out = res if res else (None, None)
        kberr = err
    else:
        def build_img():
            o = Otfad()
            for b in blobs():
                o.add_key_blob(b)
            return o.encrypt_image(plain, base, cc["swap"])

        def build_tab():
            o = Otfad(reversed_scramble_key=rev)
            for b in blobs():
                o.add_key_blob(b)
            return o.encrypt_key_blobs(kek, scr[0] if scr else None, scr[1] if scr else None, byte_swap_cnt=kbswap)

        out, err = guarded(build_img)
        table, kberr = guarded(build_tab)
    hwscr = (scr[0], scr[1], rev) if scr else None
    traces = {}
    ctxs = []
    if table is not None:
        tab = table
        if cc.get("tamper"):
            j = m["tamper"] % len(cc["regs"])
            tab = flip(table, 8 * 64 * j + (m["tamper"] >> 8) % (8 * 48))
        evs, ctxs = otfad_blob_events(cc, m, tab, kek, kbswap, hwscr)
        evs.append({"e": "EndLoad", "n": len(evs)})
        traces["kb"] = evs
    else:
        traces["kb"] = kberr
    if cc.get("tamper"):
        return {"kb": traces["kb"]}
    if out is not None and table is not None:
        def read(a, cb, short):
            i, dec, inp, data = hw.otfad_read(ctxs, a, cb, cc.get("swap", False))
            return i, dec, limbs(inp) if dec else [0, 0], data

        traces["img"] = cell_events(cc, plain, out, read)

        def enc(p, b):
            o = Otfad()
            for kb in blobs():
                o.add_key_blob(kb)
            return o.encrypt_image(p, b, cc.get("swap", False))

        def joint(cut):
            if cfg_build:
                return cfg_build(pieces(cut), "p")[base - table_address:]
            start = min([base] + [addr_range(cc, g)[0] for g in cc["regs"]])
            bins = BinaryImage("encrypted_blobs", offset=start - table_address)
            bins.add_image(BinaryImage("data0", offset=base - start, binary=plain[:cut]))
            bins.add_image(BinaryImage("data1", offset=base - start + cut, binary=plain[cut:]))
            nx = OtfadNxp(cc["family"], kek, table_address, key_blobs=blobs(), key_scramble_mask=scr[0] if scr else None,
                          key_scramble_align=scr[1] if scr else None, binaries=bins)
            return nx.binary_image().export()[base - table_address:]

        if cfg_build:
            traces["loc"] = local_events(cc, plain, out, enc, None, joint)
        else:
            traces.update(all_local(cc, plain, out, enc, joint if cc["api"] == "nxp" else None))
    elif out is None:
        traces["img"] = err
    return traces


def bee_locks(m):
    return {e: (m["tamper"] >> (4 * e)) & 0xF for e in (0, 1)}


def bee_blob_events(cc, m, hdrs, locks, tamper=False, nonces=None):
    """The ROM model loads the exported BEE region headers -> (one Blob event per FAC region, the two engines).
    nonces[e] = None: the header of engine e is generated from a description and SPSDK draws its nonce (any nonce of the format: low word zero)."""
    nonces = nonces or m["bnonce"]
    engines = sorted({g["engine"] for g in cc["regs"]})
    evs, j, engs = [], 0, [None, None]
    for e in (0, 1):
        if hdrs[e] is None:
            if e in engines:
                evs.append({"e": "Refused", "exc": "no header", "msg": f"engine {e} has regions but no header"})
            continue
        raw = hdrs[e]
        if tamper and e == engines[0]:
            nf = sum(1 for g in cc["regs"] if g["engine"] == e)
            raw = flip(raw, 8 * 0x80 + (m["tamper"] >> 8) % (8 * (80 + 32 * nf)))
        h = hw.bee_load_header(raw, m["swkeys"][e])
        engs[e] = h["engine"]
        mine = [g for g in cc["regs"] if g["engine"] == e]
        common = (h["tagOk"] and h["rsvOk"] and h["mode"] == 1 and h["lock"] == locks[e] and h["count"] == len(mine) and len(raw) == 512
                  and (h["start"], h["end"]) == (min(addr_range(cc, g)[0] for g in mine), max(addr_range(cc, g)[1] + 1 for g in mine)) if mine else False)
        for k, (s, en, lvl) in enumerate(h["facs"]):
            j += 1
            g = mine[k] if k < len(mine) else None
            evs.append({"e": "Blob", "j": j, "authOk": h["tagOk"], "crcOk": True, "lo": limbs(s), "hi": limbs((en - 1) & 0xFFFFFFFF), "vld": True, "ade": True,
                        "keyOk": True, "ctrOk": (h["nonce"] == nonces[e]) if nonces[e] is not None else (len(h["nonce"]) == 16 and h["nonce"][12:] == bytes(4)), "attrOk": bool(common and g is not None and lvl == g["level"])})
    return evs, engs


def exec_bee(cc, m):
    from spsdk.image.bee import BeeFacRegion, BeeKIB, BeeNxp, BeeProtectRegionBlock, BeeRegionHeader

    C, origin = cc["C"], cc["origin"]
    plain = m["plain"]
    base = origin + cc["base"] * C + cc["sub"]
    engines = sorted({g["engine"] for g in cc["regs"]})
    locks = bee_locks(m)

    def headers():
        hs = [None, None]
        for e in engines:
            prdb = BeeProtectRegionBlock(counter=m["bnonce"][e], lock_options=locks[e])
            h = BeeRegionHeader(prdb, m["swkeys"][e], BeeKIB(*m["kib"][e]))
            for g in cc["regs"]:
                if g["engine"] == e:
                    start, last = addr_range(cc, g)
                    h.add_fac(BeeFacRegion(start, last + 1 - start, g["level"]))
            hs[e] = h
        return hs

    nonces, enc = None, lambda p, b: BeeNxp(headers(), p, b).export_image()
    if cc["api"] == "cfg":  # SPSDK builds the headers itself from a description: ONE run delivers the image and the headers
        import c13_cfg

        export, locks, nonces, deterministic = c13_cfg.bee(cc, m)
        res, err = guarded(lambda: export(plain, base))
        out, hdrs = res if res else (None, None)
        kberr = err
        if out is None and err is None:
            err = [{"e": "Refused", "exc": "no file", "msg": "no encrypted image was written"}]
        enc = (lambda p, b: export(p, b, "p")[0]) if deterministic else None  # generated headers carry a fresh nonce in every run: no two runs compare
    else:
        out, err = guarded(lambda: BeeNxp(headers(), plain, base).export_image())
        hdrs, kberr = guarded(lambda: BeeNxp(headers(), plain, base).export_headers())
    traces = {}
    engs = [None, None]
    if hdrs is not None:
        evs, engs = bee_blob_events(cc, m, hdrs, locks, bool(cc.get("tamper")), nonces)
        evs.append({"e": "EndLoad", "n": sum(1 for x in evs if x["e"] == "Blob")})
        traces["kb"] = evs
    else:
        traces["kb"] = kberr
    if cc.get("tamper"):
        return {"kb": traces["kb"]}
    if out is not None and hdrs is not None:
        def read(a, cb, short):
            e, k, inp, data = hw.bee_read(engs, a, cb)
            if not e:
                return 0, False, [0, 0], data
            mine = [i for i, g in enumerate(cc["regs"], start=1) if g["engine"] == e - 1]
            if k > len(mine):  # the header lists a FAC region that is not configured for its engine: a context no case has
                return -1, True, [inp, 0], data
            return mine[k - 1], True, [inp, 0], data

        traces["img"] = cell_events(cc, plain, out, read)
        if cc["api"] == "cfg":
            if enc is not None:
                traces["loc"] = local_events(cc, plain, out, enc)
        else:
            traces.update(all_local(cc, plain, out, enc))
    elif out is None:
        traces["img"] = err
    return traces


def iee_keys(g, mg):
    """key1 / key2 of an IEE key blob as they are configured (CTR: key2 = the nonce, loaded word-wise)."""
    ks = g["m"][2]
    n1 = 16 if ks == "CTR128XTS256" else 32
    if g["m"][1].startswith("AesCTR"):
        # last word: below 2^31 (word + (address >> 4) stays below 2^32) unless the case places the wrap itself (g["w"], wrap lane)
        nonce = mg["nonce"] + g.get("w", mg["w"]).to_bytes(4, "big")
        return mg["key"][:n1], hw.rev_words(nonce)
    return mg["key"][:n1], mg["key2"][:n1]


def iee_blob_events(cc, m, table, kba, table_len):
    """The ROM model loads the exported IEE key-blob page -> (one Blob event per record, the regions the engine then holds)."""
    recs, _ = hw.iee_load_keyblobs(table.ljust(384, b"\0")[:384], m["ibkek1"], m["ibkek2"], kba, 4)
    evs, regions = [], []
    for j, rec in enumerate(recs, start=1):
        ok = rec["tagOk"] and rec["region"] is not None
        ev = {"e": "Blob", "j": j, "authOk": rec["tagOk"], "crcOk": rec["crcOk"], "lo": limbs(rec["start"]), "hi": limbs((rec["end"] - 1) & 0xFFFFFFFF),
              "vld": ok, "ade": ok and rec["mode"] != "Bypass", "keyOk": True, "ctrOk": True, "attrOk": True}
        if j <= len(cc["regs"]):
            g, mg = cc["regs"][j - 1], m["regs"][j - 1]
            k1, k2 = iee_keys(g, mg)
            ev["keyOk"] = rec["key1"] == k1.ljust(32, b"\0")
            ev["ctrOk"] = rec["key2"] == k2.ljust(32, b"\0")
            ev["attrOk"] = (rec["mode"], rec["keysize"]) == (g["m"][1], g["m"][2]) and rec["lock"] == (0x95 if g["lock"] else 0x59) and rec["po"] == 0 and rec["rsvOk"] and table_len == 384
        evs.append(ev)
        regions.append(rec["region"] if ok else None)
    return evs, regions


def iee_reader(regions):
    """One 16-byte fetch of the IEE model holding `regions` -> (context, decrypts?, cipher input as limbs, data or None where not modelled)."""
    def read(a, cb, short):
        for i, rg in enumerate(regions, start=1):
            if rg is not None and rg.hit(a):
                if rg.mode in ("Bypass",):
                    return i, False, [0, 0], cb
                if rg.mode in ("AesCTRWOAddress", "AesCTRkeystream"):
                    return i, True, [0, 0], None  # not modelled: the property claims the absence of a crash only
                inp, data = rg.decrypt_cell(a, cb)
                if short and rg.mode == "AesXTS":
                    data = b""  # a block cipher cannot work on a truncated block
                return i, True, [inp, 0], data
        return 0, False, [0, 0], cb
    return read


def exec_iee(cc, m):
    from spsdk.utils.crypto.iee import (Iee, IeeKeyBlob, IeeKeyBlobAttribute, IeeKeyBlobKeyAttributes, IeeKeyBlobLockAttributes,
                                        IeeKeyBlobModeAttributes, IeeNxp)
    from spsdk.utils.images import BinaryImage

    C, origin = cc["C"], cc["origin"]
    plain = m["plain"]
    base = origin + cc["base"] * C + cc["sub"]
    kba = origin - 0x1000

    keys = iee_keys

    def blobs():
        res = []
        for g, mg in zip(cc["regs"], m["regs"]):
            start, last = addr_range(cc, g)
            attr = IeeKeyBlobAttribute(IeeKeyBlobLockAttributes.LOCK if g["lock"] else IeeKeyBlobLockAttributes.UNLOCK,
                                       IeeKeyBlobKeyAttributes.from_label(g["m"][2]), IeeKeyBlobModeAttributes.from_label(g["m"][1]))
            k1, k2 = keys(g, mg)
            res.append(IeeKeyBlob(attr, start, last + 1 if g["style"] == "excl" else last, key1=k1, key2=k2))
        return res

    def low(p, b):
        iee = Iee()
        for kb in blobs():
            iee.add_key_blob(kb)
        return iee.encrypt_image(p, b)

    def own(p, b):
        """The key blob's own entry point: data that lie inside its range, any number of units in one call."""
        return blobs()[cc["blobreg"]].encrypt_image(b, p)

    cfg_build = None
    ele = bool(cc.get("cfg", {}).get("ele"))  # `key_blob` families: no key-blob page, the engine holds the configured values

    def pieces(cut=None):
        return [(base, plain)] if cut is None else [(base, plain[:cut]), (base + cut, plain[cut:])]

    if cc["api"] == "cfg":  # SPSDK builds the object itself from a description (dictionary or file + nxpimage function)
        import c13_cfg

        cfg_build = c13_cfg.iee(cc, m, kba)

        def build():
            cut = cc["cfg"]["cut"]
            flash = cfg_build(pieces(None if cut is None else cut * C - cc["base"] * C))
            if flash is None:
                raise FileNotFoundError("no whole image was written")
            return (None if ele else flash[:384]), flash[base - kba: base - kba + len(plain) + (-len(plain) % 16)]

        res, err = guarded(build)
        table, out = res if res else (None, None)
        kberr = err
    elif cc["api"] == "nxp":
        def build():
            start = min([base] + [addr_range(cc, g)[0] for g in cc["regs"]])
            bins = BinaryImage("encrypted_blobs", offset=start - kba, alignment=16)
            bins.add_image(BinaryImage("data", offset=base - start, binary=plain, alignment=16))
            nx = IeeNxp(cc["family"], kba, m["ibkek1"], m["ibkek2"], key_blobs=blobs(), binaries=bins if plain else None)
            flash = nx.binary_image().export()
            return flash[:384], flash[base - kba: base - kba + len(plain) + (-len(plain) % 16)]

        res, err = guarded(build)
        table, out = res if res else (None, None)
        kberr = err
    else:
        out, err = guarded(lambda: (own if cc["api"] == "blob" else low)(plain, base))

        def build_tab():
            iee = Iee()
            for kb in blobs():
                iee.add_key_blob(kb)
            return iee.encrypt_key_blobs(m["ibkek1"], m["ibkek2"], kba)

        table, kberr = guarded(build_tab)
    traces = {}
    regions = []
    if table is not None:
        tab = table
        if cc.get("tamper"):
            tab = flip(table, (m["tamper"] >> 8) % (8 * 96 * len(cc["regs"])))
        evs, regions = iee_blob_events(cc, m, tab, kba, len(table))
        evs.append({"e": "EndLoad", "n": len(evs)})
        traces["kb"] = evs
    elif ele and kberr is None:
        regions = c13_cfg.iee_configured_regions(cc, m)
    else:
        traces["kb"] = kberr
    if cc.get("tamper"):
        return {"kb": traces["kb"]}
    if out is not None and (table is not None or ele):
        traces["img"] = cell_events(cc, plain, out, iee_reader(regions))

        def joint(cut):
            if cfg_build:
                return cfg_build(pieces(cut), "p")[base - kba:]
            start = min([base] + [addr_range(cc, g)[0] for g in cc["regs"]])
            bins = BinaryImage("encrypted_blobs", offset=start - kba, alignment=16)
            bins.add_image(BinaryImage("data0", offset=base - start, binary=plain[:cut], alignment=16))
            bins.add_image(BinaryImage("data1", offset=base - start + cut, binary=plain[cut:], alignment=16))
            nx = IeeNxp(cc["family"], kba, m["ibkek1"], m["ibkek2"], key_blobs=blobs(), binaries=bins)
            return nx.binary_image().export()[base - kba:]

        if cfg_build:
            traces["loc"] = local_events(cc, plain, out, low, None, joint)
        else:
            traces.update(all_local(cc, plain, out, own if cc["api"] == "blob" else low, joint if cc["api"] == "nxp" else None))
        if cc["api"] == "blob" and cc["regs"][cc["blobreg"]]["m"][1] == "AesCTRWAddress":
            traces["drift"] = subunit_drift(cc, plain, out, own, base)
    elif out is None:
        traces["img"] = err
    return traces


def subunit_drift(cc, plain, whole, enc, base):
    """NOT part of the verdict.  The property quantifies over 4 KiB-aligned IEE data addresses, so a piece that starts inside a page is
    outside its domain (in XTS mode such a piece cannot even be encrypted correctly).  In CTR mode the code accepts any 16-byte aligned
    address: whether whole = pieces also holds for such cuts (16 bytes in, the middle, around the wrap point) is counted as information.
    Pieces are the 256 bytes in front of and behind the cut, encrypted at their addresses and compared with the same bytes of the whole."""
    n = len(plain)
    pts = {16, (n // 32) * 16}
    if "wrap" in cc:
        w = cc["wrap"]["blk"] * 16 - (cc["base"] * cc["C"])
        pts |= {w - 16, w, w + 16}
    d = {"cuts": 0, "differ": 0, "refused": 0}
    for cut in sorted(x for x in pts if 0 < x < n and x % 4096):
        a, b = max(0, cut - 256), min(n, cut + 256)
        d["cuts"] += 1
        try:
            if (enc(plain[a:cut], base + a)[:cut - a] + enc(plain[cut:b], base + cut))[:b - a] != whole[a:b]:
                d["differ"] += 1
        except Exception:  # noqa: BLE001 - a refusal of an address outside the domain is fine
            d["refused"] += 1
    return d


EXEC = {"otfad": exec_otfad, "bee": exec_bee, "iee": exec_iee}


def execute(cc):
    """Concrete case -> list of traces for TLC."""
    m = material(cc)
    tr = EXEC[cc["eng"]](cc, m)
    sc = spec_case(cc, m)
    drift = tr.pop("drift", None)
    out = []
    for kind, evs in tr.items():
        if kind == "kb" and not (cc.get("kb") or cc.get("tamper")):
            continue
        case = sc
        if kind == "loc:units":
            case = dict(sc)
            case["rule"] = "units"
        out.append({"id": f"{cc['id']}/{kind}", "kind": kind.split(":")[0], "case": case, "ev": evs})
    if drift and out:
        out[0]["drift"] = drift  # not an observation for TLC: taken off again before the traces are validated
    return out


# ------------------------------------------------------------------------------------------------ verdict keys
def owner(cc, k):
    for i, g in enumerate(cc["regs"]):
        if g["fl"] != "inv" and g["lo"] <= k <= g["hi"]:
            return i
    return None


def finding_key(cc, kind, ev):
    eng, unit = cc["eng"], cc["unit"]
    aligned = cc["base"] % unit == 0 and cc["sub"] == 0
    bcls = "base-aligned" if aligned else "base-unaligned"
    e = ev.get("e")
    if e == "Refused":
        return f"C13/{eng}/{cc['mode']}/{bcls}/{kind}/refused"
    if e == "Crash":
        return f"C13/{eng}/{cc['mode']}/{bcls}/{kind}/crash:{ev.get('exc')}"
    if kind == "img":
        if e != "Cell":
            return f"C13/{eng}/{cc['mode']}/{bcls}/img/{e}"
        k = ev["k"]
        i = owner(cc, k)
        at_end = eng == "otfad" and ev.get("n", 16) < 16 and any(g["fl"] == "on" and g["style"] == "excl" and k == g["hi"] + 1 for g in cc["regs"])
        if at_end and not ev.get("ok"):
            # the image's last, incomplete block lies AT an exclusive end address: outside the exported range, inside SPSDK's inclusive test
            return f"C13/{eng}/{cc['mode']}/{bcls}/at-exclusive-end/{'untouched' if i is None or cc['regs'][i]['fl'] != 'on' else 'decrypts'}"
        if i is None:
            mode, where, clause = cc["mode"] if eng != "iee" else "none", "outside", "untouched"
        else:
            g = cc["regs"][i]
            mode = g["m"][0] if eng == "iee" else cc["mode"]
            where = "edge-unit" if (k < g["lo"] + unit or k > g["hi"] - unit) else "interior"
            if cc.get("incl_lane") and k > g["hi"] - unit:
                where = "last-unit"
            clause = "decrypts" if g["fl"] == "on" else "bypassed"
        if ev.get("ok"):
            clause = "selection"  # the bytes are fine but context / cipher input / geometry differ from the engine's
        return f"C13/{eng}/{mode}/{bcls}/{where}/{clause}"
    if kind == "loc":
        if e != "Local":
            return f"C13/{eng}/{cc['mode']}/{bcls}/local/{e}"
        ccls = "cut-aligned" if aligned and ev["s"] % unit == 0 else "cut-unaligned"
        if "wrap" in cc:  # a cut at or behind the block where the additive counter word reaches 2^32 / in front of it
            ccls += "/behind-counter-wrap" if ev["s"] * cc["C"] // 16 >= cc["wrap"]["blk"] else "/before-counter-wrap"
        return f"C13/{eng}/{cc['mode']}/{ccls}/local" + ("/api-keyblob" if cc["api"] == "blob" else "")
    # key blobs
    if e != "Blob":
        return f"C13/{eng}/keyblob/{e}"
    if ev["j"] > len(cc["regs"]):
        return f"C13/{eng}/keyblob/filler-valid"
    for f in ("authOk", "crcOk", "keyOk", "ctrOk", "attrOk"):
        if not ev[f]:
            return f"C13/{eng}/keyblob/{f}"
    g = cc["regs"][ev["j"] - 1]
    if (ev["vld"], ev["ade"]) != (g["fl"] != "inv", g["fl"] == "on"):
        return f"C13/{eng}/keyblob/flags"
    return f"C13/{eng}/keyblob/range"


# ------------------------------------------------------------------------------------------------ run
def validate(v, cases_by_id, traces, expect_reject=False):
    """TLC decides. Returns the set of rejected trace ids."""
    rejected = {}
    chunk = 12000
    for k in range(0, len(traces), chunk):
        part = traces[k:k + chunk]
        rej, res = tlc.tv("C13", "FlashEncTrace", part, heap="8g", timeout=1500)
        v.extra["tv_states"] = v.extra.get("tv_states", 0) + res.distinct
        rejected.update(rej)
    if expect_reject:
        return rejected
    v.traces(len(traces))
    by_id = {t["id"]: t for t in traces}
    for tid, (matched, length, evname) in rejected.items():
        t = by_id[tid]
        cc = cases_by_id[tid.rsplit("/", 1)[0]]
        ev = t["ev"][matched] if matched < len(t["ev"]) else t["ev"][-1]
        key = finding_key(cc, t["kind"], ev)
        v.violation(key, f"case {cc['id']} ({cc['eng']}, {cc['mode']}, api {cc['api']}): event #{matched + 1} {json.dumps(ev)[:300]} is not a step of the engine spec",
                    {"case": cc, "kind": t["kind"], "trace": t, "failed_event": matched + 1})
    return rejected


CANARY_CASE = {"id": "canary", "eng": "otfad", "C": 256, "unit": 4, "base": 4, "sub": 0, "len": 1024 + 17, "rule": "all", "origin": 0x08001000, "var": "ctr", "api": "low",
               "kb": True, "nrec": 4, "swap": False, "mode": "ctr", "kbswap": 0, "scr": None,
               "regs": [{"lo": 0, "hi": 11, "fl": "on", "style": "incl", "inp": "addr", "flags": 3}, {"lo": 12, "hi": 15, "fl": "byp", "style": "excl", "inp": "addr", "flags": 5}]}


# IEE AES-CTR, one key blob over 12 cells, the image fills them (17 bytes short); the counter word reaches 2^32 in cell 5, block 7
CANARY_WRAP = {"id": "canaryw", "eng": "iee", "C": 1024, "unit": 4, "base": 0, "sub": 0, "len": 12 * 1024 - 17, "rule": "all", "origin": 0x30001000, "var": "wrap", "api": "blob",
               "kb": True, "nrec": 4, "mode": "ctr128", "blobreg": 0, "wrap": {"reg": 0, "cell": 5, "blk": 5 * 64 + 7, "inside": True, "beyond": True},
               "regs": [{"lo": 0, "hi": 11, "fl": "on", "style": "excl", "lock": False, "m": ["ctr128", "AesCTRWAddress", "CTR128XTS256"], "inp": "shr4",
                         "w": (1 << 32) - (0x30001000 >> 4) - (5 * 64 + 7)}]}


def make_canary():
    """Regenerates anchors/C13/canary_traces.json (run once on a tree where the property holds, after a change of the trace format):
    VERIF_ROOT=/verif PYTHONPATH=/repo:/verif/harness /venv/bin/python -c 'import c13; c13.make_canary()'"""
    import_spsdk()
    good = execute(dict(CANARY_CASE)) + execute(dict(CANARY_WRAP))
    for t in good:
        t.pop("drift", None)
    rej, _ = tlc.tv("C13", "FlashEncTrace", good)
    if rej:
        raise Machinery(f"not a good canary: {rej}")
    with open(os.path.join(ANCH, "canary_traces.json"), "w") as f:
        json.dump(good, f, indent=1)


def canary(v):
    """Stored known-good traces (independent of the tree under test) must be accepted, each with one corrupted field rejected."""
    with open(os.path.join(ANCH, "canary_traces.json")) as f:
        good = json.load(f)
    bad = json.loads(json.dumps(good))
    for t in good:
        t["id"] = "good/" + t["id"]
    for t in bad:
        t["id"] = "bad/" + t["id"]
        if t["kind"] == "img":
            t["ev"][2]["ok"] = False          # one cell whose engine output is not the plaintext (wrap case: a cell in front of the wrap)
        elif t["kind"] == "loc":
            t["ev"][0]["ok"] = False          # one cut where whole != pieces
        else:
            t["ev"][0]["hi"][1] ^= 0x400      # a key blob whose range is one unit off
    def variant(tid, kind, name, change):
        t = json.loads(json.dumps([x for x in good if x["id"] == f"good/{tid}/{kind}"]))[0]
        t["id"] = name
        change(t["ev"])
        return t

    def set_(i, field, value):
        def change(ev):
            ev[i][field] = value
        return change

    def bump_inp(i):
        def change(ev):
            ev[i]["inp"][0 if ev[i]["inp"][1] == 0 and ev[i]["inp"][0] else 1] += 16
        return change

    more = [variant("canary", "img", "bad/ctx", bump_inp(1)),            # right bytes, but the logged cipher input is not the cell's address
            # the additive counter: behind the block where word + (address >> 4) reaches 2^32 (cell 5 of 12) ...
            variant("canaryw", "loc", "bad/cut-behind-wrap", set_(1, "ok", False)),   # ... whole = pieces is demanded all the same (cut at cell 8)
            variant("canaryw", "img", "bad/wrap-cell-inp", bump_inp(6)),               # ... and so are selection / address / cipher input of a cell
            variant("canaryw", "img", "bad/cell-before-wrap", set_(4, "ok", False))]   # in front of it the engine clause holds as everywhere
    # ... but NOT "engine output = plaintext": what the engine does there is not documented - such a trace must be accepted
    free = [variant("canaryw", "img", "good/wrap-cell-unsettled", set_(5, "ok", False)), variant("canaryw", "img", "good/behind-wrap-unsettled", set_(9, "ok", False))]
    rej, _ = tlc.tv("C13", "FlashEncTrace", good + bad + more + free)
    want = {t["id"] for t in bad + more}
    if set(rej) != want or len(want) != len(good) + 4 or len(good) < 7:
        raise Machinery(f"canary failed: rejected {sorted(rej)}; expected exactly the corrupted traces {sorted(want)}")
    v.extra["canary"] = (f"{len(good)} stored good traces accepted; the same with one ok flag cleared / one range limb / one cipher input changed rejected ({len(want)}); "
                         f"{len(free)} traces whose only flaw is the engine output in the undocumented range of the IEE AES-CTR counter accepted")


class Background(threading.Thread):
    """TLC runs that do not depend on the executions (MC, predictions) overlap with them."""

    def __init__(self, fn):
        super().__init__(daemon=True)
        self.fn, self.res, self.exc = fn, None, None
        self.start()

    def run(self):
        try:
            self.res = self.fn()
        except BaseException as e:  # noqa: BLE001 - re-raised in the main thread
            self.exc = e

    def result(self):
        self.join()
        if self.exc:
            raise self.exc
        return self.res


def run(tier):
    import_spsdk()
    import spsdk.image.bee  # noqa: F401  (imported before the workers fork)
    import spsdk.utils.crypto.iee  # noqa: F401
    import spsdk.utils.crypto.otfad  # noqa: F401
    import spsdk.apps.nxpimage  # noqa: F401  (configuration lane, route "cli")
    from spsdk.utils.database import get_db

    import c13_cfg

    v = Verdict(PROP, tier)
    r = rng(PROP)
    quick = tier == "quick"
    n_anch = selftest()
    v.extra["anchors"] = f"{n_anch} golden artefacts (NXP image_enc outputs, key blobs, BEE headers) reproduced by the engine model"
    for f in set(OTFAD_FAMILIES + IEE_FAMILIES + c13_cfg.OTFAD_CFG_FAMILIES + c13_cfg.IEE_CFG_FAMILIES + [c13_cfg.IEE_ELE_FAMILY]):
        get_db(f, "latest")
    scratch()  # created in the main thread

    # ---- MC: lemmas, non-vacuity, I-spec agreement; predictions (in the background: independent of the executions)
    def model_checking():
        acts = ("DoLoadBlob", "DoLoadFiller", "DoEndLoad", "DoFetchDecrypt", "DoFetchUnsettled", "DoFetchBypass", "DoFetchMiss", "DoEndFetch", "DoLocal", "DoEndLocal")
        mc = tlc.mc("C13", "FlashEncMC", "FlashEncMC_quick.cfg" if quick else "FlashEncMC.cfg", require_actions=acts, heap="6g", timeout=1500, workers=4 if quick else 8)
        pred = {}
        for name, cfg, inv in (("otfad/base-unaligned/straddle", "FlashEncPredictOtfad.cfg", "WalkAnyBase"), ("iee/inclusive-end/last-page", "FlashEncPredictIee.cfg", "WalkIeeInclusiveEnd")):
            p = tlc.run("C13", "FlashEncMC", cfg, workers=1, timeout=300)
            if p.violated != inv:
                raise Machinery(f"prediction run {cfg}: expected {inv} to be violated, got {p.violated}")
            pred[name] = f"{inv} violated after {p.generated} states"
        import c13_hist

        pred["history/in-place-export/repeated-image"] = c13_hist.predict()
        # configuration lane: description of two engines -> region headers; the builder's loop with a block per turn holds, with ONE block for both turns it is refuted
        cm = tlc.mc("C13", "FlashEncCfgMC", "FlashEncCfgMC.cfg", require_actions=("Turn", "Done"), workers=1, timeout=300)
        p = tlc.run("C13", "FlashEncCfgMC", "FlashEncCfgPredict.cfg", workers=1, timeout=300)
        if p.violated != "HeadersAsConfigured":
            raise Machinery(f"prediction run FlashEncCfgPredict.cfg: expected HeadersAsConfigured to be violated, got {p.violated}")
        pred["configuration/one-block-for-both-engines/union-of-regions"] = f"HeadersAsConfigured violated after {p.generated} states ({cm.distinct} states of the per-turn design pass)"
        return mc, pred

    bg = Background(model_checking)
    time.sleep(0.5)  # lib.tlc numbers its scratch directories with a plain counter: never start two runs in the same instant
    bgw = Background(lambda: tlc.run("C13", "FlashEncGenWrap", "FlashEncGenWrap.cfg", workers=1, heap="4g", timeout=900))
    time.sleep(0.5)
    bgc = Background(lambda: tlc.run("C13", "FlashEncGenCfg", "FlashEncGenCfg.cfg", workers=1, heap="4g", timeout=900))
    time.sleep(0.5)
    canary(v)
    import c13_hist as hist  # (imports this module)

    hist.canary(v)
    say(f"[C13] anchors + canary ok {v.timer.s()}s")

    # ---- history lane: one object, repeated requests in any order (histories enumerated by TLC, decided by FlashEncHistTrace)
    hist.lane(v, tier)

    # ---- GEN
    g = tlc.run("C13", "FlashEncGen", "FlashEncGen.cfg", workers=1, heap="6g", timeout=900)
    structs = g.json_prints()
    if len(structs) != g.distinct or len(structs) < 1000:
        raise Machinery(f"GEN emitted {len(structs)} cases for {g.distinct} states")
    cases = []
    for idx, s in enumerate(structs):
        for eng in ("otfad", "bee", "iee"):
            if quick and eng != "bee" and idx % 3 and (len(s["regs"]) > 2 or (eng == "otfad" and any(x["fl"] != "on" for x in s["regs"]))):
                continue  # quick tier: three-region placements and the bypassing / invalid OTFAD contexts in rotation (1 in 3)
            cases += concretise(eng, s, idx, r, tier)
    # ---- wrap lane: the additive counter of IEE AES-CTR reaches 2^32 in a cell of the image (every structural case in both tiers)
    gw = bgw.result()
    wstructs = gw.json_prints()
    if len(wstructs) != gw.distinct or len(wstructs) < 1000 or not any(s["inside"] and s["beyond"] for s in wstructs):
        raise Machinery(f"GEN (wrap) emitted {len(wstructs)} cases for {gw.distinct} states")
    n_main = len(cases)
    for idx, s in enumerate(wstructs):
        cases += concretise_wrap(s, idx, r, tier)
    n_wrap = len(cases) - n_main
    n_gen = len(cases)
    # ---- sampled lane: up to 4 regions, wider windows, every tail / sub offset / origin
    for i in range(300 if quick else 3000):
        s = random_struct(r, r.choice([16, 24, 32]), 4)
        for eng in ("otfad", "bee", "iee"):
            cases += concretise(eng, s, r.randrange(1000), r, tier, sampled=True)
    n_obj = len(cases)
    # ---- configuration lane: SPSDK builds the objects itself from a description (load_from_config / the nxpimage export functions);
    #      the shapes - what a description may hold several of - are enumerated by TLC (FlashEncGenCfg)
    gc = bgc.result()
    shapes = gc.json_prints()
    if len(shapes) != gc.distinct or len(shapes) < 3000 or not gc.no_error:
        raise Machinery(f"GEN (configurations) emitted {len(shapes)} shapes for {gc.distinct} states: {gc.errors[:2]}")
    in_class, in_eng = {}, {}
    for s in shapes:
        cls = c13_cfg.shape_class(s)
        k = in_class[cls] = in_class.get(cls, -1) + 1
        if quick and k % c13_cfg.QUICK_EVERY[s["eng"]]:
            continue  # quick tier: every n-th shape of every class, so every class is reached
        j = in_eng[s["eng"]] = in_eng.get(s["eng"], -1) + 1
        cases += c13_cfg.concretise_cfg(s, j, r, tier)
    n_cfg = len(cases) - n_obj
    reached = {(c["cfg"]["sel"], tuple(c["cfg"]["kinds"]), c["cfg"]["keyrel"]) for c in cases[n_obj:] if c["eng"] == "bee"}
    if reached != {(s["sel"], tuple(s["kinds"]), s["keyrel"]) for s in shapes if s["eng"] == "bee"} or len(reached) < 28:
        raise Machinery(f"configuration lane: only {len(reached)} BEE classes (selection x entry kinds x key relation) reached")
    for i, cc in enumerate(cases):
        cc["id"] = f"c{i}"
    # ---- tamper lane: one flipped bit in an exported key blob must not load as the configured context
    tamper = []
    for cc in r.sample([c for c in cases[:n_obj] if c["eng"] != "bee"], 60 if quick else 1500):  # BEE headers carry no integrity field
        t = dict(cc)
        t["id"], t["tamper"] = cc["id"] + "t", True
        tamper.append(t)
    say(f"[C13] GEN done {v.timer.s()}s: {len(structs)} + {len(wstructs)} (counter wrap) structural cases -> {n_main} + {n_wrap} concrete + {n_obj - n_gen} sampled + {n_cfg} from {len(shapes)} configuration shapes + {len(tamper)} tamper")

    by_id = {cc["id"]: cc for cc in cases + tamper}
    n_traces, block = 0, 25000
    drift = {}
    for k in range(0, len(cases), block):  # in blocks: a thorough run holds some 10^5 traces
        part = cases[k:k + block]
        traces = [t for res in pmap(execute, part, chunksize=16) for t in res]
        for t in traces:
            for key, n in (t.pop("drift", None) or {}).items():
                drift[key] = drift.get(key, 0) + n
        if k == 0:
            for t in (traces[0], traces[len(traces) // 3], traces[len(traces) // 2], traces[-1]):
                v.sample({"id": t["id"], "kind": t["kind"], "case": t["case"], "ev": t["ev"][:6]})
        ran = {t["id"].split("/")[0] for t in traces if t["ev"] and t["ev"][0]["e"] not in ("Refused", "Crash")}
        for cc in part:
            if cc["len"] > 0 and cc["id"] in ran:  # non-trivial: SPSDK produced an image and the engine model read at least one cell of it
                v.nontrivial(json.dumps([cc["eng"], cc["var"], cc["api"], cc["base"], cc["sub"], cc["len"], [(x["lo"], x["hi"], x["fl"], x["style"]) for x in cc["regs"]],
                                         cc.get("wrap", {}).get("blk")]))
        v.count(len(part))
        validate(v, by_id, traces)
        n_traces += len(traces)
        say(f"[C13] executed + validated {min(k + block, len(cases))}/{len(cases)} cases, {n_traces} traces {v.timer.s()}s")
    ttraces = [t for res in pmap(execute, tamper, chunksize=16) for t in res]
    mc, pred = bg.result()
    v.add_mc(mc)
    v.add_mc(g)
    v.add_mc(gw)
    v.add_mc(gc)
    v.extra["configuration_lane"] = {"shapes": len(shapes), "cases": n_cfg,
                                     "routes": {rt: sum(1 for c in cases[n_obj:] if c["cfg"]["route"] == rt) for rt in ("dict", "cli")},
                                     "bee_classes": len(reached)}
    v.extra["ispec_predictions"] = pred
    v.extra["drift_iee_ctr_subunit_cuts"] = dict(drift, note="NOT asserted (IEE data addresses are 4 KiB aligned in the property): whole vs pieces for cuts INSIDE a page "
                                                 "through IeeKeyBlob.encrypt_image in AES-CTR mode, incl. the cuts around the counter wrap; `differ` > 0 means the ciphertext "
                                                 "of a block depends on where the call started")
    say(f"[C13] MC done {v.timer.s()}s (MC alone {mc.wall:.1f}s): {mc.distinct} states; predicted by the I-spec: {sorted(pred)}")
    rej = validate(v, by_id, ttraces, expect_reject=True)
    acc = [t["id"] for t in ttraces if t["id"] not in rej]
    if acc:
        raise Machinery(f"tampered key blobs accepted by the ROM model: {acc[:5]}")
    v.extra["tamper_rejected"] = len(ttraces)

    v.cov["rule"] = (
        f"cases = the {len(structs)} structural cases TLC enumerates (1..3 unit-aligned disjoint regions, each decrypting / bypassing / invalid, in a window of "
        f"12 cells; every base cell; every length in cells) x engine (OTFAD, BEE, IEE) x byte tail {{0,1,15,16,17}} x sub-cell base offset x mode "
        "(OTFAD plain / byte-swapped, BEE one / two engines, IEE XTS-256/512, CTR-128/256 with address, bypass) x end-address convention x API level "
        f"({'one tail / offset / mode per structural case in rotation' if quick else 'all tails and offsets'}) + seeded samples with up to 4 regions in wider windows "
        f"+ the {len(wstructs)} counter-wrap cases TLC enumerates for IEE AES-CTR (1..2 regions, unit-aligned base, length in cells, the decrypting region and the cell of "
        "the image in which its counter word + (address >> 4) reaches 2^32; the block inside the cell, key size, short last cell in rotation) x API level "
        f"(IeeKeyBlob.encrypt_image when the image lies in the region, Iee.encrypt_image / IeeNxp in rotation), all unit-aligned cuts "
        f"({'one block position per structural case in rotation' if quick else 'all seven block positions'}); "
        "a case is non-trivial if the image is not empty, SPSDK exported something and the engine model read at least one cell of it; distinct by (engine, mode, API, base, offset, length, regions)"
        f" + the configuration lane: the {len(shapes)} shapes TLC enumerates (FlashEncGenCfg: 1..4 unit-aligned disjoint regions in a window of 16 cells; BEE: the engine of every "
        "region, engine_selection, one or two bee_engine entries incl. an entry no engine is selected for, generated / binary header per entry, equal / different user keys; "
        "OTFAD / IEE: decrypting / bypassing / invalid key blobs, equal / different keys, the image as one or two adjacent data blobs) run through check_config + load_from_config or "
        "through a JSON / YAML file + nxpimage bee_export / otfad_export / iee_export (place of the image, byte tail, route, family, spelling of the values in rotation) and judged by "
        f"the same ROM / engine models and FlashEncTrace ({'every n-th shape of every class: ' + str(c13_cfg.QUICK_EVERY) if quick else 'all shapes'})"
        " + " + hist.rule(tier))
    v.cov["exhaustive"] = not quick  # quick: flag variants and three-region placements 1 in 3, one tail / offset per structural case
    v.cov["checker_cmd"] = ("TLC FlashEncMC (lemmas + I-spec) ; TLC FlashEncCfgMC (description -> region headers: I-spec designs) ; TLC FlashEncGen + FlashEncGenWrap + FlashEncGenCfg (case spaces) ; TLC FlashEncTrace (decides every trace) ; "
                            "TLC FlashEncHistMC (histories of one object: lemmas, I-spec variants, GEN) ; TLC FlashEncHistTrace (decides every history)")
    v.cov["trusted_base"] = ["AES block function of `cryptography` (ECB, one block at a time)", "c13_hw.py: CTR counter blocks, XTS tweak chain, RFC 3394 unwrap, CBC, CRC-32/MPEG-2 in pure Python",
                             "anchors/C13: NXP image_enc artefacts + published vectors (RFC 3394 4.1, IEEE 1619 vector 2, CRC check value) reproduced at the start of every run", "TLC 2 (tla2tools.jar)"]
    v.assumptions += [
        "history lane: the engine model holds the CONFIGURED keys and ranges (not key blobs taken from the object under test); images are compared over the extent of the "
        "plaintext (padding behind it is not compared); equality of the key-blob BYTES between two requests is not asserted (the property states what they unwrap to) - "
        "counted in evidence as history_lane.not_asserted_keyblob_bytes_differ_from_first; OtfadNxp.export_image is called with the object's own table address, as binary_image() does",
        "IEE ranges are given as [start, end) with an aligned end address (schema text, NXP image_enc arguments and the repository's own adjacent key blobs share the boundary address); "
        "an inclusive end (…FFF) is outside the asserted domain for IEE (the I-spec predicts that its last page stays plaintext) - OTFAD accepts both conventions and both are asserted",
        "IEE AES-CTR: 'engine output = plaintext' is asserted only for cells in which the last big-endian word of the nonce plus (address >> 4) stays below 2^32 "
        "(carry behaviour of the hardware counter is not documented offline; the spec recomputes the block from the configured word: Settled / FetchUnsettled); "
        "'whole = pieces' is asserted for every unit-aligned cut, also at and behind that block; page_offset = 0",
        "IEE: pieces start at 4 KiB-aligned addresses only (the property's quantifier); cuts inside a page in AES-CTR mode are counted as drift (evidence: drift_iee_ctr_subunit_cuts), never as a violation",
        "IeeKeyBlob.encrypt_image (the key blob's own entry point) is driven only with images that lie completely inside the key blob's range (its documented precondition)",
        "OTFAD and BEE have no additive counter that can leave its range: OTFAD places the address itself in the counter block, BEE demands the last four nonce bytes to be zero (word = address >> 4 < 2^28)",
        "IEE AES-CTR without address binding / keystream-only: only the absence of a crash and the untouched bytes outside the ranges are asserted",
        "a refusal (SPSDKError) of a configuration inside the property's quantifier is reported (…/refused): the property presupposes an exported image",
        "OTFAD data byte swap is driven through Otfad.encrypt_image; OtfadNxp.binary_image never swaps (family mimxrt685s, whose database entry asks for it, is not in the NXP-level lane)",
        "hardware parameters per family (key-blob byte-swap count, reversed scramble mask, scrambling support) are read from the device database",
        "BEE: a fetch is decrypted iff it lies in a FAC region of an engine; the data key is the engine's user key",
        "configuration lane: a BEE header generated from a description carries a nonce and a KIB SPSDK draws itself - any nonce of the format (low word zero) is accepted, lock options 0; "
        "whole = pieces is asserted for BEE only where every selected engine is described by a binary header (two runs with generated headers cannot be compared); "
        "engine_key_selection is not interpreted by SPSDK and not asserted; binary headers are made by the harness from the format alone",
        "configuration lane: values are spelled as in the templates (keys as 0x-prefixed hexadecimal strings, addresses as hexadecimal strings or numbers, KEK as string or binary file); "
        "`key_blob` families (mimxrt1189: no key-blob page is generated) are read by an engine model that holds the CONFIGURED values; "
        "OTFAD / IEE data blobs are handed over as plain binary files whose last byte is >= 0x80 (a file of one or two white-space characters is taken for an empty text file by "
        "the loader's format detection - not asserted, format detection is outside the property)",
    ]
    return v.finish()


def replay(path):
    import_spsdk()
    selftest()
    w = json.load(open(path))["witness"]
    cc = w["case"]
    if w["kind"] == "hist":
        import c13_hist as hist

        t, rej = hist.replay(cc)
        say(json.dumps({"id": t["id"], "ev": [dict(e, cells=[c for c in e.get("cells", []) if not c.get("ok")][:4]) for e in t["ev"]]})[:3000])
        if rej:
            for tid, (matched, length, evname) in rej.items():
                say(f"  rejected at request {matched + 1}/{length} ({evname})")
            say(f"VIOLATION property=C13 replay={path}")
            return 1
        say("replay: history accepted by the history spec")
        return 0
    cc["kb"] = True
    trs = execute(cc)
    for t in trs:
        t.pop("drift", None)
    trs = [t for t in trs if t["kind"] == w["kind"]]
    rej, _ = tlc.tv("C13", "FlashEncTrace", trs)
    for t in trs:
        say(json.dumps({"id": t["id"], "ev": t["ev"]})[:1500])
    if rej:
        for tid, (matched, length, evname) in rej.items():
            say(f"  rejected at event {matched + 1}/{length} ({evname})")
        say(f"VIOLATION property=C13 replay={path}")
        return 1
    say("replay: trace accepted by the engine spec")
    return 0
