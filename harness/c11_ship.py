"""C11 - the register files the device database SHIPS (lane "ship").

The generated layouts of harness/c11.py are well-formed by construction.  The register files of the shipped devices are data too:
every family x revision x feature that declares `reg_spec` + `grouped_registers` describes a layout the property quantifies over, and
a data mistake there (a group whose declared width is not the width of the registers behind it, a member named twice / left out)
breaks the bit-vector clauses exactly as a code mistake would.

 * the LAYOUT of every shipped grouped register is read here from the declarations themselves (the `grouped_registers` entry of the
   device database and the register JSON file it points to) - never from SPSDK's Register objects: declared width, byte reversal,
   sub-register order, the member registers with their bit-fields, plus the nearest plain registers before / after the members
   (observed only: a group write must not disturb them);
 * spec/C11/RegFileShipGen.tla enumerates the tours of every group (full-width values through both views, one value per
   sub-register slot, the sub-register direction, refusals, bit-fields of members, configuration / export round trips);
 * the tours are replayed on the REAL object `Registers(family, feature, base_key, revision)` (fuses also `FuseRegisters(family)`),
   projected like every other C11 trace and decided by TLC (RegFileTrace; its clause ReadsBack: an accepted whole-register write
   reads back through the same view).
"""
import json
import os

import hashlib

from lib.common import Machinery, sha

MAX_NEIGH = 2


# ------------------------------------------------------------------ numbers of the database files
def to_int(x, default=0):
    if x is None:
        return default
    if isinstance(x, bool):
        return int(x)
    if isinstance(x, int):
        return x
    s = str(x).strip().replace("_", "")
    if s.lower().startswith("0x"):
        return int(s, 16)
    if s.lower().startswith("0b"):
        return int(s[2:], 2)
    return int(s, 10)


def to_bool(x):
    if isinstance(x, str):
        return x.strip().lower() in ("true", "1", "yes", "t")
    return bool(x)


def bits_of(v):
    return [i for i in range(v.bit_length()) if v >> i & 1]


def parse_shr(spec):
    """'SHIFT_RIGHT:COUNT=k;DESC=...' -> k ; nothing -> 0 ; anything else -> None (a processor the spec does not know)."""
    if not spec:
        return 0
    head, _, params = str(spec).partition(":")
    if head.strip().upper() != "SHIFT_RIGHT":
        return None
    for p in params.split(";"):
        k, _, val = p.partition("=")
        if k.strip().upper() == "COUNT":
            return to_int(val)
    return None


# ------------------------------------------------------------------ where the database declares register files
def walk_reg_files(node, path):
    if isinstance(node, dict):
        if "reg_spec" in node:
            yield path, node
        for k, v in node.items():
            if isinstance(v, dict):
                yield from walk_reg_files(v, path + [k])


def shipped_files():
    """Every (family, revision, feature, base key) of the database that declares a register file: list of dicts."""
    from spsdk.utils.database import DatabaseManager

    db = DatabaseManager.get_db(complete_load=True)
    out = []
    for dev in sorted(db.devices.devices, key=lambda d: d.name):
        for rev in dev.revisions:
            for feat in sorted(rev.features):
                for path, node in walk_reg_files(rev.features[feat], []):
                    try:
                        spec_file = rev.get_file_path(feat, list(path) + ["reg_spec"])
                    except Exception:  # noqa: BLE001 - a register file the database cannot locate is not ours to judge
                        continue
                    out.append({"family": dev.name, "rev": rev.name, "latest": bool(rev.is_latest), "feature": feat, "base": list(path), "spec_file": spec_file,
                                "groups": [dict(g) for g in (node.get("grouped_registers") or [])]})
    return out


# ------------------------------------------------------------------ layout of one declared group
def leaf_of(spec):
    """One register of a register JSON file -> leaf of the layout, or a reason why the spec cannot describe it."""
    width = to_int(spec.get("reg_width", 32))
    fields, off, odd = [], 0, []
    for b in spec.get("bitfields", []) or []:
        w = to_int(b.get("width", 0))
        hidden_name = f"HIDDEN_BITFIELD_{off:03X}"
        name = b.get("name", hidden_name)
        shr = parse_shr(b.get("config_preprocess"))
        if shr is None:
            odd.append("unknown config processor")
            shr = 0
        if shr and to_int(b.get("reset_value_int", 0)):
            odd.append("SHIFT_RIGHT field with a reset value")          # DESIGN 9: constructor and get_reset_value disagree, property silent
        if b.get("offset") is not None and to_int(b.get("offset")) != off:
            odd.append("declared bit-field offset differs from the running offset")
        enums, names = [], set()
        for e in b.get("values", []) or []:
            try:
                val = to_int(e.get("value"))
            except ValueError:
                odd.append("enum value that is not a number")
                continue
            if e.get("name") in names or val >= 1 << w:
                odd.append("enum names not unique / enum value wider than the field")
            names.add(e.get("name"))
            enums.append({"name": str(e.get("name")), "v": bits_of(val << shr)})
        fields.append({"name": name, "uid": b.get("id", ""), "off": off, "width": w, "reset": bits_of(to_int(b.get("reset_value_int", 0))), "shr": shr,
                       "hidden": name == hidden_name, "enums": enums})
        off += w
    if off > width:
        odd.append("bit-fields wider than the register")
    vis = [f["name"] for f in fields if not f["hidden"]]
    if len(set(vis)) != len(vis):
        odd.append("bit-field names not unique")
    reg_reset = to_int(spec.get("reset_value_int", 0))
    fld_reset = sum(sum(1 << b for b in f["reset"]) << f["off"] for f in fields)
    leaf = {"name": spec.get("name", "N/A"), "uid": spec.get("id", ""), "kind": "leaf", "width": width, "reverse": False, "parent": 0, "subs": [], "rso": False,
            "fields": fields, "reset": bits_of((reg_reset | fld_reset) & ((1 << width) - 1)), "altw": [], "hexstr": False}
    return leaf, odd, {"off": spec.get("offset_int"), "hidden": to_bool(spec.get("is_reserved", False))}


def group_layouts(entry):
    """Layouts of all groups one register file declares: [(group declaration, layout, notes)].  The layout holds the group as DECLARED
    (width, reversal, order flag), its members = the registers of the file whose uid the declaration names (in file order; every shipped
    declaration lists them in that order too - a difference would be noted, not judged) and up to two plain neighbours."""
    with open(entry["spec_file"], "r", encoding="utf-8") as f:
        spec = json.load(f)
    file_regs = [r for g in spec.get("groups", []) for r in g.get("registers", [])]
    named = set()
    for g in entry["groups"]:
        named |= set(g.get("sub_regs", []))
    # does the file describe a memory image (every register has its own byte range)?  Only then export -> parse is asked to be the identity.
    spans, img = [], True
    for r in file_regs:
        if r.get("offset_int") is None:
            img = False
            break
        o = to_int(r.get("offset_int"))
        spans.append((o, o + to_int(r.get("reg_width", 32)) // 8))
    if img:
        spans.sort()
        img = all(a[1] <= b[0] for a, b in zip(spans, spans[1:]))
    offs = [r.get("offset_int") for r in file_regs]
    out = []
    for g in entry["groups"]:
        notes = []
        idx = [i for i, r in enumerate(file_regs) if r.get("id", "") in g.get("sub_regs", [])]
        regs = [{"name": g["name"], "uid": g["uid"], "kind": "group", "width": to_int(g.get("width", 0)), "reverse": to_bool(g.get("reversed", False)), "parent": 0,
                 "subs": [], "rso": to_bool(g.get("reverse_subregs_order", False)), "fields": [], "reset": [],
                 "altw": sorted(to_int(a) for a in (g.get("alternative_widths") or [])), "hexstr": to_bool(g.get("config_as_hexstring", False))}]
        for i in idx:
            leaf, odd, _ = leaf_of(file_regs[i])
            if odd:
                notes.append(f"member {leaf['name']}: {', '.join(sorted(set(odd)))} - bit-fields of this member are not driven")
                leaf["fields"] = []
            leaf["parent"] = 1
            regs.append(leaf)
            regs[0]["subs"].append(len(regs))
        if regs[0]["width"] == 0:                       # no declared width: the group is as wide as its members (documented default)
            regs[0]["width"] = sum(r["width"] for r in regs[1:])
        # neighbours: the nearest plain registers before the first / after the last member in the file
        neigh = []
        if idx:
            for rng_ in (range(idx[0] - 1, -1, -1), range(idx[-1] + 1, len(file_regs))):
                for i in rng_:
                    r = file_regs[i]
                    if r.get("id", "") in named:
                        continue
                    leaf, odd, meta = leaf_of(r)
                    same_off = meta["off"] is not None and to_int(meta["off"]) != 0 and offs.count(meta["off"]) > 1     # merged into an alias by add_register
                    if odd or meta["hidden"] or same_off or [x["name"] for x in file_regs].count(r.get("name")) > 1:
                        continue
                    neigh.append(leaf)
                    break
        regs += neigh[:MAX_NEIGH]
        missing = [u for u in g.get("sub_regs", []) if u not in {r.get("id", "") for r in file_regs}]
        decl = list(g.get("sub_regs", []))
        if missing:
            notes.append(f"{len(missing)} declared member(s) not in the register file: {missing[:4]}")
        if len(set(decl)) != len(decl):
            notes.append("a member is named more than once")
        found = [file_regs[i].get("id", "") for i in idx]
        if [u for u in decl if u in found] != found and len(set(decl)) == len(decl):
            notes.append("declared member order differs from the file order")
        out.append((g, {"regs": regs, "img": bool(img)}, notes))
    return out


# ------------------------------------------------------------------ the real object
class ShipReal:
    """Registers(family, feature, base_key, revision) / FuseRegisters(family, revision) + the operations of the spec on one sub-layout."""

    def __init__(self, case, layout, variant=0):
        self.case = case
        self.layout = layout
        self.idx = variant // 2
        self.little = False
        self.cls = "FuseRegisters" if (case["feature"] == "fuses" and not case["base"] and variant % 2) else "Registers"
        self.route = f"db:{self.cls}"
        self.regs = self.fresh()

    def fresh(self):
        c = self.case
        if self.cls == "FuseRegisters":
            from spsdk.fuses.fuse_registers import FuseRegisters

            return FuseRegisters(family=c["family"], revision=c["rev"])
        from spsdk.utils.registers import Registers

        return Registers(family=c["family"], feature=c["feature"], base_key=list(c["base"]) or None, revision=c["rev"])

    def reg(self, r):
        """By uid or by name in rotation (both are public look-ups); by uid only where the file uses one name for two registers of the sub-layout."""
        rg = self.layout["regs"][r - 1]
        unique = sum(1 for x in self.layout["regs"] if x["name"] == rg["name"]) == 1
        if (r + self.idx) % 2 or not unique or not rg["name"]:
            return self.regs.get_reg(rg["uid"])
        return self.regs.find_reg(rg["name"], include_group_regs=True)

    def field(self, r, f, how=0):
        fl = self.layout["regs"][r - 1]["fields"][f - 1]
        reg = self.reg(r)
        if how % 2 == 0 or not fl["uid"]:
            return reg.find_bitfield(fl["name"])
        return reg.get_bitfield(fl["uid"])


def make_real_class():
    """ShipReal with the operations (apply / query / projection / present) of harness/c11.Real - one implementation of the replay."""
    import c11

    class _Ship(ShipReal, c11.Real):
        def __init__(self, case, layout, variant=0):
            ShipReal.__init__(self, case, layout, variant)

        fresh = ShipReal.fresh
        reg = ShipReal.reg
        field = ShipReal.field

    return _Ship


def replay_tour(Ship, case, layout, lay_idx, tour, tid, r):
    evs = []
    try:
        real = Ship(case, layout, variant=tid)
    except Exception as e:  # noqa: BLE001
        return {"id": tid, "lay": lay_idx, "ev": [{"a": "Crash", "of": "Init", "exc": type(e).__name__, "msg": str(e)[:200]}], "made": "db", "case": case_label(case)}
    try:
        evs.append({"a": "Init", "post": real.projection()})
    except Exception as e:  # noqa: BLE001 - the declared registers are not in the object
        evs.append({"a": "Crash", "of": "Init", "exc": type(e).__name__, "msg": str(e)[:200]})
        return {"id": tid, "lay": lay_idx, "ev": evs, "made": real.route, "case": case_label(case)}
    for a in tour:
        try:
            evs.append(real.apply(a, r))
        except Exception as e:  # noqa: BLE001 - a crash of a public operation is an observation, decided by the spec (no matching action)
            evs.append({"a": "Crash", "of": a["a"], "exc": type(e).__name__, "msg": str(e)[:200]})
            break
    return {"id": tid, "lay": lay_idx, "ev": evs, "made": real.route, "case": case_label(case)}


_file_sha = {}


def file_sha(path):
    if path not in _file_sha:
        with open(path, "rb") as f:
            _file_sha[path] = hashlib.sha256(f.read()).hexdigest()
    return _file_sha[path]


def case_label(c):
    feat = ".".join([c["feature"]] + list(c["base"]))
    return f"{feat}/{c['family']}/{c['rev']}/{c['group']}"


def rest_of(case, layout):
    """Number of top-level registers of the real file outside the sub-layout, taken from the object as constructed: the property does not say how
    many registers a file has, it says that no operation changes the number.  (A constructor that raises is an observation of the replay, not ours.)"""
    try:
        from spsdk.utils.registers import Registers

        regs = Registers(family=case["family"], feature=case["feature"], base_key=list(case["base"]) or None, revision=case["rev"])
        return len(regs) - sum(1 for x in layout["regs"] if x["parent"] == 0)
    except Exception:  # noqa: BLE001
        return 0


def layout_of_case(case):
    """The layout of one declared group, read again from the database (replay of a witness)."""
    for e in shipped_files():
        if (e["family"], e["rev"], e["feature"], list(e["base"])) == (case["family"], case["rev"], case["feature"], list(case["base"])):
            for g, lay, _ in group_layouts(e):
                if g["name"] == case["group"]:
                    lay["rest"] = rest_of(case, lay)
                    return lay
    return None


# ------------------------------------------------------------------ the lane
SHIP_QUERIES_SAFE = {"config", "config_diff", "names_grp", "regs_grp", "find_grp", "hex_values", "enum_values", "bitfield_names"}


def canary_layouts():
    """Two made-up layouts (nothing of SPSDK): a 64-bit group of two 32-bit members, and the same declaration with one member missing."""
    def leaf(name, parent):
        return {"name": name, "uid": name.lower(), "kind": "leaf", "width": 32, "reverse": False, "parent": parent, "subs": [], "rso": False, "fields": [], "reset": [],
                "altw": [], "hexstr": False}

    def group(subs):
        return {"name": "G", "uid": "g", "kind": "group", "width": 64, "reverse": False, "parent": 0, "subs": subs, "rso": False, "fields": [], "reset": [], "altw": [],
                "hexstr": False}

    return [{"regs": [group([2, 3]), leaf("S1", 1), leaf("S2", 1)], "img": True, "rest": 0}, {"regs": [group([2]), leaf("S1", 1)], "img": True, "rest": 1}]


def canary_traces():
    def post(bits, gv, n):
        return {"bits": [[]] + bits, "n": n, "fv": [[] for _ in range(len(bits) + 1)], "en": [[] for _ in range(len(bits) + 1)], "gv": [[gv, gv]] + [[[], []] for _ in bits]}

    good = {"id": "canary-ship-good", "lay": 1, "ev": [{"a": "Init", "post": post([[], []], [], 1)},
                                                      {"a": "SetReg", "r": 1, "v": [0, 40], "raw": False, "refused": False, "post": post([[0], [8]], [0, 40], 1)}]}
    # what an implementation does that accepts the 64-bit value and keeps the 32 bits it has a register for
    bad = {"id": "canary-ship-bad", "lay": 2, "ev": [{"a": "Init", "post": post([[]], [], 2)},
                                                    {"a": "SetReg", "r": 1, "v": [0, 40], "raw": False, "refused": False, "post": post([[0]], [0], 2)}]}
    # the same write on the untiled layout restricted to the bits that have a home is a step of the spec (the clause is about the lost bits only)
    fine = {"id": "canary-ship-low", "lay": 2, "ev": [{"a": "Init", "post": post([[]], [], 2)},
                                                     {"a": "SetReg", "r": 1, "v": [0, 9], "raw": False, "refused": False, "post": post([[0, 9]], [0, 9], 2)}]}
    return [good, bad, fine]


def tv_split(traces, lfile, parts=4):
    """RegFileTrace over the ship traces in `parts` TLC processes side by side (each -workers 1; own scratch sub-directory as in lib.ptv)."""
    from lib import common, tlc
    from lib.par import pmap

    chunks = [(i, traces[i::parts]) for i in range(parts) if traces[i::parts]]
    base = common.scratch()

    def work(item):
        i, part = item
        saved = common._scratch
        sub = os.path.join(base, f"c11-ship-tv-{os.getpid()}-{i}")
        os.makedirs(sub, exist_ok=True)
        common._scratch = sub
        try:
            rej, res = tlc.tv("C11", "RegFileTrace", part, env={"LAYOUT_FILE": lfile, "MENU": "full"}, heap="3g")
            return rej, res.distinct
        finally:
            common._scratch = saved

    out = pmap(work, chunks, procs=len(chunks), chunksize=1) if len(chunks) >= 4 else [work(c) for c in chunks]
    rej, distinct = {}, 0
    for r_, d in out:
        rej.update(r_)
        distinct += d
    return rej, distinct


def run_lane(v, tier, r):
    """Everything of the lane "ship"; violations are reported through v. Returns a summary dict for the coverage rule."""
    import c11
    from lib import tlc
    from lib.common import say, scratch
    from lib.par import pmap

    sc = scratch()
    # ---- canary of the lane (spec-side only)
    cfile = os.path.join(sc, "c11-ship-canary.json")
    json.dump(canary_layouts(), open(cfile, "w"))
    rej, _ = tlc.tv("C11", "RegFileTrace", canary_traces(), env={"LAYOUT_FILE": cfile, "MENU": "full"})
    if set(rej) != {"canary-ship-bad"}:
        raise Machinery(f"ship canary failed: rejected {sorted(rej)} (expected only canary-ship-bad)")
    if rej["canary-ship-bad"][0] != 1:
        raise Machinery(f"ship canary rejected at the wrong event: {rej['canary-ship-bad']}")
    # ---- refutation: on the untiled layout TLC must find RegWriteWins violated (the lemma is not vacuous for groups)
    ufile = os.path.join(sc, "c11-ship-untiled.json")
    json.dump(canary_layouts()[1:], open(ufile, "w"))
    ref = tlc.run("C11", "RegFile", "RegFileMC_untiled.cfg", env={"LAYOUT_FILE": ufile, "MC_LEVEL": 2, "MENU": "small"}, deadlock=False, timeout=600)
    if ref.violated != "RegWriteWins":
        raise Machinery(f"refutation run: expected RegWriteWins violated on the untiled layout, got {ref.violated}\n{ref.out[-1500:]}")
    v.extra["canary_ship"] = ("made-up 64-bit group of two members: write accepted; the same declaration with one member missing: the truncating trace rejected at "
                              "the write (ReadsBack), TLC refutes RegWriteWins on it; a write of bits that have a home accepted")

    # ---- the case space: every declared group of every shipped register file
    files = shipped_files()
    cases, layouts, lay_idx, notes_all = [], [], {}, {}
    for e in files:
        if not e["groups"]:
            continue
        for g, lay, notes in group_layouts(e):
            case = {"family": e["family"], "rev": e["rev"], "feature": e["feature"], "base": e["base"], "group": g["name"]}
            lay["rest"] = rest_of(case, lay)
            k = json.dumps(lay, sort_keys=True)
            case["klass"] = sha([k, file_sha(e["spec_file"])])
            if k not in lay_idx:
                layouts.append(lay)
                lay_idx[k] = len(layouts)
            case["lay"] = lay_idx[k]
            cases.append(case)
            if notes:
                notes_all[case_label(case)] = notes
    if len(cases) < 20 or len(files) < 200:
        raise Machinery(f"the device database declares only {len(cases)} grouped registers in {len(files)} register files - enumeration broken?")
    lfile = os.path.join(sc, "c11-ship-layouts.json")
    json.dump(layouts, open(lfile, "w"))
    gen = tlc.run("C11", "RegFileShipGen", "RegFileShipGen.cfg", env={"LAYOUT_FILE": lfile}, workers=1, deadlock=False, heap="4g", timeout=900)
    if gen.violated or not gen.no_error:
        raise Machinery(f"RegFileShipGen did not pass: {gen.violated}\n{gen.out[-2000:]}")
    v.add_mc(gen)
    tours = {}
    for t in gen.json_prints():
        tours.setdefault(t["lay"], []).append(t)
    for i in range(1, len(layouts) + 1):
        kinds = {t["kind"] for t in tours.get(i, [])}
        if not {"T1", "T1o", "T2", "T3", "T4"} <= kinds:
            raise Machinery(f"ship layout {i} ({layouts[i - 1]['regs'][0]['name']}): tours {sorted(kinds)} - generator incomplete")
    for ts in tours.values():
        for t in ts:
            for a in t["hist"]:
                if a["a"] == "Query" and a["q"] not in SHIP_QUERIES_SAFE:
                    raise Machinery(f"tour uses query {a['q']}")
    say(f"[C11] ship GEN done {v.timer.s()}s: {len(cases)} declared groups in {sum(1 for f in files if f['groups'])} of {len(files)} register files, "
        f"{len(layouts)} distinct layouts, {sum(len(x) for x in tours.values())} tours")

    Ship = make_real_class()
    jobs, tid = [], 500000
    reps = 1 if tier == "quick" else 2          # thorough: every tour on both register classes / both look-ups (the trace id carries the variant)
    # quick: families / revisions that ship byte-identical declarations AND a byte-identical register file form one class: its first member is driven through
    # every tour, each further member through the deciding ones (full-width value through both views with all round trips, refusals)
    first = {}
    for c in cases:
        first.setdefault(c["klass"], case_label(c))
    for c in cases:
        for t in tours[c["lay"]]:
            if tier == "quick" and first[c["klass"]] != case_label(c) and t["kind"] not in ("T1", "T4"):
                continue
            for _ in range(reps):
                jobs.append((c, t, tid))
                tid += 1

    def work(job):
        c, t, i = job
        from lib.common import rng

        return replay_tour(Ship, c, layouts[c["lay"] - 1], c["lay"], t["hist"], i, rng("C11", "ship", case_label(c), t["kind"], i))

    traces = pmap(work, jobs, chunksize=32)
    kinds = {j[2]: j[1]["kind"] for j in jobs}
    say(f"[C11] ship replay done {v.timer.s()}s: {len(traces)} traces")
    v.count(len(traces))
    for t in traces:
        v.nontrivial(json.dumps([t["case"], [(e.get("a"), e.get("r"), e.get("f"), e.get("v"), e.get("q")) for e in t["ev"]]]))
    v.sample(traces[len(traces) // 2])
    rej, distinct = tv_split(traces, lfile)
    v.traces(len(traces))
    v.extra["tv_states"] = v.extra.get("tv_states", 0) + distinct
    by_id = {t["id"]: t for t in traces}
    for i, (matched, length, evname) in rej.items():
        t = by_id[i]
        ev = t["ev"][matched] if matched < len(t["ev"]) else t["ev"][-1]
        lay = layouts[t["lay"] - 1]
        key = f"C11/ship/{t['case']}/{c11.arg_class(lay, ev) if ev.get('a') != 'Init' else 'Init'}"
        v.violation(key, f"trace {i} (tour {kinds[i]} of {t['case']}, {t['made']}): event #{matched + 1} ({evname}) is not a step of the register-file spec",
                    {"layout": lay, "trace": t, "failed_event": matched + 1, "case": next(j[0] for j in jobs if j[2] == i), "declaration_notes": notes_all.get(t["case"], [])})
    say(f"[C11] ship TV done {v.timer.s()}s: {len(rej)} rejected")
    return {"cases": len(cases), "files": len(files), "layouts": len(layouts), "traces": len(traces), "classes": len(first)}
