"""C01, history lane - EVERY export of one builder object is the export of a fresh object holding the current settings.

spec/C01/Mbi.tla      : "the object's history" - the actions (Export, SetApp, SetTz / ClearTz, SetKs / ClearKs, Reconfigure, Parse), their guards
                        (Offers) and effects (After) on the settings record, the clause
spec/C01/MbiHist.tla  : MC + GEN - TLC enumerates all action sequences up to a depth per composition / start / lane, checks the lemmas, prints them
spec/C01/MbiTrace.tla : TV - the action events move the settings every later observation is judged against (TExport ... TParse, TFresh)

This module only REPLAYS the histories on the real classes (objects built through load_from_config or the class constructor, or obtained from
MasterBootImage.parse), reads numbers off every emitted image (c01.header_events), builds the fresh twin, and hands the traces to TLC.
The attribute-level actions are what the class constructor itself does (`MasterBootImage.__init__` is `setattr` for every keyword), Reconfigure is
`load_from_config` on the same object.
"""
import json
import os
import shutil
import struct

from lib import mbi_build as B
from lib.common import rng, scratch, seed

PROP = "C01"
KS_LEN = 1424


# ------------------------------------------------------------------ from the generator's names to action records
def action_of(name, menu, tzlen):
    """Name printed by MbiHist -> the action record of Mbi.tla (the event that goes into the trace)."""
    if name.startswith("SetApp:"):
        return {"ev": "SetApp", "len": int(name.split(":")[1]), "tail": "plain"}
    if name == "SetTz:enabled":
        return {"ev": "SetTz", "tz": "enabled", "tzLen": 0}
    if name == "SetTz:custom":
        return {"ev": "SetTz", "tz": "custom", "tzLen": tzlen}
    if name.startswith("Reconfigure:"):
        return {"ev": "Reconfigure", "to": with_tzlen(menu[name.split(":")[1]], tzlen)}
    return {"ev": name}  # Export, ClearTz, SetKs, ClearKs, Parse


def with_tzlen(x, tzlen):
    x = dict(x)
    if x["tz"] == "custom":
        x["tzLen"] = tzlen
    return x


def needs(h, menu):
    """What a history asks of the member it runs on: a custom TrustZone preset somewhere / a parse somewhere."""
    names = h["h"]
    x0 = menu[h["s"]]
    custom = x0["tz"] == "custom" or "SetTz:custom" in names or any(n.startswith("Reconfigure:") and menu[n.split(":")[1]]["tz"] == "custom" for n in names)
    return custom, h["lane"] == "parsed" or "Parse" in names


# ------------------------------------------------------------------ replay of one history on the real code
def observe(job):
    wd = os.path.join(scratch(), "c01", f"h{job['hid']}")
    try:
        return _observe(job, wd)
    finally:
        shutil.rmtree(wd, ignore_errors=True)


def _new_app(n, r):
    app = bytearray(r.randbytes(n))
    app[0:12] = struct.pack("<3I", 0x20000000 + 4 * r.randrange(1, 0x4000), 0x101 + 2 * r.randrange(0x1000), 0x2001 + 2 * r.randrange(0x1000))
    return bytes(app)


def _tz_for(member, kind, o, r, step):
    """The TrustZone part of an option set: kind enabled / disabled / custom (dictionary form and binary form alternate)."""
    o = B.Opts(o)
    o["tz"] = kind
    o.pop("tz_customs", None)
    o.pop("tz_data", None)
    if kind == "custom":
        if step % 2 == 0:
            o["tz_customs"], o["tz_data"] = B.tz_customs(member, r)
        else:
            o["tz_data"] = r.randbytes(B.mtz_len(member))
    return o


def _set_tz(mbi, member, o):
    """What the class constructor does with trust_zone (and, for the manifest classes, with the manifest that carries it)."""
    from spsdk.image.mbi.mbi_classes import MasterBootImageManifestCrc, MasterBootImageManifestDigest

    tz = B.trust_zone_obj(member, o)
    mbi.trust_zone = tz
    if B.has(member, "ManifestCrc"):
        mbi.manifest = MasterBootImageManifestCrc(o.fw_ver or 0, tz)
    if B.has(member, "ManifestDigest"):
        mbi.manifest = MasterBootImageManifestDigest(o.fw_ver or 0, tz, digest_hash_algo=B.digest_algo(o, o["cert"]))


def _build(member, o, route, wd):
    return (B.build_config if route == "cfg" else B.build_ctor)(member, o, wd)[0]


def _observe(job, wd):
    import c01

    member, hid, route, lane = job["member"], job["hid"], job["route"], job["lane"]
    tzlen = B.mtz_len(member)
    menu = job["menu"]
    x = with_tzlen(menu[job["s"]], tzlen)
    names = (["Export", "Parse"] if lane == "parsed" else []) + list(job["h"])
    if names[-1] != "Export":
        names.append("Export")  # every history is closed by an export
    r = rng(PROP, "hist", hid)
    cls_rec = {"id": job["c"], "type": member["type"], "mixins": member["mixins"]}
    meta = {"hid": hid, "route": route, "lane": lane, "s": job["s"], "h": job["h"], "twin": member.get("twin", "self"), "c": job["c"], "x": x, "menu": menu,
            "member": {k: member[k] for k in ("family", "revision", "target", "auth", "cls")}, "full": job.get("full", False)}
    o = c01.concretise({"c": job["c"], "x": x}, member, hid, route, r=r)
    try:
        mbi = _build(member, o, route, os.path.join(wd, "s0"))
    except Exception as e:  # noqa: BLE001 - the builder does not accept the start: outside the property's quantifier
        return {"refused": f"{type(e).__name__}: {str(e)[:160]}", "meta": meta}
    ev = [{"ev": "Build"}]
    cur = dict(x)            # the settings record, moved exactly as the R-spec's After does (recomputed by TLC from the events)
    last = None              # (bytes, option set, settings) of the last export
    changed = lane == "parsed"   # is the object still what the builder made of ONE option set?
    done = []
    for step, name in enumerate(names):
        a = action_of(name, menu, tzlen)
        kind = a["ev"]
        done.append(kind)
        final = step == len(names) - 1
        try:
            if kind == "Export":
                ev.append(a)
                data = mbi.export()
            elif kind == "SetApp":
                o = B.Opts(o, app=_new_app(a["len"], r))
                mbi.app = o["app"]
                cur.update(appLen=a["len"], tail="plain")
            elif kind in ("SetTz", "ClearTz"):
                o = _tz_for(member, a.get("tz", "disabled"), o, r, step + hid)
                _set_tz(mbi, member, o)
                cur.update(tz=a.get("tz", "disabled"), tzLen=a.get("tzLen", 0))
            elif kind in ("SetKs", "ClearKs"):
                from spsdk.image.keystore import KeySourceType, KeyStore

                o = B.Opts(o, ks=r.randbytes(KS_LEN) if kind == "SetKs" else None)
                mbi.key_store = KeyStore(KeySourceType.KEYSTORE, o["ks"]) if o["ks"] else None
                cur.update(ks=kind == "SetKs")
            elif kind == "Reconfigure":
                o = c01.concretise({"c": job["c"], "x": a["to"]}, member, hid + step + 1, route, r=r)
                cwd = os.path.join(wd, f"s{step + 1}")
                cfg = B.make_config(member, o, cwd)
                mbi.load_from_config(cfg, search_paths=[cwd])
                cur = dict(a["to"])
            elif kind == "Parse":
                pdata, po, px = last
                try:
                    mbi = B.parse_image(member, pdata, po)
                except Exception as e:  # noqa: BLE001 - decided by the spec (same event as in the single-image lane); the history ends here
                    ev.append({"ev": "ParseOk", "ok": False, "exc": type(e).__name__, "msg": str(e)[:200]})
                    meta["at_settings"] = px
                    break
                ev.append(a)
                changed = True   # not an object the builder made: always compared with a fresh one
                B.reattach_keys(mbi, member, po)
                o = B.Opts(po, app=c01.pad4(po["app"]))
                cur = dict(px, appLen=len(o["app"]))
                try:
                    ev += c01.parse_events(mbi, member, o, pdata, o["app"])
                except Exception as e:  # noqa: BLE001 - a parsed object that cannot even be inspected
                    ev.append({"ev": "ParseApp", "len": -1, "diffWords": [], "romWordsZero": False, "exc": f"{type(e).__name__}: {str(e)[:120]}"})
                    break
        except Exception as e:  # noqa: BLE001
            # the live object refuses the step.  Inside the quantifier only if a FRESH object accepts the settings the step leads to.
            try:
                _build(member, o, route, os.path.join(wd, f"r{step}")).export()
            except Exception as e2:  # noqa: BLE001 - the builder refuses these settings altogether
                return {"refused": f"after {'>'.join(done)}: {type(e2).__name__}: {str(e2)[:140]}", "meta": meta}
            if kind != "Export":
                ev.append(a)
            ev.append({"ev": "Fresh", "ok": False, "exc": type(e).__name__, "msg": str(e)[:200], "len": -1, "diffs": [], "stage": kind})
            break
        if kind not in ("Export", "Parse"):
            ev.append(a)
            changed = True
        if kind != "Export":
            continue
        # ---- what this export looks like: header words / layout, the fresh twin, (the reader's view)
        ev += c01.header_events(data, o, member)
        if changed or last is not None or job.get("full"):   # not for the first export of an untouched built object: that IS the fresh object
            try:
                fresh = _build(member, o, route, os.path.join(wd, f"f{step}")).export()
            except Exception as e:  # noqa: BLE001 - no twin to compare with: the builder refuses these settings on a fresh object
                return {"refused": f"fresh twin after {'>'.join(done)}: {type(e).__name__}: {str(e)[:140]}", "meta": meta}
            ev.append({"ev": "Fresh", "ok": True, "exc": "", "len": len(fresh), "diffs": B.diff_ranges(data, fresh)})
        last = (data, o, dict(cur))
        if final or job.get("full"):
            apad = c01.pad4(o["app"])
            try:
                q = B.parse_image(member, data, o)
                ev.append({"ev": "ParseOk", "ok": True, "exc": ""})
            except Exception as e:  # noqa: BLE001 - decided by the spec
                ev.append({"ev": "ParseOk", "ok": False, "exc": type(e).__name__, "msg": str(e)[:200]})
                continue
            try:
                ev += c01.parse_events(q, member, o, data, apad)
            except Exception as e:  # noqa: BLE001
                ev.append({"ev": "ParseApp", "len": -1, "diffWords": [], "romWordsZero": False, "exc": f"{type(e).__name__}: {str(e)[:120]}"})
    meta["len"] = len(last[0]) if last else -1
    return {"t": {"cls": cls_rec, "x": x, "ev": ev}, "meta": meta}


# ------------------------------------------------------------------ finding keys
HIST_EVENTS = {"Export", "SetApp", "SetTz", "ClearTz", "SetKs", "ClearKs", "Reconfigure", "Parse"}


def settings_at(trace, upto, menu_x0):
    """The settings record in force at event #upto (0-based), following the action events (for the key only; the verdict is TLC's)."""
    cur, last = dict(menu_x0), None
    for e in trace["ev"][:upto + 1]:
        k = e["ev"]
        if k == "Export":
            last = dict(cur)
        elif k == "SetApp":
            cur.update(appLen=e["len"], tail=e["tail"])
        elif k == "SetTz":
            cur.update(tz=e["tz"], tzLen=e["tzLen"])
        elif k == "ClearTz":
            cur.update(tz="disabled", tzLen=0)
        elif k in ("SetKs", "ClearKs"):
            cur["ks"] = k == "SetKs"
        elif k == "Reconfigure":
            cur = dict(e["to"])
        elif k == "Parse" and last is not None:
            cur = dict(last, appLen=(last["appLen"] + 3) // 4 * 4)
    return cur


def key_of(trace, matched, meta):
    """Observations of the parser keep the keys of the single-image lane (the same defects are the same findings);
    everything about the exports of a history is keyed C01/<composition>/History/<event>/after=<actions so far>/<features of the settings then>."""
    import c01

    at = min(matched, len(trace["ev"]) - 1)
    ev = trace["ev"][at]
    cur = settings_at(trace, at, trace["x"])
    if ev["ev"].startswith("Parse") and ev["ev"] != "Parse":
        return c01.key_of(trace, matched, dict(meta, x=cur))
    shape = ">".join(e["ev"] for e in trace["ev"][:at + 1] if e["ev"] in HIST_EVENTS)
    detail = ""
    if ev["ev"] == "Fresh":
        if not ev["ok"]:
            detail = f":exc={ev['exc']}@{ev.get('stage', '')}"
        elif ev["diffs"]:
            d0 = ev["diffs"][0][0]
            detail = f":diff@hdr+{d0 & ~3:#x}" if d0 < 0x40 else ":diff@body"
    return f"C01/{meta['c']}/History/{ev['ev']}{detail}/after={shape}/origin={meta['lane']}-{meta['route']},{c01.features(cur, meta.get('twin', 'self'))}"


# ------------------------------------------------------------------ planning
def parse_gen(prints):
    """Output of MbiHist -> ({composition: menu}, [history])."""
    menus, hists = {}, []
    for p in prints:
        if "menu" in p:
            menus[p["c"]] = p["menu"]
        elif "h" in p:
            hists.append(p)
    return menus, hists


def select_quick(hists, r, extra):
    """Deterministic part, per composition: for EVERY action name the history  Export, <that action>  (+ closing Export) on a built object
    (from the start that offers it; where both do, they alternate with the seed), and the same on a parsed object for every third name
    (rotating with the seed), and one object exported twice without a change; plus a seeded sample of the other histories (two changes in a
    row, a change before the first export ...)."""
    by = {}
    for h in hists:
        by.setdefault(h["c"], []).append(h)
    out = []
    for cid, lst in sorted(by.items()):   # TLC prints in the order its workers finish: everything is put in a fixed order first
        lst.sort(key=lambda h: (h["lane"], h["s"], h["h"]))
        primed = {"new": {}, "parsed": {}}
        rest = []
        for h in lst:
            if len(h["h"]) == 2 and h["h"][0] == "Export" and h["h"][1] != "Export":
                primed[h["lane"]].setdefault(h["h"][1], []).append(h)
            else:
                rest.append(h)
        again = [h for h in rest if h["h"] == ["Export"] and h["lane"] == "new"]   # the same object exported twice, nothing changed in between
        if again:
            out.append(again[seed() % len(again)])
            rest = [h for h in rest if h is not out[-1]]
        for i, (name, cands) in enumerate(sorted(primed["new"].items())):
            pick = cands[(i + seed()) % len(cands)]
            out.append(pick)
            rest += [h for h in cands if h is not pick]
        for i, (name, cands) in enumerate(sorted(primed["parsed"].items())):
            if (i + seed()) % 3 == 0:
                out.append(cands[(i // 3 + seed()) % len(cands)])
            else:
                rest += cands
        r.shuffle(rest)
        out += rest[:extra]
    return out


def plan(hists, menus, comps, allmem, tier, twin_of, sub_labels):
    """Attach a member (rotating with the seed over those that can run the history) and a route to every selected history."""
    by_id = {c["id"]: c for c in comps}
    turn, jobs, skipped = {}, [], {}
    twins = {}

    def twin(m):
        k = (m["family"], m["revision"], m["cls"])
        if k not in twins:
            twins[k] = twin_of(m, allmem)
        return twins[k]

    for n, h in enumerate(hists):
        comp = by_id[h["c"]]
        menu = menus[h["c"]]
        custom, parse = needs(h, menu)
        mem = [m for m in comp["members"] if (not custom or B.mtz_len(m) > 0)]
        if parse:
            mem = [m for m in mem if twin(m) == "self"]
        if not mem:
            key = h["c"] + (" [custom TrustZone]" if custom else "") + (" [parse]" if parse else "")
            skipped[key] = skipped.get(key, 0) + 1
            continue
        k = turn.get(h["c"], 0)
        turn[h["c"]] = k + 1
        member = dict(mem[(k + seed()) % len(mem)])
        member["sub_labels"] = sub_labels(member)
        member["twin"] = twin(member)
        jobs.append({"c": h["c"], "s": h["s"], "lane": h["lane"], "h": h["h"], "menu": menu, "member": member, "hid": n,
                     "route": ("cfg", "ctor")[(k + seed()) % 2], "full": tier == "thorough"})
    return jobs, skipped
