"""C15 - debug authentication: credentials and responses are bound and verifiable.

R-spec (spec/C15): DatTerms.tla (symbolic messages + the device's acceptance automaton CheckDcSignature, CheckRotHash,
CheckDcBinding, CheckResponseSignature), Dat.tla (two-party protocol with a Dolev-Yao intruder), DatLayout.tla (byte layouts per
protocol version / credential class, anchored on golden artefacts).
 MC  : DatMC  - Accept(session) => the response was built for (challenge(session), dc, uuid); UUID binding only for ECC
 GEN : DatGen - TLC enumerates the credential cases (incl. which key of the case has a coordinate with a leading zero byte), the
       histories of the honest host (answers re-using configuration / credential / response objects) and every delivery attempt of
       the intruder world, checks the lemmas
 exec: SPSDK (the host) builds credentials / responses for every DAT family of the database; the device twin (c15_dev.py,
       independent parser + `cryptography` verify primitives) walks the real bytes along the automaton and logs one event
       per step; every enumerated substitution is spliced on the real bytes and decided by the twin
 TV  : DatTrace - TLC recomputes every offset / length / coverage / verdict and rejects a trace that is not a behaviour of the R-spec
 lane "slots": the RoT key set is a LIST of slots - for every partition of the 1..4 slots into groups holding the same key (DatLayout.Patterns,
       enumerated by DatGen) x the way a repeated slot names its key (the same path again / another file with the same key) x each used index,
       on every credential class: the credential must carry one table entry per SLOT (DatTerms.RotHashTerm), name the configured slot, and its
       RoT hash must be the hashlib reference over the per-slot fixed-width key material = what the image tools compute for the same list
 announcements (DatTerms "what a challenge ANNOUNCES", enumerated by DatGen): the device's challenge carries its own protocol version, UUID and
       RoT hash field; every announced version x announcing device x content of the RoT hash field x entry point of the host is crossed with the
       credential cases.  The host is the flow of `nxpdebugmbox dat auth` (parse, validate_against_dc, build); what it refuses builds nothing;
       an answer it builds (EdgeLock-enclave classes tolerate every version mismatch) must be the answer of the CREDENTIAL's protocol - length of
       its layout, credential, beacon, and the verdicts of the acceptance automaton from every device for every challenge
 lane "cred" (c15_cred.py, DatCredGen): histories of ONE credential object - sign, export, set a signed field, sign again, export again,
       parse - on every credential class; every exported credential must verify under the RoT key over exactly the bytes in front of the
       signature and carry / parse back to the CURRENT field values (object model in DatTerms, decided step by step in DatTrace)
"""
import json
import os
import struct

import c15_cred as C
import c15_dev as D
from lib import tlc
from lib.common import ROOT, Machinery, import_spsdk, rng, say, scratch
from lib.par import pmap
from lib.verdict import Verdict

PROP = "C15"
KDIR = os.path.join(ROOT, "keys", "c15")
ADIR = os.path.join(ROOT, "anchors", "C15")
KEYSET = {(1, 0): "rsa2048", (1, 1): "rsa4096", (2, 0): "ecc256", (2, 1): "ecc384", (2, 2): "ecc521"}
SPEC_ENV = {}


def kp(name, ks, ext):
    return os.path.join(KDIR, f"{name}_{ks}.{ext}")


def limbs(v):
    return [v & 0xFFFF, (v >> 16) & 0xFFFF]


# value classes of a 32-bit credential word at and above every narrower width boundary (8 / 16 / 31 bits): a reader or writer that keeps
# fewer bits than the format's 4-byte field is the identity below its boundary and not above it.  The classes that lie above 16 bits come first.
WIDTH_CLASSES = ("w17", "top", "hi", "ones", "w16max", "w9", "w8max", "lo")


def width_value(r, k):
    """The k-th width class of a 32-bit field (k counts the scenarios of one credential class, so every class meets every width class)."""
    c = WIDTH_CLASSES[k % len(WIDTH_CLASSES)]
    x = r.getrandbits(32)
    return {"w17": 0x10000, "top": 0x80000000 | (x >> 1), "hi": (x | 0x10000) & 0xFFFF0000 | (x & 0xFFFF) or 0x10001, "ones": 0xFFFFFFFF,
            "w16max": 0xFFFF, "w9": 0x100, "w8max": 0xFF, "lo": x & 0xFFFF}[c]


def exc_name(e):
    m = type(e).__module__
    return f"{m}.{type(e).__name__}" if m not in ("builtins",) else type(e).__name__


def is_spsdk_error(e):
    from spsdk.exceptions import SPSDKError

    return isinstance(e, SPSDKError)


# ------------------------------------------------------------------ the DAT families of the database
def dat_families():
    """All (family, revision) pairs with the DAT feature and what the R-spec needs to know about them."""
    from spsdk.utils.database import DatabaseManager, get_db, get_families

    res = []
    for fam in sorted(get_families(DatabaseManager.DAT)):
        latest = get_db(fam).name
        for rev in get_db(fam).device.revisions.revision_names():
            db = get_db(fam, rev)
            try:
                rot_type = db.get_str("cert_block", "rot_type")
            except Exception:  # noqa: BLE001 - family without a certificate block feature
                rot_type = "none"
            ele = db.get_bool("dat", "based_on_ele", False)
            cnt = db.get_int("dat", "ele_cnt_version", 1) if ele else 0
            sha256 = db.get_bool("dat", "dat_is_using_sha256_always", False)
            swapped = db.get_bool("dat", "dac_version_is_swapped", False)
            fclass = ("ele%d" % cnt) if ele else {"cert_block_1": "cb1", "cert_block_21": "cb21"}.get(rot_type, "norot") + ("-sha256" if sha256 else "")
            res.append({"family": fam, "revision": rev, "latest": rev == latest, "socc": db.get_int("dat", "socc"), "ele": ele, "cnt": cnt,
                        "sha256": sha256, "rot_type": rot_type, "fclass": fclass, "swapped": swapped})
    # a family whose revisions use different enclave container generations: the generic parser resolves the SoC class to the LATEST revision
    for f in res:
        gens = {g["cnt"] for g in res if g["family"] == f["family"]}
        if f["ele"] and len(gens) > 1 and not f["latest"]:
            f["fclass"] += "-oldrev"
    return res


def tools_apply(fam, cls, ver):
    """Is the image side's RoT hash defined for this family and key type (the C03 value the credential must agree with)?"""
    if cls == "ele2":
        return fam["rot_type"] == "srk_table_ahab_v2"
    if cls == "ele1":
        return fam["rot_type"] == "srk_table_ahab"
    if ver[0] == 1:
        return fam["rot_type"] == "cert_block_1"
    return fam["rot_type"] == "cert_block_21" and tuple(ver) in ((2, 0), (2, 1))


# ------------------------------------------------------------------ driving SPSDK (the host)
class Host:
    """Everything SPSDK does in a scenario. Raises whatever SPSDK raises."""

    def __init__(self, sc):
        self.sc = sc
        self.fam = sc["fam"]
        self.ver = tuple(sc["case"]["ver"])
        self.ks = KEYSET[self.ver]

    def dc_config(self, cred):
        """cred: {'uuid': bytes, 'socu', 'vu', 'beacon', 'rot': [key names], 'used': i, 'dck': key name}"""
        cfg = {
            "uuid": cred["uuid"].hex(),
            "cc_socu": cred["socu"], "cc_vu": hex(cred["vu"]), "cc_beacon": cred["beacon"],
            "rot_meta": list(cred.get("paths") or [kp(k, self.ks, "pub") for k in cred["rot"]]),
            "rot_id": cred["used"],
            "rotk": kp(cred["rot"][cred["used"]], self.ks, "pem"),
            "dck": kp(cred["dck"], self.ks, "pub"),
        }
        if self.sc["via"] == "yaml-socc":
            cfg["socc"] = hex(self.fam["socc"])
        else:
            cfg["family"] = self.fam["family"]
            cfg["revision"] = self.fam["revision"] if self.sc["via"] == "yaml-revision" else ("latest" if self.fam["latest"] else self.fam["revision"])
        return cfg

    def create_dc(self, cred):
        from spsdk.dat.debug_credential import DebugCredentialCertificate, ProtocolVersion

        version = ProtocolVersion(f"{self.ver[0]}.{self.ver[1]}") if self.sc["explicit_version"] else None
        dc = DebugCredentialCertificate.create_from_yaml_config(config=self.dc_config(cred), version=version)
        dc.sign()
        return dc, dc.export()

    def parse_dc(self, data):
        from spsdk.dat.debug_credential import DebugCredentialCertificate

        return DebugCredentialCertificate.parse(data)

    def parse_dac(self, data):
        from spsdk.dat.dac_packet import DebugAuthenticationChallenge

        return DebugAuthenticationChallenge.parse(data)

    def resp_cfg(self, dc_bytes, beacon, dck_name):
        """A NEW configuration dictionary of `nxpdebugmbox dat auth` for this credential (the credential goes through a file)."""
        path = os.path.join(scratch(), f"c15-{os.getpid()}-{self.sc['id']}.dc")
        with open(path, "wb") as f:
            f.write(dc_bytes)
        cfg = {"family": self.fam["family"], "revision": self.fam["revision"], "certificate": path, "beacon": beacon}
        if self.sc["case"]["cls"] == "ele2":  # the response is a signed message: SRK table + debug key as the signing key of the container
            cfg.update({"srk_set": "oem", "used_srk_id": self.sc["case"]["used"], "srk_revoke_mask": 0,
                        "srk_table": {"flag_ca": False, "srk_array": slot_paths(self.sc)},
                        "signing_key": kp(dck_name, self.ks, "pem"), "output": os.path.join(scratch(), f"c15-{os.getpid()}-{self.sc['id']}.dar")})
        else:
            cfg["dck_private_key"] = kp(dck_name, self.ks, "pem")
        return cfg

    def respond(self, dc_obj, dc_bytes, dac, beacon, dck_name, how):
        from spsdk.dat.dar_packet import DebugAuthenticateResponse

        if how == "config":
            dar = DebugAuthenticateResponse.load_from_config(self.resp_cfg(dc_bytes, beacon, dck_name), dac)
        else:
            dar = DebugAuthenticateResponse.create(family=self.fam["family"], version=None, dc=dc_obj, auth_beacon=beacon, dac=dac, dck=kp(dck_name, self.ks, "pem"))
        self.dar_obj = dar
        return dar.export()

    def answer(self, via, dc_obj, dc_bytes, dac, beacon, dck_name):
        """The response to a challenge through one of the two entry points (nothing is kept on the host)."""
        from spsdk.dat.dar_packet import DebugAuthenticateResponse

        if via == "config":     # `nxpdebugmbox dat auth`: a new configuration, the credential read from its file
            return DebugAuthenticateResponse.load_from_config(self.resp_cfg(dc_bytes, beacon, dck_name), dac).export()
        return DebugAuthenticateResponse.create(family=self.fam["family"], version=None, dc=dc_obj, auth_beacon=beacon, dac=dac,
                                                dck=kp(dck_name, self.ks, "pem")).export()

    def hist_begin(self):
        self.h_cfg, self.h_dar = None, None

    def hist_step(self, mode, dc_obj, dc_bytes, dac, beacon, dck_name):
        """One answer of a history (DatTerms.Modes): what the host re-uses from its earlier answers is the whole point."""
        from spsdk.dat.dar_packet import DebugAuthenticateResponse

        if mode == "again":      # the response object of the previous step, exported once more
            if self.h_dar is None:
                raise LookupError("the previous step built no response object")
            return self.h_dar.export()
        self.h_dar = None
        if mode == "obj":        # the credential object the host holds already, handed to the response constructor again
            self.h_dar = DebugAuthenticateResponse.create(family=self.fam["family"], version=None, dc=dc_obj, auth_beacon=beacon, dac=dac,
                                                          dck=kp(dck_name, self.ks, "pem"))
        else:
            if mode == "fresh" or self.h_cfg is None:
                self.h_cfg = self.resp_cfg(dc_bytes, beacon, dck_name)
            self.h_cfg["beacon"] = beacon   # "cfg": the SAME dictionary object as before, only the caller's own beacon entry is set
            self.h_dar = DebugAuthenticateResponse.load_from_config(self.h_cfg, dac)
        return self.h_dar.export()

    def make_dac(self, data, hl):
        """Challenge object through the public constructor (used only after DebugAuthenticationChallenge.parse was rejected)."""
        from spsdk.dat.dac_packet import DebugAuthenticationChallenge
        from spsdk.dat.debug_credential import ProtocolVersion

        rev, = struct.unpack_from("<L", data, 24)
        pinned, default, vu = struct.unpack_from("<3L", data, 28 + hl)
        return DebugAuthenticationChallenge(version=ProtocolVersion(f"{self.ver[0]}.{self.ver[1]}"), socc=self.fam["socc"], uuid=data[8:24], rotid_rkh_revocation=rev,
                                            rotid_rkth_hash=data[28:28 + hl], cc_soc_pinned=pinned, cc_soc_default=default, cc_vu=vu, challenge=data[40 + hl:72 + hl])

    def tools_hash(self, paths):
        """The RoT hash calculator of the family over the same list of key files (one per slot)."""
        from spsdk.utils.crypto.rot import Rot

        return Rot(self.fam["family"], self.fam["revision"], list(paths)).calculate_hash()

    def tools2_hash(self, paths, used):
        """Second image-tool path: the certificate block v2.1 (MBI / SB3.1 / `nxpimage cert-block`) built over the same key files
        (a path named in several slots gives the SAME key object in those slots, another file with the same key a new object)."""
        from spsdk.crypto.utils import extract_public_key
        from spsdk.utils.crypto.cert_blocks import CertBlockV21

        objs = {}
        for p_ in paths:
            if p_ not in objs:
                objs[p_] = extract_public_key(p_)
        cb = CertBlockV21(root_certs=[objs[p_] for p_ in paths], ca_flag=True, used_root_cert=used)
        cb.calculate()
        return cb.rkth


class RefHost:
    """A host made of the device twin's own tools instead of SPSDK - used for the canary: its trace must be accepted whatever the
    tree under test does (and it shows on every run that harness, twin and R-spec agree with each other)."""

    class _V:
        def __init__(self, ver):
            self.major, self.minor = ver

    class _Flags:
        def __init__(self, n, used):
            self.cnt_root_cert, self.used_root_cert = n, used

    class _Meta:
        pass

    class DC:
        def __init__(self, version, socc, uuid, rot_meta, dck_pub, cc_socu, cc_vu, cc_beacon, rot_pub, signature_provider=None, signature=None):
            self.version, self.socc, self.uuid, self.rot_meta, self.dck_pub = version, socc, uuid, rot_meta, dck_pub
            self.cc_socu, self.cc_vu, self.cc_beacon, self.rot_pub, self.signature_provider = cc_socu, cc_vu, cc_beacon, rot_pub, signature_provider
            self.data = None

        def sign(self):
            m = self.rot_meta
            self.data = D.forge_dc(m.ele, [self.version.major, self.version.minor], self.socc, self.uuid, self.cc_socu, self.cc_vu, self.cc_beacon, m.pubs, m.used,
                                   self.dck_pub, self.signature_provider)

        def export(self):
            return self.data

        def calculate_hash(self):
            return hashlib_ref([self.version.major, self.version.minor], self.rot_meta.pubs, self.rot_meta.ele)

        def __eq__(self, o):
            return (self.socc, self.uuid, self.cc_socu, self.cc_vu, self.cc_beacon) == (o.socc, o.uuid, o.cc_socu, o.cc_vu, o.cc_beacon)

    class DAC:
        def __init__(self, ver, uuid, challenge):
            self.version, self.uuid, self.challenge = RefHost._V(ver), uuid, challenge

        def validate_against_dc(self, family, dc):
            return None

    class DAR:
        def __init__(self, family, debug_credential, auth_beacon, dac, sign_provider, revision="latest"):
            self.dc, self.beacon, self.dac, self.sign_provider = debug_credential, auth_beacon, dac, sign_provider

        def export(self):
            priv, binds, scheme = self.sign_provider
            return D.forge_dar(self.dc.export(), self.beacon, self.dac.uuid, self.dac.challenge, binds, priv, scheme)

    def __init__(self, sc):
        self.sc, self.fam, self.ver = sc, sc["fam"], tuple(sc["case"]["ver"])
        self.ks = KEYSET[self.ver]
        self.ele = sc["case"]["cls"] == "ele1"

    def create_dc(self, cred):
        meta = RefHost._Meta()
        paths, used = list(cred.get("paths") or [kp(k, self.ks, "pub") for k in cred["rot"]]), cred["used"]
        if self.sc.get("refhost") == "read-once":   # the defect class of the slots lane: every key FILE is read once, the table is built over what was read
            uniq = [p_ for i, p_ in enumerate(paths) if p_ not in paths[:i]]
            paths, used = uniq, uniq.index(paths[used])
        meta.pubs, meta.used, meta.ele = [D.load_pub(p_) for p_ in paths], used, self.ele
        if not (self.ver[0] == 1 and not self.ele):
            meta.flags = RefHost._Flags(len(meta.pubs), used)
        else:
            meta.rot_items = meta.pubs
        dc = RefHost.DC(RefHost._V(self.ver), self.fam["socc"], cred["uuid"], meta, D.load_pub(kp(cred["dck"], self.ks, "pub")), cred["socu"], cred["vu"], cred["beacon"],
                        meta.pubs[used], D.load_priv(kp(cred["rot"][cred["used"]], self.ks, "pem")))
        dc.sign()
        self.made = dc
        return dc, dc.export()

    def parse_dc(self, data):
        return self.made

    def parse_dac(self, data):
        hl = len(data) - 72
        announced = struct.unpack_from("<2H", data)
        return RefHost.DAC(announced[::-1] if self.fam["swapped"] else announced, data[8:24], data[40 + hl:72 + hl])

    def binds(self, dac):
        """Does the response embed and sign the UUID?  The reference host follows its CREDENTIAL; the variant "follow-dac" is the defect class
        of the announcement dimension: the form of the response is taken from the version the challenge announces."""
        return (dac.version.major if self.sc.get("refhost") == "follow-dac" else self.ver[0]) == 2

    def respond(self, dc_obj, dc_bytes, dac, beacon, dck_name, how):
        pub = D.load_pub(kp(dck_name, self.ks, "pub"))
        self.dar_obj = RefHost.DAR(self.fam["family"], dc_obj, beacon, dac, (D.load_priv(kp(dck_name, self.ks, "pem")), self.binds(dac), D.scheme_for(pub, self.ele)))
        return self.dar_obj.export()

    def answer(self, via, dc_obj, dc_bytes, dac, beacon, dck_name):
        pub = D.load_pub(kp(dck_name, self.ks, "pub"))
        return RefHost.DAR(self.fam["family"], dc_obj, beacon, dac, (D.load_priv(kp(dck_name, self.ks, "pem")), self.binds(dac), D.scheme_for(pub, self.ele))).export()

    def tools_hash(self, paths):
        return hashlib_ref(list(self.ver), [D.load_pub(p_) for p_ in paths], self.ele)

    def tools2_hash(self, paths, used):
        return self.tools_hash(paths)

    def hist_begin(self):
        self.h_dar = None

    def hist_step(self, mode, dc_obj, dc_bytes, dac, beacon, dck_name):
        if mode != "again":
            pub = D.load_pub(kp(dck_name, self.ks, "pub"))
            self.h_dar = RefHost.DAR(self.fam["family"], dc_obj, beacon, dac, (D.load_priv(kp(dck_name, self.ks, "pem")), self.binds(dac), D.scheme_for(pub, self.ele)))
        return self.h_dar.export()


def key_names(sc):
    """Key files of a scenario: RoT keys srk0.. and the debug key dck of the key set, with the key the case names (lz: the used RoT key,
    another RoT key, the debug key) replaced by the key of the pool whose X / Y coordinate starts with a zero byte."""
    case = sc["case"]
    rot, dck = [f"srk{k}" for k in pattern(case)], "dck"    # slot i holds key number pat[i] of the pool
    lz = case.get("lz", "none")
    if lz == "used":
        rot[case["used"]] = "lz" + case["coord"]
    elif lz == "dck":
        dck = "lz" + case["coord"]
    elif lz == "other":
        rot[rng(PROP, "lzpos", sc["id"]).choice([i for i in range(case["nkeys"]) if i != case["used"]])] = "lz" + case["coord"]
    return rot, dck


def pattern(case):
    """Which slots of the RoT key list hold the same key (DatLayout.Patterns): slot i holds key number pat[i]; default: all different."""
    return list(case.get("pat") or range(case["nkeys"]))


def slot_copy(name, ks, slot):
    """Another FILE (another path) with the key `name`: a copy of its public-key file, made for slot `slot`."""
    d = os.path.join(scratch(), "c15-slots")
    path = os.path.join(d, f"{name}_{ks}.slot{slot}.pub")
    if not os.path.exists(path):
        os.makedirs(d, exist_ok=True)
        tmp = f"{path}.{os.getpid()}.tmp"
        with open(kp(name, ks, "pub"), "rb") as src, open(tmp, "wb") as dst:
            dst.write(src.read())
        os.replace(tmp, path)
    return path


def slot_paths(sc):
    """The key file every slot of the RoT key list names.  A slot that repeats the key of an earlier slot names it the way the case says
    (DatLayout.Givens): 'path' - the very same path again, 'copy' - another file holding the same key."""
    case = sc["case"]
    ks = KEYSET[tuple(case["ver"])]
    given = case.get("given", "-")
    out, seen = [], set()
    for j, k in enumerate(key_names(sc)[0]):
        out.append(slot_copy(k, ks, j) if (k in seen and given == "copy") else kp(k, ks, "pub"))
        seen.add(k)
    return out


def key_print(pub):
    """Fingerprint of a public key (for equality patterns only)."""
    import hashlib

    return hashlib.sha256(pub.kind.encode() + pub.blob()).hexdigest()[:16]


def shape(pub):
    """Which coordinates of an ECC public key start with a zero byte: '-', 'x', 'y', 'xy' (RSA: '-')."""
    if pub.kind != "ecc":
        return "-"
    top = 8 * (pub.size - 1)
    return (("x" if pub.a >> top == 0 else "") + ("y" if pub.b >> top == 0 else "")) or "-"


def case_event(sc, ks):
    case = sc["case"]
    rot, dck = key_names(sc)
    paths = slot_paths(sc)
    pubs = [D.load_pub(p_) for p_ in paths]
    return {"e": "Case", "lane": sc.get("lane", "main"), "cls": case["cls"], "ver": list(case["ver"]), "nkeys": case["nkeys"], "used": case["used"], "wild": case["wild"], "sha256": sc["fam"]["sha256"],
            "lz": case.get("lz", "none"), "coord": case.get("coord", "-"), "pat": pattern(case), "given": case.get("given", "-"),
            "slots": {"keys": [key_print(p_) for p_ in pubs], "paths": [os.path.relpath(p_, ROOT) if p_.startswith(ROOT + os.sep) else p_ for p_ in paths]},
            "shapes": {"rot": [shape(p_) for p_ in pubs], "dck": shape(D.load_pub(kp(dck, ks, "pub")))}, "skip": []}


def beacon_name(value, beacons):
    return next((k for k in sorted(beacons) if beacons[k] == value), "other")


def spsdk_fields(dc):
    """Field values of an SPSDK credential object, in the shape the spec compares."""
    out = {"ver": [dc.version.major, dc.version.minor], "socc": limbs(dc.socc), "uuid": list(dc.uuid), "socu": limbs(dc.cc_socu), "vu": limbs(dc.cc_vu),
           "beacon": limbs(dc.cc_beacon)}
    rm = dc.rot_meta
    if hasattr(rm, "flags"):
        out["nkeys"], out["used"] = rm.flags.cnt_root_cert, rm.flags.used_root_cert
    else:
        out["nkeys"], out["used"] = len(rm.rot_items), -1
    return out


def twin_fields(dc):
    return {"ver": dc["ver"], "socc": limbs(dc["socc"]), "uuid": list(dc["uuid"]), "socu": limbs(dc["cc_socu"]), "vu": limbs(dc["cc_vu"]),
            "beacon": limbs(dc["cc_beacon"]), "nkeys": dc["nkeys"], "used": -1 if dc["used"] is None else dc["used"]}


def table(fields):
    return [{"n": strip_idx(n), "o": o, "l": l} for n, o, l in fields]


def strip_idx(n):
    for p in ("srk_record", "srk_param1_", "srk_param2_"):
        if n.startswith(p):
            return p.rstrip("_")
    return n


# ------------------------------------------------------------------ one scenario = one trace
def run_scenario(sc):
    """Execute one credential case on the real code; returns the trace (events) and a small witness."""
    try:
        return C.run_cred_scenario(sc) if sc.get("lane") == "cred" else _run_scenario(sc)
    except Machinery:
        raise
    except Exception as e:  # noqa: BLE001 - a bug of the harness must not look like a verdict
        import traceback

        return {"id": sc["id"], "ev": [], "harness_error": f"{exc_name(e)}: {e}\n{traceback.format_exc()[-1500:]}", "sc": sc}


def _run_scenario_ele2(sc):
    """EdgeLock enclave with container version 2: the credential is an AHAB certificate, the response a signed message."""
    import hashlib

    from spsdk.dat.dar_packet import DebugAuthenticateResponse
    from spsdk.dat.debug_credential import DebugCredentialCertificate, DebugCredentialEdgeLockEnclaveV2

    r = rng(PROP, "scenario", sc["id"])
    case, fam = sc["case"], sc["fam"]
    ver, used = list(case["ver"]), case["used"]
    ks = KEYSET[tuple(ver)]
    host = Host(sc)
    ev = [case_event(sc, ks)]
    wit = {"blobs": {}}
    trace = {"id": sc["id"], "ev": ev, "sc": sc, "wit": wit}
    rot, dck = key_names(sc)

    def done():
        ev.append({"e": "Done"})
        return trace

    u1 = bytes(r.randrange(1, 256) for _ in range(16))
    ch1 = bytes(r.randrange(256) for _ in range(32))
    beacon = r.randrange(1, 1 << 16)
    chs = {"ch1": ch1, "ch2": bytes(r.randrange(256) for _ in range(32))}
    beacons = {"b1": beacon, "b2": (beacon ^ (1 << r.randrange(16))) or 1}
    if not case["wild"] and sc["id"] % 7 == 3:  # a device whose UUID is a small number (eight leading zero bytes)
        u1 = bytes(8) + u1[8:]
    uuid = bytes(16) if case["wild"] else u1
    socu = r.getrandbits(32)
    paths = slot_paths(sc)
    pubs = [D.load_pub(p_) for p_ in paths]
    dck_ref = D.load_pub(kp(dck, ks, "pub"))
    cfg = {"family": fam["family"], "revision": fam["revision"], "cc_socu": hex(socu), "uuid": "0x" + uuid.hex(), "fuse_version": 0,
           "public_key_0": kp(dck, ks, "pub"), "signing_key_0": kp(rot[used], ks, "pem")}
    try:
        dc_obj = DebugCredentialEdgeLockEnclaveV2.create_from_yaml_config(config=dict(cfg))
        dc_obj.sign()
        dcb = dc_obj.export()
    except Exception as e:  # noqa: BLE001 - nothing was created
        ev.append({"e": "Create", "ok": False, "exc": exc_name(e), "msg": str(e)[:200], "spsdk": is_spsdk_error(e)})
        return done()
    wit["blobs"]["dc"] = dcb.hex()
    ev.append({"e": "Create", "ok": True, "len": len(dcb), "via": "ele2-class",
               "in": {"socc": limbs(fam["socc"]), "uuid": list(uuid), "socu": limbs(socu), "vu": [0, 0], "beacon": [0, 0]}})
    c = D.walk_cert2(dcb)
    if c.get("err"):
        ev.append({"e": "DcLayout", "fields": table(c.get("fields", [])), "end": -1, "len": len(dcb), "err": c["err"]})
        return done()
    ev.append({"e": "DcLayout", "fields": table(c["fields"]), "end": c["end"], "len": len(dcb)})
    ev.append({"e": "DcFields", "out": {"socc": limbs(c["socc"]), "uuid": list(c["uuid"]), "socu": limbs(c["cc_socu"]), "beacon": limbs(c["cc_beacon"])},
               "flagsOk": c["perm_ok"] and c["reserved_ok"] and c["size"] == D.ver_size(ver) and c["rec_flags"] == 0 and c["srk_id"] == 0 and c["fuse_version"] == 0})
    scheme = "ecdsa-" + D.ECC_HASH[c["size"]]
    signer = next((i for i, p_ in enumerate(pubs) if D.verify(p_, c["sig"], c["signed"], scheme)), -1)
    ev.append({"e": "DcKeys", "rotIdx": signer, "dckOk": c["dck_pub"] == dck_ref, "tableOk": c["srk_hash_ok"]})
    p = None
    try:
        p = DebugCredentialCertificate.parse(dcb)
        out = {"socc": limbs(p.socc), "uuid": list(p.uuid), "socu": limbs(p.socu), "beacon": limbs(p.beacon)}
        try:
            reexport = p.export() == dcb
        except Exception:  # noqa: BLE001
            reexport = False
        ev.append({"e": "SpsdkParse", "ok": True, "out": out, "eq": bool(p == dc_obj), "reexport": reexport, "cls": type(p).__name__})
    except Exception as e:  # noqa: BLE001
        ev.append({"e": "SpsdkParse", "ok": False, "exc": exc_name(e), "msg": str(e)[:200]})
    ev.append({"e": "CheckDcSignature", "from": 0, "to": len(c["signed"]), "sigAt": c["sig_at"], "sigLen": len(c["sig"]), "key": f"srk[{used}]", "scheme": scheme,
               "ok": D.verify(pubs[used], c["sig"], c["signed"], scheme)})

    # ---- challenge (the enclave families send the version minor first), response
    ref_table = D.ref_srk_table2(pubs)
    fuses = hashlib.sha512(ref_table).digest()

    def dac_bytes(ch):
        return D.build_dac([0, 2] if fam["swapped"] else [2, 0], fam["socc"], u1, fuses[:32], chs[ch], revocation=r.getrandbits(4), pinned=r.getrandbits(32),
                           default=r.getrandbits(32), vu=r.getrandbits(32))

    raw = dac_bytes("ch1")
    can_announce = True
    try:
        dac = host.parse_dac(raw)
        try:
            dac.validate_against_dc(fam["family"], dc_obj)
            val = "ok"
        except Exception as e:  # noqa: BLE001
            val = "raise:" + exc_name(e)
        ev.append({"e": "Dac", "ok": True, "len": len(raw), "hl": 32, "chalOk": dac.challenge == ch1, "uuidOk": dac.uuid == u1,
                   "verOk": [dac.version.major, dac.version.minor] == [2, 0], "validate": val})
    except Exception as e:  # noqa: BLE001
        ev.append({"e": "Dac", "ok": False, "len": len(raw), "hl": 32, "exc": exc_name(e), "msg": str(e)[:200]})
        host.ver = (2, 0)
        dac = host.make_dac(raw, 32)
        host.parse_dac = lambda data: host.make_dac(data, 32)
        can_announce = False
    dacs = {"ch1": dac}
    try:
        dar = DebugAuthenticateResponse.load_from_config(host.resp_cfg(dcb, beacon, dck), dac).export()
    except Exception as e:  # noqa: BLE001 - nothing was built
        ev.append({"e": "Respond", "ok": False, "exc": exc_name(e), "msg": str(e)[:200], "spsdk": is_spsdk_error(e)})
        return done()
    wit["blobs"].update(dar=dar.hex(), chal=ch1.hex(), uuid=u1.hex())
    ev.append({"e": "Respond", "ok": True, "len": len(dar), "via": "config"})
    m = D.walk_msg2(dar)
    if m.get("err"):
        ev.append({"e": "DarLayout", "fields": table(m.get("fields", [])), "end": -1, "len": len(dar), "err": m["err"]})
        return done()
    ev.append({"e": "DarLayout", "fields": table(m["fields"]), "end": m["end"], "len": len(dar)})
    ev.append({"e": "DarFields", "dcEq": m["cert"] == dcb, "beacon": limbs(m["beacon"]), "beaconIn": limbs(beacon), "chalOk": m["challenge"] == ch1,
               "msgUuid": m["msg_uuid"].hex(), "usedOk": m["used"] == used})
    try:
        tools = host.tools_hash(paths).hex() if sc["tools"] else "n/a"
    except Exception as e:  # noqa: BLE001
        tools = "raise:" + exc_name(e)
    ev.append({"e": "CheckRotHash", "fromBytes": hashlib.sha512(m["table_raw"]).hexdigest() if m["srk_data_ok"] and m["rot_pub"] == pubs[used] else "srk-data-mismatch",
               "ref": fuses.hex(), "dc": "n/a", "dc2": "n/a", "tools": tools, "tools2": "n/a", "entries": [rc["digest"].hex()[:16] for rc in m["recs"]]})
    ok = D.verify(dck_ref, m["sig"], m["signed"], scheme)
    ev.append({"e": "CheckResponseSignature", "from": 0, "to": len(m["signed"]), "sigAt": m["sig_at"] + 8, "sigLen": len(m["sig"]), "key": "dck", "scheme": scheme, "ok": ok})
    dev = D.Device2(u1, fam["socc"], fuses)
    verdict, detail = dev.verdict(dar, ch1)
    ev.append({"e": "Deliver", "verdict": verdict, "detail": detail[:100]})
    if not ok or sc.get("lane") == "slots":     # lane "slots": the fixed part only
        return done()

    # ---- histories of the honest host: every answer is bound to ITS challenge and beacon, whatever the host re-uses
    def observe(data):
        mm = D.walk_msg2(data)
        if mm.get("err"):
            return {"dcEq": False, "bIs": "malformed"}
        return {"dcEq": mm["cert"] == dcb, "bIs": beacon_name(mm["beacon"], beacons)}

    def dac_for(d, ch):
        if ch not in dacs:
            dacs[ch] = host.parse_dac(dac_bytes(ch))
        return dacs[ch]

    for h in sc.get("histories", []):
        ev.append(run_history(host, h, dc_obj if p is None else p, dcb, dck, dac_for, beacons, observe,
                              lambda data: [{"d": "d1", "ch": ch, "v": dev.verdict(data, chs[ch])[0]} for ch in sorted(chs)]))
    # ---- what the challenge announces: every version, a RoT hash field that does not hold the fused value (one device in this world)
    ra = rng(PROP, "announce", sc["id"])
    for a in sc.get("announces", []) if can_announce else []:
        rk = fuses[:32] if a["rkth"] == "fused" else bytes(b ^ 0xFF for b in fuses[:32])
        raw_a = D.build_dac(a["ver"][::-1] if fam["swapped"] else a["ver"], fam["socc"], u1, rk, ch1, revocation=ra.getrandbits(4), pinned=ra.getrandbits(32),
                            default=ra.getrandbits(32), vu=ra.getrandbits(32))
        ev.append(run_announce(host, sc, a, raw_a, 32, ch1, u1, dc_obj, lambda dac_: DebugAuthenticateResponse.load_from_config(host.resp_cfg(dcb, beacon, dck), dac_).export(),
                               observe, lambda data: [{"d": "d1", "ch": ch, "v": dev.verdict(data, chs[ch])[0]} for ch in sorted(chs)]))
    for part, tbl, base in (("dar", [f for f in m["fields"] if f[0] not in ("dc", "pad")], 0), ("dc", c["fields"], m["cert_at"])):
        for name, off, ln in tbl:
            for bit in tamper_bits(r, ln, sc.get("flips", 1)):
                t = bytearray(dar)
                t[base + off + bit // 8] ^= 1 << (bit % 8)
                ev.append({"e": "Tamper", "part": part, "field": name, "at": base + off + bit // 8, "bit": bit % 8, "verdict": dev.verdict(bytes(t), ch1)[0]})
    return done()


def _run_scenario(sc):
    if sc["case"]["cls"] == "ele2":
        return _run_scenario_ele2(sc)
    r = rng(PROP, "scenario", sc["id"])
    case, fam = sc["case"], sc["fam"]
    ver, n, used, ele = list(case["ver"]), case["nkeys"], case["used"], case["cls"] == "ele1"
    ks = KEYSET[tuple(ver)]
    host = RefHost(sc) if sc.get("refhost") else Host(sc)
    binds = ver[0] == 2
    ev = [case_event(sc, ks)]
    wit = {"blobs": {}}
    trace = {"id": sc["id"], "ev": ev, "sc": sc, "wit": wit}

    def done():
        ev.append({"e": "Done"})
        return trace

    # ---- the world: two devices, two challenges, two beacons, four credentials
    uu = {"d1": bytes(r.randrange(1, 256) for _ in range(16)), "d2": bytes(r.randrange(1, 256) for _ in range(16))}
    chs = {"ch1": bytes(r.randrange(256) for _ in range(32)), "ch2": bytes(r.randrange(256) for _ in range(32))}
    b1 = r.randrange(1, 1 << 16)
    beacons = {"b1": b1, "b2": (b1 ^ (1 << r.randrange(16))) or 1}
    rot, dck = key_names(sc)
    socu = r.getrandbits(32)
    paths = slot_paths(sc)
    credA = {"uuid": bytes(16) if case["wild"] else uu["d1"], "socu": socu, "vu": r.getrandbits(32), "beacon": r.randrange(1 << 16), "rot": rot, "used": used, "dck": dck,
             "paths": paths}
    creds = {
        "cA": credA,
        "cB": dict(credA, socu=(socu ^ (1 << r.randrange(32)))),                                  # same keys, other rights
        "cI": dict(credA, uuid=uu["d2"], dck="intr", vu=r.getrandbits(32)),                         # genuine, for the intruder's device, his key
        "cE": dict(credA, uuid=bytes(16), dck="intr", rot=(["evil"] + rot[1:]) if ele else ["evil"], used=0, paths=None),  # self-made
    }
    if sc.get("wk") is not None:   # the credential words at their width boundaries (beacon, vendor usage and SoC usage on different classes)
        rw = rng(PROP, "widths", sc["id"])
        credA.update(beacon=width_value(rw, sc["wk"]), vu=width_value(rw, sc["wk"] + 3), socu=width_value(rw, sc["wk"] + 5))
        socu = credA["socu"]
        creds = {"cA": credA, "cB": dict(credA, socu=(socu ^ (1 << rw.randrange(32)))), "cI": dict(creds["cI"], beacon=credA["beacon"], socu=socu),
                 "cE": dict(creds["cE"], beacon=credA["beacon"], vu=credA["vu"], socu=socu)}
    pubs = [D.load_pub(p_) for p_ in paths]         # the twin reads the key of every slot from the file that slot names

    # ---- Create (SPSDK): configuration -> object -> sign -> export
    try:
        dcA_obj, dcA = host.create_dc(credA)
    except Exception as e:  # noqa: BLE001 - nothing was created: outside the property (counted, not judged)
        ev.append({"e": "Create", "ok": False, "exc": exc_name(e), "msg": str(e)[:200], "spsdk": is_spsdk_error(e)})
        return done()
    wit["blobs"]["dc"] = dcA.hex()
    ev.append({"e": "Create", "ok": True, "len": len(dcA), "via": sc["via"],
               "in": {"socc": limbs(fam["socc"]), "uuid": list(credA["uuid"]), "socu": limbs(credA["socu"]), "vu": limbs(credA["vu"]), "beacon": limbs(credA["beacon"])}})

    # ---- independent walk
    dc = D.walk_dc(dcA, ele)
    if dc.get("err"):
        ev.append({"e": "DcLayout", "fields": table(dc.get("fields", [])), "end": -1, "len": len(dcA), "err": dc["err"]})
        return done()
    ev.append({"e": "DcLayout", "fields": table(dc["fields"]), "end": dc["end"], "len": len(dcA)})
    ev.append({"e": "DcFields", "out": twin_fields(dc), "flagsOk": dc.get("flags_ok", True)})
    rot_idx = next((i for i, p in enumerate(pubs) if dc["rot_pub"] == p), -1)
    ev.append({"e": "DcKeys", "rotIdx": rot_idx, "dckOk": dc["dck_pub"] == D.load_pub(kp(dck, ks, "pub")), "tableOk": table_ok(dc, pubs, ele)})

    # ---- SPSDK's own parser (a failure is decided by the spec - there is no such step - and the walk goes on without the parsed object)
    p = None
    try:
        p = host.parse_dc(dcA)
        out = spsdk_fields(p)
        try:
            reexport = p.export() == dcA
        except Exception:  # noqa: BLE001
            reexport = False
        ev.append({"e": "SpsdkParse", "ok": True, "out": out, "eq": bool(p == dcA_obj), "reexport": reexport, "cls": type(p).__name__})
    except Exception as e:  # noqa: BLE001
        p = None
        ev.append({"e": "SpsdkParse", "ok": False, "exc": exc_name(e), "msg": str(e)[:200]})

    # ---- CheckDcSignature / CheckRotHash (device twin on the real bytes)
    fuses = D.rot_hash_from_dc(dc, ele)
    dev = {d: D.Device(uu[d], fam["socc"], fuses, ele) for d in uu}
    scheme = dev["d1"].dc_scheme(dc)
    ev.append({"e": "CheckDcSignature", "from": 0, "to": len(dc["signed"]), "sigAt": dc["sig_at"], "sigLen": len(dc["sig"]), "key": f"rot[{rot_idx}]",
               "scheme": scheme, "ok": D.verify(dc["rot_pub"], dc["sig"], dc["signed"], scheme) and dev["d1"].rot_key_listed(dc)})
    ref = hashlib_ref(ver, pubs, ele)
    try:
        dc_hash = dcA_obj.calculate_hash().hex()
    except Exception as e:  # noqa: BLE001
        dc_hash = "raise:" + exc_name(e)
    if sc["tools"]:
        try:
            tools = host.tools_hash(paths).hex()
        except Exception as e:  # noqa: BLE001
            tools = "raise:" + exc_name(e)
    else:
        tools = "n/a"
    tools2 = "n/a"
    if sc["tools"] and fam["rot_type"] == "cert_block_21" and not ele:
        try:
            tools2 = host.tools2_hash(paths, used).hex()
        except Exception as e:  # noqa: BLE001
            tools2 = "raise:" + exc_name(e)
    dc2 = "n/a"     # ... and what the credential read back from its bytes reports (`nxpdebugmbox dat dc` inspection, `dat auth`)
    if p is not None:
        try:
            dc2 = p.calculate_hash().hex()
        except Exception as e:  # noqa: BLE001
            dc2 = "raise:" + exc_name(e)
    ev.append({"e": "CheckRotHash", "fromBytes": fuses.hex(), "ref": ref.hex(), "dc": dc_hash, "dc2": dc2, "tools": tools, "tools2": tools2,
               "entries": D.slot_entries(dc, ele)})
    if sc.get("lane") == "slots":       # lane "slots": the fixed part up to the root-of-trust hash
        return done()

    # ---- the device's challenge, read by the host
    hl = 32 if (ele or fam["sha256"] or ver[0] == 1) else {0: 32, 1: 48, 2: 64}[ver[1]]

    def dac_bytes(d, ch):
        # devices flagged dac_version_is_swapped send minor before major
        return D.build_dac(ver[::-1] if fam["swapped"] else ver, fam["socc"], uu[d], (fuses + bytes(64))[:hl], chs[ch], revocation=r.getrandbits(4), pinned=r.getrandbits(32),
                           default=r.getrandbits(32), vu=r.getrandbits(32))

    dacs = {}

    def dac_obj(d, ch):
        if (d, ch) not in dacs:
            dacs[(d, ch)] = host.parse_dac(dac_bytes(d, ch))
        return dacs[(d, ch)]

    raw = dac_bytes("d1", "ch1")
    can_announce = True
    try:
        dac = host.parse_dac(raw)
        try:
            dac.validate_against_dc(fam["family"], dcA_obj)
            val = "ok"
        except Exception as e:  # noqa: BLE001
            val = "raise:" + exc_name(e)
        ev.append({"e": "Dac", "ok": True, "len": len(raw), "hl": hl, "chalOk": dac.challenge == chs["ch1"], "uuidOk": dac.uuid == uu["d1"],
                   "verOk": [dac.version.major, dac.version.minor] == ver, "validate": val})
        if dac.challenge != chs["ch1"] or dac.uuid != uu["d1"]:
            raise ValueError("challenge misread")
        dacs[("d1", "ch1")] = dac
    except Exception as e:  # noqa: BLE001 - decided by the spec; the walk goes on with a challenge object made through the constructor
        if ev[-1]["e"] != "Dac":
            ev.append({"e": "Dac", "ok": False, "len": len(raw), "hl": hl, "exc": exc_name(e), "msg": str(e)[:200]})
        host.parse_dac = lambda data: host.make_dac(data, hl)
        dac = dac_obj("d1", "ch1")
        can_announce = False    # the host cannot read this device's challenges (reported): there is nothing to announce to it

    # ---- Respond (SPSDK) and walk the response
    try:
        held = dcA_obj if (sc["dc_for_dar"] == "created" or p is None) else p    # the credential object the host holds
        dar = host.respond(held, dcA, dac, beacons["b1"], dck, sc["dar_via"])
    except Exception as e:  # noqa: BLE001 - nothing was built
        ev.append({"e": "Respond", "ok": False, "exc": exc_name(e), "msg": str(e)[:200], "spsdk": is_spsdk_error(e)})
        return done()
    wit["blobs"]["dar"] = dar.hex()
    wit["blobs"]["chal"] = chs["ch1"].hex()
    wit["blobs"]["uuid"] = uu["d1"].hex()
    ev.append({"e": "Respond", "ok": True, "len": len(dar), "via": sc["dar_via"]})
    w = D.walk_dar(dar, len(dcA), ver)
    if w.get("err"):
        ev.append({"e": "DarLayout", "fields": table(w.get("fields", [])), "end": -1, "len": len(dar), "err": w["err"]})
        return done()
    ev.append({"e": "DarLayout", "fields": table(w["fields"]), "end": w["end"], "len": len(dar)})
    uuid_is = "none" if not binds else "device" if w["uuid"] == uu["d1"] else "dc" if w["uuid"] == dc["uuid"] else "other"
    ev.append({"e": "DarFields", "dcEq": w["dc"] == dcA, "beacon": limbs(w["beacon"]), "beaconIn": limbs(beacons["b1"]), "uuidIsDev": uuid_is == "device", "uuidIs": uuid_is})
    dck_pub = dc["dck_pub"]
    dscheme = D.scheme_for(dck_pub, ele) if dck_pub else "none"
    msg = D.response_message(dcA, w["beacon_b"], uu["d1"], chs["ch1"], binds)
    ok = bool(dck_pub) and D.verify(dck_pub, w["sig"], msg, dscheme)
    alts = []
    if not ok and dck_pub:
        bb, u1, c1 = w["beacon_b"], uu["d1"], chs["ch1"]
        cand = {"no-uuid": dcA + bb + c1, "with-uuid": dcA + bb + u1 + c1, "dc-uuid": dcA + bb + dc["uuid"] + c1, "no-beacon": dcA + (u1 if binds else b"") + c1,
                "no-dc": bb + (u1 if binds else b"") + c1, "chal16": dcA + bb + (u1 if binds else b"") + c1[:16], "no-chal": dcA + bb + (u1 if binds else b""),
                "zero-chal": dcA + bb + (u1 if binds else b"") + bytes(32), "dc-unsigned-part": dc["signed"] + bb + (u1 if binds else b"") + c1}
        alts = sorted(k for k, m in cand.items() if m != msg and D.verify(dck_pub, w["sig"], m, dscheme))
        if D.verify(dc["rot_pub"], w["sig"], msg, scheme):
            alts.append("rot-key")
        for s2 in ("pkcs1-sha256", "pss-sha256", "ecdsa-sha256", "ecdsa-sha384", "ecdsa-sha512"):
            if s2 != dscheme and D.verify(dck_pub, w["sig"], msg, s2):
                alts.append("scheme:" + s2)
    cover = ["dc", "beacon"] + (["uuid"] if binds else []) + ["chal"]
    lens = [len(dcA), 4] + ([16] if binds else []) + [32]
    ev.append({"e": "CheckResponseSignature", "cover": cover, "lens": lens, "key": "dck", "scheme": dscheme, "ok": ok, "alts": alts})
    if not ok:
        return done()

    # ---- the intruder's attempts, spliced on real bytes, decided by the twin.  The honest host is SPSDK (credentials cA, cB and
    #      every response made with them); the intruder's own credentials cI / cE and his forgeries come from his own tools.
    siglen = len(w["sig"])
    dc_bytes = {"cA": dcA}
    originals = {("cA", "d1", "ch1"): dar}
    flip_at = {}
    intr_pub, intr_priv = D.load_pub(kp("intr", ks, "pub")), D.load_priv(kp("intr", ks, "pem"))

    def cred_bytes(c):
        if c not in dc_bytes:
            cr = creds[c]
            if c == "cB":  # the host's second credential: same SPSDK class, same RoT meta data and signer, other rights
                o = type(dcA_obj)(version=dcA_obj.version, socc=dcA_obj.socc, uuid=cr["uuid"], rot_meta=dcA_obj.rot_meta, dck_pub=dcA_obj.dck_pub,
                                  cc_socu=cr["socu"], cc_vu=cr["vu"], cc_beacon=cr["beacon"], rot_pub=dcA_obj.rot_pub, signature_provider=dcA_obj.signature_provider)
                o.sign()
                dc_bytes[c] = o.export()
            else:
                rp = [D.load_pub(kp(k, ks, "pub")) for k in cr["rot"]]
                dc_bytes[c] = D.forge_dc(ele, ver, fam["socc"], cr["uuid"], cr["socu"], cr["vu"], cr["beacon"], rp, cr["used"], intr_pub,
                                         D.load_priv(kp(cr["rot"][cr["used"]], ks, "pem")))
        return dc_bytes[c]

    def original(c0, u0, ch0):
        k = (c0, u0, ch0)
        if k not in originals:
            if c0 == "cA":  # the honest host answers another challenge: same SPSDK response class and debug-key provider
                o = type(host.dar_obj)(family=fam["family"], debug_credential=dcA_obj, auth_beacon=beacons["b1"], dac=dac_obj(u0, ch0),
                                       sign_provider=host.dar_obj.sign_provider, revision=fam["revision"])
                originals[k] = o.export()
            else:
                originals[k] = D.forge_dar(cred_bytes(c0), beacons["b1"], uu[u0], chs[ch0], binds, intr_priv, D.scheme_for(intr_pub, ele))
        return originals[k]

    def deliver(dar_bytes, d, ch):
        return dev[d].verdict(dar_bytes, chs[ch])[0]

    for a in sc["attempts"]:
        try:
            sig = original(a["c0"], a["u0"], a["ch0"])[-siglen:]
            cb = cred_bytes(a["c"])
        except Exception as e:  # noqa: BLE001 - SPSDK could not build a credential / response of the intruder world: skip the attempt
            wit.setdefault("skipped_attempts", []).append(exc_name(e))
            continue
        if not a["i"]:
            if a["c"] not in flip_at:
                flip_at[a["c"]] = 24 + r.randrange(12) if not (ver[0] == 1 and not ele) else 4 + r.randrange(20)  # a bit of the constraints / of socc-uuid
            cb = bytearray(cb)
            cb[flip_at[a["c"]]] ^= 1 << r.randrange(8)
            cb = bytes(cb)
        spliced = cb + struct.pack("<L", beacons[a["b"]]) + (uu[a["u"]] if binds else b"") + sig
        ev.append({"e": "Attempt", "a": a, "verdict": deliver(spliced, a["d"], a["ch"])})

    # ---- histories of the honest host: every answer is bound to ITS challenge, beacon and (ECC) device, whatever the host re-uses
    def observe(data):
        ww = D.walk_dar(data, len(dcA), ver)
        if ww.get("err") or ww["trailing"]:
            return {"dcEq": False, "bIs": "malformed"}
        return {"dcEq": ww["dc"] == dcA, "bIs": beacon_name(ww["beacon"], beacons)}

    for h in sc.get("histories", []):
        ev.append(run_history(host, h, held, dcA, dck, dac_obj, beacons, observe,
                              lambda data: [{"d": d, "ch": ch, "v": deliver(data, d, ch)} for d in sorted(uu) for ch in sorted(chs)]))

    # ---- what the challenge announces: each protocol version, the other device, a RoT hash field that does not hold the fused value; the
    #      challenge has the layout of the ANNOUNCED version; the host is the flow of `nxpdebugmbox dat auth` (parse, validate, build)
    ra = rng(PROP, "announce", sc["id"])
    for a in sc.get("announces", []) if can_announce else []:
        av = a["ver"]
        hl_a = 32 if (ele or fam["sha256"] or av[0] == 1) else {0: 32, 1: 48, 2: 64}[av[1]]
        rk = (fuses + bytes(64))[:hl_a]
        if a["rkth"] == "other":
            rk = bytes(b ^ 0xFF for b in rk)
        raw_a = D.build_dac(av[::-1] if fam["swapped"] else av, fam["socc"], uu[a["d"]], rk, chs["ch1"], revocation=ra.getrandbits(4), pinned=ra.getrandbits(32),
                            default=ra.getrandbits(32), vu=ra.getrandbits(32))
        ev.append(run_announce(host, sc, a, raw_a, hl_a, chs["ch1"], uu[a["d"]], held, lambda dac_: host.answer(a["via"], held, dcA, dac_, beacons["b1"], dck), observe,
                               lambda data: [{"d": d, "ch": ch, "v": deliver(data, d, ch)} for d in sorted(uu) for ch in sorted(chs)]))

    # ---- tamper: one flipped bit per field of the honest response
    for part, tbl, base in (("dc", dc["fields"], 0), ("dar", [f for f in w["fields"] if f[0] != "dc"], 0)):
        for name, off, ln in tbl:
            for bit in tamper_bits(r, ln, sc.get("flips", 1)):
                t = bytearray(dar)
                t[off + bit // 8] ^= 1 << (bit % 8)
                ev.append({"e": "Tamper", "part": part, "field": strip_idx(name), "at": off + bit // 8, "bit": bit % 8, "verdict": deliver(bytes(t), "d1", "ch1")})
    return done()


def run_history(host, h, dc_obj, dc_bytes, dck_name, dac_for, beacons, observe, verdicts):
    """Execute one history (a sequence of answers of the same host, DatTerms.ValidHistory) on the real code; per step: does the answer
    embed the credential and the beacon of THIS step, and what do the devices of the twin say to it for each challenge."""
    host.hist_begin()
    obs = []
    for s in h:
        try:
            data = host.hist_step(s["m"], dc_obj, dc_bytes, dac_for(s["d"], s["ch"]), beacons[s["b"]], dck_name)
        except Exception as e:  # noqa: BLE001 - the host refused: nothing was built
            obs.append({"ok": False, "dcEq": False, "bIs": "-", "v": [], "exc": exc_name(e), "msg": str(e)[:120]})
            continue
        obs.append(dict(observe(data), ok=True, v=verdicts(data), exc="", msg=""))
    return {"e": "History", "h": h, "obs": obs}


def run_announce(host, sc, a, raw, hl, chal, uuid, held, build, observe, verdicts):
    """One announcement (DatTerms): the twin's challenge `raw` announces protocol version a['ver'] (and has its layout), comes from device
    a['d'] and holds in its RoT hash field what a['rkth'] says.  The host is the flow of `nxpdebugmbox dat auth`: it parses the challenge,
    validates it against the credential it holds and - unless it refused - builds the response through entry point a['via'].  Recorded: what
    the host read, whether it refused, and for a response it built: its length, whether it embeds the credential and the beacon, and what
    the devices of the twin say to it for each challenge."""
    ev = {"e": "Announce", "a": a, "hl": hl, "len": len(raw), "parsed": False, "validate": "-", "built": False}
    try:
        dac = host.parse_dac(raw)
    except Exception as e:  # noqa: BLE001 - the host cannot read it: nothing is built
        ev.update(exc=exc_name(e), msg=str(e)[:120])
        return ev
    ev.update(parsed=True, chalOk=dac.challenge == chal, uuidOk=dac.uuid == uuid, verOk=[dac.version.major, dac.version.minor] == list(a["ver"]))
    try:
        dac.validate_against_dc(sc["fam"]["family"], held)
        ev["validate"] = "ok"
    except Exception as e:  # noqa: BLE001 - the host refuses to answer this challenge with this credential: nothing is built
        ev.update(validate="refused:" + exc_name(e), msg=str(e)[:120].replace("\n", " "))
        return ev
    try:
        data = build(dac)
    except Exception as e:  # noqa: BLE001 - nothing was built
        ev.update(exc=exc_name(e), msg=str(e)[:120])
        return ev
    ev.update(built=True, darLen=len(data), obs=dict(observe(data), v=verdicts(data)))
    return ev


def tamper_bits(r, nbytes, flips):
    """Bit positions to flip in a field. flips = 1: one random bit; otherwise every bit of a field of up to four bytes (SoC class,
    constraints, beacons, flags ...) and eight random bits of a longer one."""
    nbits = 8 * nbytes
    if flips <= 1:
        return [r.randrange(nbits)] if nbits else []
    if nbytes <= 4:
        return list(range(nbits))
    return sorted(r.sample(range(nbits), k=8))


def table_ok(dc, pubs, ele):
    if ele:
        recs = dc["srk"]["records"]
        return len(recs) == len(pubs) and all(rc["consistent"] and rc["pub"] == p and rc["flags"] == 0 for rc, p in zip(recs, pubs)) and dc["srk"]["raw"] == D.ref_srk_table(pubs)
    if dc["kind"] == "rsa":
        return dc["table"] == [D.rsa_key_hash(p) for p in pubs] + [bytes(32)] * (4 - len(pubs))
    if len(pubs) == 1:
        return dc["table"] == []
    return dc["table"] == [D.ecc_key_hash(p) for p in pubs]


def hashlib_ref(ver, pubs, ele):
    import hashlib

    if ele:
        return hashlib.sha256(D.ref_srk_table(pubs)).digest()
    return D.ref_rot_hash("rsa" if ver[0] == 1 else "ecc", pubs)


# ------------------------------------------------------------------ scenario planning
def core_attempts(binds):
    """The honest delivery and every single substitution around it (always executed)."""
    h = {"binds": binds, "c0": "cA", "u0": "d1", "ch0": "ch1", "c": "cA", "i": True, "b": "b1", "u": "d1", "d": "d1", "ch": "ch1"}
    res = [h, dict(h, ch="ch2"), dict(h, d="d2"), dict(h, b="b2"), dict(h, c="cB"), dict(h, i=False), dict(h, c="cI"), dict(h, c="cE"),
           dict(h, c0="cI", c="cI", u0="d2", u="d2", d="d2"), dict(h, c0="cI", c="cI"), dict(h, c0="cE", c="cE"), dict(h, c0="cI", c="cA")]
    if binds:
        res += [dict(h, u="d2"), dict(h, u="d2", d="d2")]
    return res


def step(m, d, ch, b):
    return {"m": m, "d": d, "ch": ch, "b": b}


def core_histories(cls, noobj):
    """Histories every scenario executes: the configuration object used again for another challenge and beacon (and then for the first
    ones again), the credential object used again, a response object exported twice."""
    cfg = [step("fresh", "d1", "ch1", "b1"), step("cfg", "d1", "ch2", "b2"), step("cfg", "d1", "ch1", "b1")]
    if cls == "ele2":
        return [cfg, [step("fresh", "d1", "ch1", "b1"), step("again", "d1", "ch1", "b1"), step("cfg", "d1", "ch2", "b1")]]
    if noobj:
        return [cfg, [step("fresh", "d1", "ch1", "b1"), step("again", "d1", "ch1", "b1"), step("cfg", "d2", "ch2", "b1")]]
    return [cfg, [step("obj", "d1", "ch1", "b1"), step("obj", "d1", "ch2", "b2"), step("again", "d1", "ch2", "b2")],
            [step("obj", "d2", "ch1", "b1"), step("fresh", "d1", "ch2", "b1"), step("obj", "d1", "ch1", "b2")]]


VERSIONS = ([1, 0], [1, 1], [2, 0], [2, 1], [2, 2])


def core_announces(case, noobj):
    """The announcements around the honest one (DatTerms; a = [ver, d, rkth, via]), per entry point of the host: EVERY protocol version announced
    by the credential's own device with the fused RoT hash (so that every pair (credential version, announced version) is met), the other
    device announcing the credential's version and a version of the other kind (RSA <-> ECC), a RoT hash field that holds something else.
    noobj: no response constructor taking a credential object (signed-message variant; not the latest revision of an enclave family)."""
    own = list(case["ver"])
    other_kind = [1, 0] if own[0] == 2 else [2, 0]
    res = []
    for via in (("config",) if (noobj or case["cls"] == "ele2") else ("config", "create")):
        res += [{"ver": list(v), "d": "d1", "rkth": "fused", "via": via} for v in VERSIONS]
        if case["cls"] != "ele2":       # (the signed-message variant has one device in its world)
            res += [{"ver": own, "d": "d2", "rkth": "fused", "via": via}, {"ver": other_kind, "d": "d2", "rkth": "fused", "via": via}]
        res += [{"ver": own, "d": "d1", "rkth": "other", "via": via}, {"ver": other_kind, "d": "d1", "rkth": "other", "via": via}]
    return res


def ann_class(sc):
    """The class the announcement dimension is planned and counted by: the family class of an EdgeLock-enclave family (container version 1,
    container version 1 on a family whose latest revision has version 2, container version 2), 'classic' for all others."""
    return sc["fam"]["fclass"] if sc["fam"]["ele"] else "classic"


def plan_announces(scs, announces, tier):
    """Which scenarios announce what (a fixed function of the plan - nothing is drawn).  Scenarios = the plain cases (the shape of a key does not
    meet the challenge anywhere).
      quick    : the core announcements; on every scenario of the EdgeLock-enclave class of container version 1 with an ECC credential (that is
                 where the form of the response hangs on the protocol version and the host tolerates a version mismatch; a response costs 4 ms), and
                 on the first two scenarios of every other (class, version, wildcard) cell - class = ann_class: 'classic' or the family class of an enclave family
                 (signed messages of container version 2 and RSA-2048: 0.05 s per response; RSA-4096, 0.3 s per response: the first one)
      thorough : the whole space TLC enumerates on every scenario with an ECC credential; RSA: the core announcements on the first 8 (RSA-4096: 4)
                 scenarios of every (class, version, wildcard) cell"""
    seen = {}
    for sc in scs:
        case = sc["case"]
        sc["announces"] = []
        if case.get("lz", "none") != "none":
            continue
        noobj = case["cls"] == "ele2" or sc["fam"]["fclass"].endswith("-oldrev")
        core = core_announces(case, noobj)
        missing = [a for a in core if a not in announces]
        if missing:
            raise Machinery(f"core announcement {missing[0]} is not in the space TLC enumerated")
        cell = (ann_class(sc), tuple(case["ver"]), case["wild"])
        seen[cell] = seen.get(cell, 0) + 1
        ecc = case["ver"][0] == 2
        if tier == "quick":
            take = (ecc and case["cls"] == "ele1") or seen[cell] <= (1 if tuple(case["ver"]) == (1, 1) else 2)
            full = False
        else:
            take = ecc or seen[cell] <= (4 if tuple(case["ver"]) == (1, 1) else 8)
            full = ecc
        if take:
            space = [a for a in announces if (a["via"] == "config" or not noobj) and (a["d"] == "d1" or case["cls"] != "ele2")]
            sc["announces"] = core + [a for a in space if a not in core] if full else core


def plan(cases, attempts, fams, tier, r, histories=(), announces=()):
    """Scenarios: every abstract case on several families; every family at least once; attempts and histories dealt round-robin."""
    per_case = 2 if tier == "quick" else 10
    per_shape = 1 if tier == "quick" else 3      # cases that differ from a plain case only in the shape of one key
    n_att = 14 if tier == "quick" else 60
    n_hist = 2 if tier == "quick" else 6
    by_cls = {"classic": [f for f in fams if not f["ele"]], "ele1": [f for f in fams if f["ele"] and f["cnt"] == 1],
              "ele2": [f for f in fams if f["ele"] and f["cnt"] == 2]}
    scs = []
    used_fams = set()

    def add(case, fam):
        scs.append({"case": case, "fam": fam})
        used_fams.add((fam["family"], fam["revision"]))

    for case in cases:
        if tier == "quick" and case.get("lz", "none") != "none" and case["wild"]:
            continue    # quick tier: the key-shape cases run with device-specific credentials (shape of a key and UUID field do not meet anywhere)
        pool = by_cls[case["cls"]]
        indom = [f for f in pool if tools_apply(f, case["cls"], case["ver"])]
        chosen = []
        if indom:
            chosen.append(r.choice(indom))
        want = per_case if case.get("lz", "none") == "none" else per_shape
        while len(chosen) < min(want, max(2, len(pool))):
            f = r.choice(pool if (tier == "thorough" or not indom or r.random() < 0.3) else indom)
            if f not in chosen or len(pool) < per_case:
                chosen.append(f)
        for f in chosen:
            add(case, f)
    for f in fams:
        if (f["family"], f["revision"]) in used_fams or (tier == "quick" and not f["latest"]):
            continue
        cls = "ele1" if f["ele"] and f["cnt"] == 1 else "ele2" if f["ele"] and f["cnt"] == 2 else "classic" if not f["ele"] else None
        if cls is None:
            continue
        plain = [c for c in cases if c.get("lz", "none") == "none"]
        pool = [c for c in plain if c["cls"] == cls and tools_apply(f, cls, c["ver"])] or [c for c in plain if c["cls"] == cls]
        add(r.choice(pool), f)
    # every family class of the EdgeLock-enclave kind meets every key type on a plain case (the announcement dimension is asserted per family
    # class; the revisions of a family that are not its latest are otherwise met by chance only)
    for fc in sorted({f["fclass"] for f in fams if f["ele"]}):
        fpool = [f for f in fams if f["fclass"] == fc]
        cls = "ele%d" % fpool[0]["cnt"]
        for ver in sorted({tuple(c["ver"]) for c in cases if c["cls"] == cls}):
            if not any(s_["fam"]["fclass"] == fc and tuple(s_["case"]["ver"]) == ver and s_["case"].get("lz", "none") == "none" for s_ in scs):
                add(r.choice([c for c in cases if c["cls"] == cls and tuple(c["ver"]) == ver and c.get("lz", "none") == "none"]), r.choice(fpool))
    cycles = {b: r.sample([a for a in attempts if a["binds"] == b], k=len([a for a in attempts if a["binds"] == b])) for b in (True, False)}
    # histories: all of them for the classic response classes; without the response constructor where it cannot be used (signed-message
    # variant; a family revision that is not the latest of an enclave family); the signed-message variant has one device in its world
    hpool = {"all": list(histories), "noobj": [h for h in histories if all(s_["m"] != "obj" for s_ in h)]}
    hpool["msg"] = [h for h in hpool["noobj"] if all(s_["d"] == "d1" for s_ in h)]
    hcyc = {k: r.sample(x, k=len(x)) for k, x in hpool.items()}
    hpos = {k: 0 for k in hpool}
    pos = {True: 0, False: 0}
    wpos = {}
    for i, sc in enumerate(scs):
        binds = sc["case"]["ver"][0] == 2
        wkey = (sc["case"]["cls"], sc["case"]["ver"][0])       # credential class: RSA, ECC, enclave (ECC format), signed-message variant
        sc["wk"] = wpos[wkey] = wpos.get(wkey, -1) + 1
        hk = "msg" if sc["case"]["cls"] == "ele2" else "noobj" if sc["fam"]["fclass"].endswith("-oldrev") else "all"
        hcore = core_histories(sc["case"]["cls"], hk != "all")
        if histories:
            missing = [h for h in hcore if h not in hpool[hk]]
            if missing:
                raise Machinery(f"core history {missing[0]} is not in the space TLC enumerated")
        # quick tier: the histories run on the plain cases (a case that differs from a plain one only in the shape of a key adds nothing to
        # them); building a response costs ~0.3 s with an RSA-4096 debug key and ~0.05 s with an RSA-2048 one (SPSDK loads and validates the
        # key file per response; the response class is the same for both): core histories only, on every second (RSA-4096: eighth) scenario
        n_core, n_extra = len(hcore), n_hist
        if tier == "quick":
            if sc["case"].get("lz", "none") != "none":
                n_core, n_extra = 0, 0
            elif tuple(sc["case"]["ver"]) == (1, 1):
                n_core, n_extra = (2, 0) if i % 8 == 0 else (0, 0)
            elif tuple(sc["case"]["ver"]) == (1, 0):
                n_core, n_extra = (len(hcore), 0) if i % 2 == 0 else (0, 0)
            elif sc["case"]["cls"] == "ele2":
                n_extra = 1
        elif sc["case"]["ver"][0] == 1:     # thorough tier, RSA (see above)
            n_extra = 2
        hextra = []
        for _ in range(n_extra if histories else 0):
            hextra.append(hcyc[hk][hpos[hk] % len(hcyc[hk])])
            hpos[hk] += 1
        sc["histories"] = hcore[:n_core] + [h for h in hextra if h not in hcore[:n_core]]
        extra = []
        shaped = tier == "quick" and sc["case"].get("lz", "none") != "none"   # quick: the round-robin share of the attempt space goes to the plain cases
        for _ in range(0 if shaped else n_att):
            extra.append(cycles[binds][pos[binds] % len(cycles[binds])])
            pos[binds] += 1
        core = core_attempts(binds)
        sc.update(id=i, attempts=core + [a for a in extra if a not in core], tools=tools_apply(sc["fam"], sc["case"]["cls"], sc["case"]["ver"]),
                  via=r.choice(["yaml-family", "yaml-family", "yaml-revision", "yaml-socc"]), explicit_version=r.random() < 0.5,
                  dar_via=r.choice(["create", "config"]), dc_for_dar=r.choice(["created", "parsed"]), flips=1 if tier == "quick" else 32)
        if sc["via"] == "yaml-socc" and not socc_is_safe(sc["fam"], fams):
            sc["via"] = "yaml-family"
        if sc["fam"]["fclass"].endswith("-oldrev"):
            sc["dar_via"] = "config"  # DebugAuthenticateResponse.create() takes no revision and resolves the family to its latest one
    plan_announces(scs, list(announces), tier)
    return scs


def socc_is_safe(fam, fams):
    """The backward-compatible `socc:` configuration resolves the SoC class to SOME family of that class: usable only when all
    families sharing the value behave alike for the credential (same enclave generation)."""
    same = [f for f in fams if f["socc"] == fam["socc"]]
    return len({(f["ele"], f["cnt"]) for f in same}) == 1 and all(f["cnt"] == fam["cnt"] for f in same)


def plan_slots(slotcases, fams, tier, r, first_id):
    """Lane "slots": the cases of the space whose RoT key list has slots sharing a key (every partition of the slots x the way a repeated
    slot names its key x each used index), each executed up to the root-of-trust hash on a family on which the image tools define it.
    Nothing is drawn: the selection below is a fixed function of the case space; only the family (round robin), the way the configuration
    names the device and the field values depend on the seed.
      quick    : device-specific credentials; every case for the ECC key types and RSA-2048; RSA-4096 (same classes as RSA-2048, 0.5 s per
                 credential): every pattern once, used index and way of naming rotating
      thorough : all of them, wildcard credentials too (RSA-4096 wildcard: every pattern once)"""
    quick = tier == "quick"
    by_cls = {"classic": [f for f in fams if not f["ele"]], "ele1": [f for f in fams if f["ele"] and f["cnt"] == 1],
              "ele2": [f for f in fams if f["ele"] and f["cnt"] == 2]}
    scs = []
    for cell in sorted({(c["cls"], tuple(c["ver"])) for c in slotcases}):
        cls, ver = cell
        mine = sorted((c for c in slotcases if (c["cls"], tuple(c["ver"])) == cell), key=lambda c: (c["wild"], c["nkeys"], c["pat"], c["given"], c["used"]))
        pats = sorted({tuple(c["pat"]) for c in mine})
        sel = []
        for c in mine:
            k = pats.index(tuple(c["pat"]))
            once = c["used"] == k % c["nkeys"] and c["given"] == ("path", "copy")[(k // 2) % 2]     # every pattern once: index and naming rotate
            if quick:
                take = not c["wild"] and (ver != (1, 1) or once)
            else:
                take = ver != (1, 1) or not c["wild"] or once
            if take:
                sel.append(c)
        pool = by_cls[cls]
        indom = [f for f in pool if tools_apply(f, cls, ver)] or pool
        if not indom:
            raise Machinery(f"no DAT family for credential class {cls}")
        order = r.sample(indom, k=len(indom))
        for i, case in enumerate(sel):
            fam = order[i % len(order)]
            sc = {"lane": "slots", "id": first_id + len(scs), "case": case, "fam": fam, "attempts": [], "histories": [], "tools": tools_apply(fam, cls, ver),
                  "via": r.choice(["yaml-family", "yaml-family", "yaml-revision", "yaml-socc"]), "explicit_version": r.random() < 0.5,
                  "dar_via": "config", "dc_for_dar": "created", "flips": 1}
            if sc["via"] == "yaml-socc" and not socc_is_safe(fam, fams):
                sc["via"] = "yaml-family"
            scs.append(sc)
    return scs


def account_slots(v, straces, slotcases):
    """Counting for lane "slots" (decides nothing) -> (statistics, list of gaps: patterns of a cell for which the root-of-trust hash was
    never evaluated - on the image side too where it defines one)"""
    stats = {"scenarios": len(straces), "created": 0, "rot_hash_compared_with_image_tools": 0, "refused": {}, "by_given": {}, "by_class": {}}
    seen = set()
    for t in straces:
        sc, c = t["sc"], t["sc"]["case"]
        v.count(1)
        v.nontrivial(("slots", sc["fam"]["fclass"], c["cls"], tuple(c["ver"]), tuple(c["pat"]), c["used"], c["given"], c["wild"]))
        for e in t["ev"]:
            if e["e"] in ("Create", "Respond") and not e["ok"]:
                k = f"{c['cls']}/{c['ver'][0]}.{c['ver'][1]}/{e['e']}/{e['exc']}"
                stats["refused"][k] = stats["refused"].get(k, 0) + 1
            if e["e"] == "Create" and e["ok"]:
                stats["created"] += 1
            if e["e"] == "CheckRotHash":
                stats["by_given"][c["given"]] = stats["by_given"].get(c["given"], 0) + 1
                ck = f"{c['cls']}/{c['ver'][0]}.{c['ver'][1]}"
                stats["by_class"][ck] = stats["by_class"].get(ck, 0) + 1
                seen.add((c["cls"], tuple(c["ver"]), tuple(c["pat"]), False))
                if e["tools"] != "n/a":
                    stats["rot_hash_compared_with_image_tools"] += 1
                    seen.add((c["cls"], tuple(c["ver"]), tuple(c["pat"]), True))
    gaps = []
    for c in slotcases:
        cell = (c["cls"], tuple(c["ver"]), tuple(c["pat"]))
        need_tools = tuple(c["ver"]) != (2, 2) or c["cls"] != "classic"       # no certificate block takes P-521 keys (DatLayout.RotHashDefined)
        if cell + (need_tools,) not in seen and cell not in gaps:
            gaps.append(cell)
    return stats, gaps


# ------------------------------------------------------------------ verdicts
def finding_key(t, matched):
    sc = t["sc"]
    ver = ".".join(str(x) for x in sc["case"]["ver"])
    ev = t["ev"][matched] if matched < len(t["ev"]) else {"e": "End"}
    e = ev.get("e")
    nk = "nkeys>1" if sc["case"]["nkeys"] > 1 else "nkeys=1"
    detail = ""
    if str(e).startswith("Cred"):
        detail = C.finding_detail(t, matched)
    elif e == "Create" and ev.get("ok"):
        detail = f"{nk}/length"
    elif "exc" in ev:
        detail = f"{nk}/exc={ev['exc']}"
    elif "err" in ev:
        detail = f"{nk}/walk-error"
    elif e == "DcLayout" or e == "DarLayout":
        detail = f"{nk}/len={ev.get('len')}"
    elif e in ("DcFields", "SpsdkParse"):
        exp = next((x["in"] for x in t["ev"] if x.get("e") == "Create"), {})
        out = ev.get("out", {})
        diff = [k for k in ("socc", "uuid", "socu", "vu", "beacon") if k in out and out.get(k) != exp.get(k)]
        if sc["case"]["cls"] != "ele2":
            if out.get("ver") != sc["case"]["ver"]:
                diff.append("ver")
            if out.get("nkeys") != sc["case"]["nkeys"]:
                diff.append("nkeys")
            if out.get("used") not in (-1, sc["case"]["used"]):
                diff.append("used")
        if e == "SpsdkParse" and not diff:
            diff = [k for k in ("eq", "reexport") if not ev.get(k)]
        if e == "DcFields" and not ev.get("flagsOk", True):
            diff.append("flags")
        detail = "field=" + "+".join(diff or ["?"])
        if "uuid" in diff and any(exp.get("uuid", [])) and not any(exp["uuid"][:8]):
            detail += "/uuid<2^64"
    elif e == "DcKeys":
        pat = pattern(sc["case"])
        detail = "+".join(k for k, bad in (("rot-key", ev["rotIdx"] != pat.index(pat[sc["case"]["used"]])), ("dck", not ev["dckOk"]), ("table", not ev["tableOk"])) if bad)
    elif e == "CheckDcSignature":
        detail = "not-verified" if not ev["ok"] else f"range={ev['from']}..{ev['to']}"
    elif e == "CheckRotHash":
        detail = "+".join(k for k in ("fromBytes", "dc", "dc2", "tools", "tools2") if ev.get(k, "n/a") != ev["ref"] and ev.get(k, "n/a") != "n/a") or "entries"
        if ev["dc"].startswith("raise:"):
            detail += "/" + ev["dc"]
    elif e == "Dac":
        detail = "+".join(k for k in ("chalOk", "uuidOk", "verOk") if not ev.get(k)) or f"validate={ev.get('validate')}"
    elif e == "DarFields":
        detail = "+".join(k for k, bad in (("dc", not ev["dcEq"]), ("beacon", ev["beacon"] != ev["beaconIn"]), ("challenge", not ev.get("chalOk", True)),
                                           (f"uuid={ev.get('uuidIs')}", not ev.get("uuidIsDev", True) and ev.get("uuidIs") != "none")) if bad)
    elif e == "CheckResponseSignature" and "cover" not in ev:
        detail = "not-verified" if not ev["ok"] else f"range={ev['from']}..{ev['to']}"
    elif e == "CheckResponseSignature":
        detail = "not-verified" + ("/verifies-for=" + "+".join(ev["alts"]) if ev.get("alts") else "")
    elif e == "Attempt":
        a = ev["a"]
        h = core_attempts(a["binds"])[0]
        sub = [k for k in ("c0", "u0", "ch0", "c", "i", "b", "u", "d", "ch") if a[k] != h[k]]
        detail = f"subst={'+'.join(sub) or 'none'}/{ev['verdict']}"
    elif e == "History":
        detail = history_detail(ev, sc["case"]["wild"], sc["case"]["ver"][0] == 2 and sc["case"]["cls"] != "ele2")
    elif e == "Announce":
        detail = announce_detail(ev, sc["case"], sc["case"]["ver"][0] == 2 and sc["case"]["cls"] != "ele2",
                                 next((x["len"] for x in t["ev"] if x.get("e") == "Respond" and x.get("ok")), None))
    elif e == "Tamper":
        detail = f"{ev['part']}.{ev['field']}/{ev['verdict']}"
    elif e == "Deliver":
        detail = ev["verdict"]
    lane = f"/slots={sc['case'].get('given', '-')}" if sc.get("lane") == "slots" else ""     # RoT key list with slots sharing a key, named the given way
    return f"C15/{ver}/{sc['fam']['fclass']}{lane}/{e}" + (f"/{detail}" if detail else "")


def history_detail(ev, wild, binds=False):
    """Name of the first step of a rejected history that does not look like the answer to its own challenge (for the finding key only:
    the verdict was TLC's)."""
    for k, (s_, o) in enumerate(zip(ev["h"], ev["obs"])):
        if not o["ok"]:
            continue
        acc = {(x["d"], x["ch"]) for x in o["v"] if x["v"] == "Accept"}
        what = []
        if not o["dcEq"]:
            what.append("credential")
        if o["bIs"] != s_["b"]:
            what.append("beacon")
        if any(ch != s_["ch"] for _, ch in acc):
            what.append("accepted-for-other-challenge")
        if binds and any(d != s_["d"] for d, _ in acc):
            what.append("accepted-by-other-device")
        if (wild or s_["d"] == "d1") and (s_["d"], s_["ch"]) not in acc:
            what.append("own-challenge-not-accepted")
        if what:
            return f"step{k + 1}={s_['m']}/" + "+".join(what)
    return "modes=" + "-".join(s_["m"] for s_ in ev["h"])


def announce_detail(ev, case, binds, honest_len=None):
    """What is wrong with the answer to an announcement (for the finding key only: the verdict was TLC's).  honest_len: the length of the
    response of the same scenario to the challenge that announces the credential's own version."""
    a = ev["a"]
    head = f"announced={a['ver'][0]}.{a['ver'][1]}/via={a['via']}" + ("/other-device" if a["d"] != "d1" else "") + ("/rot-hash-field=other" if a["rkth"] != "fused" else "")
    if not ev.get("built"):
        return head + "/not-an-announcement-of-the-space"
    o = ev["obs"]
    acc = {(x["d"], x["ch"]) for x in o["v"] if x["v"] == "Accept"}
    what = [k for k in ("chalOk", "uuidOk", "verOk") if not ev.get(k)]
    if honest_len is not None and ev["darLen"] != honest_len:
        what.append(f"length{ev['darLen'] - honest_len:+d}")
    if o["bIs"] == "malformed":
        what.append("malformed")
    else:
        if not o["dcEq"]:
            what.append("credential")
        if o["bIs"] != "b1":
            what.append("beacon")
    if any(ch != "ch1" for _, ch in acc):
        what.append("accepted-for-other-challenge")
    if binds and any(d != a["d"] for d, _ in acc):
        what.append("accepted-by-other-device")
    if (case["wild"] or a["d"] == "d1") and (a["d"], "ch1") not in acc:
        what.append("own-challenge-not-accepted")
    return head + "/" + ("+".join(what) or "length-or-verdicts")


def slim(t):
    """Witness of a trace for the replay file."""
    return {"sc": t["sc"], "ev": t["ev"], "blobs": t.get("wit", {}).get("blobs", {})}


def validate(v, traces):
    from lib.ptv import ptv

    rej, stats = ptv("C15", "DatTrace", [{"id": t["id"], "ev": t["ev"]} for t in traces], jobs=4, min_chunk=100, heap="4g", timeout=1500)
    v.traces(len(traces))
    v.extra["tv_states"] = v.extra.get("tv_states", 0) + sum(x["distinct"] for x in stats)
    by_id = {t["id"]: t for t in traces}
    for tid, (matched, length, evname) in rej.items():
        t = by_id[tid]
        key = finding_key(t, matched)
        ev = t["ev"][matched] if matched < len(t["ev"]) else {}
        wit = C.witness(t, matched) if evname.startswith("Cred") else dict(slim(t), failed_event=matched + 1)
        v.violation(key, f"{t['sc']['fam']['family']}/{t['sc']['fam']['revision']} case {json.dumps(t['sc']['case'])}: event #{matched + 1} ({evname}) is not a step of the R-spec: "
                    f"{json.dumps({k: x for k, x in ev.items() if k not in ('fields',)})[:300]}", wit)
    return rej


SKIPPABLE = ("DcFields", "DcKeys", "SpsdkParse", "CheckDcSignature", "CheckRotHash", "Dac", "DarFields", "CheckResponseSignature", "Deliver")


def continuation(t, matched, rnd):
    """The trace without its rejected event: a check-only step is listed in Case.skip, an attempt / tamper event is just dropped."""
    if matched >= len(t["ev"]):
        return None
    name = t["ev"][matched]["e"]
    if name.startswith("Cred"):     # the other histories of the scenario are still decided
        return C.cut_history(t, matched, t["id"] % 100000 + 100000 * (rnd + 1))
    if name not in SKIPPABLE and name not in ("Attempt", "Tamper", "History", "Announce"):
        return None
    ev = json.loads(json.dumps(t["ev"][:matched] + t["ev"][matched + 1:]))
    if name in SKIPPABLE:
        ev[0]["skip"] = ev[0]["skip"] + [name]
        if name == "CheckResponseSignature":  # without an accepted honest response the attempts say nothing
            ev = [e for e in ev if e["e"] not in ("Attempt", "Tamper", "History", "Announce")]
    return dict(t, id=t["id"] % 100000 + 100000 * (rnd + 1), ev=ev)


def canary(credhists):
    """One known-good trace must be accepted; the same trace with one corrupted field must be rejected - for several clauses.
    The known-good traces come from a host made of the twin's own tools (RefHost, C.RefCred) for made-up families (C.CANARY_FAM): no
    line of the tree under test runs for them, so a defect of SPSDK cannot turn the canary into a machinery failure."""
    fam = C.CANARY_FAM["cb21"]
    case = {"kind": "case", "cls": "classic", "ver": [2, 0], "nkeys": 3, "used": 1, "wild": False}
    gsc = {"id": 999999, "case": case, "fam": fam, "attempts": core_attempts(True), "histories": core_histories("classic", False), "tools": True,
           "announces": core_announces(case, False), "via": "yaml-family", "explicit_version": False, "dar_via": "create", "dc_for_dar": "created", "refhost": True}
    good = run_scenario(gsc)
    if good.get("harness_error"):
        raise Machinery("canary: " + good["harness_error"])
    if good["ev"][-2]["e"] != "Tamper" or len([e for e in good["ev"] if e["e"] == "Announce" and e["built"]]) != len(gsc["announces"]):
        raise Machinery(f"canary: the reference host's trace is incomplete: {json.dumps(good['ev'][-3:])[:400]}")
    g = json.loads(json.dumps({"id": "good", "ev": good["ev"]}))
    more = []
    for k, (cls, ver, nk, used, wild, fclass, lz, coord) in enumerate([
            ("classic", [1, 0], 2, 1, True, "cb1", "none", "-"), ("ele1", [2, 1], 4, 3, False, "ele1", "none", "-"), ("classic", [2, 1], 1, 0, True, "cb21-sha256", "none", "-"),
            ("classic", [2, 0], 3, 1, False, "cb21", "other", "x"), ("classic", [2, 1], 2, 0, True, "cb21", "used", "y"), ("ele1", [2, 0], 4, 2, False, "ele1", "dck", "x")]):
        f2 = C.CANARY_FAM[fclass]
        c2 = {"kind": "case", "cls": cls, "ver": ver, "nkeys": nk, "used": used, "wild": wild, "lz": lz, "coord": coord}
        t2 = run_scenario({"id": 999990 + k, "case": c2, "fam": f2,
                           "attempts": core_attempts(ver[0] == 2), "histories": core_histories(cls, False), "tools": True, "via": "yaml-family",
                           "announces": core_announces(c2, False), "explicit_version": False, "dar_via": "create", "dc_for_dar": "created", "refhost": True})
        if t2.get("harness_error") or t2["ev"][-2]["e"] != "Tamper":
            raise Machinery(f"canary: reference host failed for {cls} {ver}: {t2.get('harness_error') or json.dumps(t2['ev'][-3:])[:400]}")
        more.append({"id": f"good-{cls}-{ver[0]}.{ver[1]}-{lz}{coord}", "ev": t2["ev"]})
    bad = []

    def mutate(name, fn):
        b = json.loads(json.dumps(g))
        b["id"] = name
        fn({e["e"]: e for e in reversed(b["ev"])}, b["ev"])
        bad.append(b)

    mutate("bad-sigrange", lambda m, evs: m["CheckDcSignature"].update(to=m["CheckDcSignature"]["to"] - 4))
    mutate("bad-field", lambda m, evs: m["DcFields"]["out"].update(vu=[m["DcFields"]["out"]["vu"][0] ^ 1, m["DcFields"]["out"]["vu"][1]]))
    mutate("bad-layout", lambda m, evs: m["DcLayout"]["fields"][3].update(l=m["DcLayout"]["fields"][3]["l"] + 2))
    mutate("bad-rothash", lambda m, evs: m["CheckRotHash"].update(dc="00" + m["CheckRotHash"]["dc"][2:] if not m["CheckRotHash"]["dc"].startswith("00") else "11" + m["CheckRotHash"]["dc"][2:]))
    mutate("bad-cover", lambda m, evs: m["CheckResponseSignature"].update(cover=[c for c in m["CheckResponseSignature"]["cover"] if c != "chal"]))
    mutate("bad-respsig", lambda m, evs: m["CheckResponseSignature"].update(ok=False))

    def flip_attempt(m, evs):
        for e in evs:
            if e["e"] == "Attempt" and e["a"]["ch"] != e["a"]["ch0"] and e["verdict"] != "Accept":
                e["verdict"] = "Accept"
                return
        raise Machinery("canary: no substituted-challenge attempt in the good trace")

    mutate("bad-attempt", flip_attempt)

    def accept_tamper(m, evs):
        next(e for e in evs if e["e"] == "Tamper").update(verdict="Accept")

    mutate("bad-tamper", accept_tamper)

    def stale_history(m, evs):  # the second answer of a history verifies for the OTHER challenge (what a host that remembers its first answer produces)
        for x in m["History"]["obs"][1]["v"]:
            x["ch"] = {"ch1": "ch2", "ch2": "ch1"}[x["ch"]]

    mutate("bad-history-challenge", stale_history)
    mutate("bad-history-beacon", lambda m, evs: m["History"]["obs"][1].update(bIs={"b1": "b2", "b2": "b1"}[m["History"]["obs"][1]["bIs"]]))
    mutate("bad-history-order", lambda m, evs: m["History"]["h"][0].update(m="cfg"))   # not a history of the case space
    mutate("bad-shape", lambda m, evs: m["Case"]["shapes"]["rot"].__setitem__(0, "x"))  # a key of another shape than the case says
    mutate("bad-tools2", lambda m, evs: m["CheckRotHash"].update(tools2="11" + m["CheckRotHash"]["tools2"][2:] if not m["CheckRotHash"]["tools2"].startswith("11")
                                                                 else "00" + m["CheckRotHash"]["tools2"][2:]))
    # ---- the announcement dimension: single-field corruptions of an answer to a challenge announcing the OTHER kind of protocol version ...
    aat = {}

    def ann(evs, built=True):
        return next(e for e in evs if e["e"] == "Announce" and e["built"] == built and e["a"]["ver"][0] != case["ver"][0])

    def mutate_ann(name, fn):
        mutate(name, lambda m, evs: fn(ann(evs)))
        aat[name] = "Announce"

    mutate_ann("bad-announce-other-challenge", lambda e: next(x for x in e["obs"]["v"] if x["d"] == "d1" and x["ch"] == "ch2").update(v="Accept"))
    mutate_ann("bad-announce-other-device", lambda e: next(x for x in e["obs"]["v"] if x["d"] == "d2" and x["ch"] == "ch1").update(v="Accept"))
    mutate_ann("bad-announce-own-not-accepted", lambda e: next(x for x in e["obs"]["v"] if x["d"] == "d1" and x["ch"] == "ch1").update(v="Malformed"))
    mutate_ann("bad-announce-length", lambda e: e.update(darLen=e["darLen"] - 16))        # the length of the RSA form of this response
    mutate_ann("bad-announce-credential", lambda e: e["obs"].update(dcEq=False))
    mutate_ann("bad-announce-misread", lambda e: e.update(chalOk=False))
    mutate_ann("bad-announce-dac-layout", lambda e: e.update(hl=48, len=e["len"] + 16))    # not the challenge layout of the announced version
    mutate_ann("bad-announce-version", lambda e: e["a"].update(ver=[3, 0]))                # not a protocol version of the space
    # ... and the traces of a reference host that takes the FORM of its response from the announced version (the defect class of the dimension):
    # ECC credential / RSA credential / EdgeLock-enclave credential
    for k, (cls, ver, nk, used, wild, fclass) in enumerate([("classic", [2, 0], 3, 1, False, "cb21"), ("classic", [1, 0], 2, 1, True, "cb1"), ("ele1", [2, 1], 4, 3, True, "ele1")]):
        c3 = {"kind": "case", "cls": cls, "ver": ver, "nkeys": nk, "used": used, "wild": wild, "lz": "none", "coord": "-"}
        t3 = run_scenario(dict(gsc, id=999970 + k, case=c3, fam=C.CANARY_FAM[fclass], attempts=core_attempts(ver[0] == 2), histories=core_histories(cls, False),
                               announces=core_announces(c3, False), refhost="follow-dac"))
        if t3.get("harness_error") or t3["ev"][-2]["e"] != "Tamper":
            raise Machinery(f"canary: the reference host that follows the announced version failed for {cls} {ver}: {t3.get('harness_error') or json.dumps(t3['ev'][-3:])[:400]}")
        name = f"bad-announce-follow-dac-{cls}-{ver[0]}.{ver[1]}"
        bad.append({"id": name, "ev": t3["ev"]})
        aat[name] = "Announce"
    cgood, cbad, cat = C.canary_traces(credhists)
    sgood, sbad, sat = canary_slots()
    rej, _ = tlc.tv("C15", "DatTrace", [g] + more + cgood + sgood + bad + cbad + sbad)
    want = {b["id"] for b in bad + cbad + sbad}
    if set(rej) != want:
        raise Machinery(f"canary failed: rejected {sorted(rej)}, expected exactly {sorted(want)}")
    wrong = {k: rej[k][2] for k, name in list(cat.items()) + list(sat.items()) + list(aat.items()) if rej[k][2] != name}
    if wrong:
        raise Machinery(f"canary failed: credential-object / slot-list / announcement traces rejected at another step than the corrupted one: {wrong}")
    return (f"{1 + len(more)} traces of the reference host, {len(cgood)} traces of the reference credential object and {len(sgood)} traces of the reference host "
            f"with RoT slots sharing a key accepted, {len(bad) + len(cbad) + len(sbad)} corruptions rejected ({', '.join(sorted(want))})")


def canary_slots():
    """Lane "slots": -> (good traces, bad traces, {id of a bad trace: event it must be rejected at}).  The good ones come from the
    reference host (the twin's own tools, made-up families) for RoT key lists with slots sharing a key; the bad ones are single-field
    corruptions of the first, plus the trace of a reference host that reads every key FILE once and builds its table over what it has
    read (the defect class the lane exists for)."""
    def scenario(k, cls, ver, pat, used, given, fclass, refhost=True):
        case = {"kind": "case", "cls": cls, "ver": ver, "nkeys": len(pat), "used": used, "wild": k % 2 == 1, "lz": "none", "coord": "-", "pat": pat, "given": given}
        return {"lane": "slots", "id": 999800 + k, "case": case, "fam": C.CANARY_FAM[fclass], "attempts": [], "histories": [], "tools": True, "via": "yaml-family",
                "explicit_version": False, "dar_via": "create", "dc_for_dar": "created", "refhost": refhost}

    cells = [("classic", [2, 0], [0, 1, 0], 2, "path", "cb21"), ("ele1", [2, 1], [0, 0, 1, 1], 3, "copy", "ele1"), ("classic", [1, 0], [0, 0, 0, 0], 2, "path", "cb1"),
             ("classic", [2, 1], [0, 0], 1, "copy", "cb21-sha256"), ("classic", [2, 0], [0, 1, 1, 2], 2, "copy", "cb21"), ("classic", [1, 0], [0, 1, 0], 0, "copy", "cb1")]
    good = []
    for k, cell in enumerate(cells):
        t = run_scenario(scenario(k, *cell))
        if t.get("harness_error") or [e["e"] for e in t["ev"][-2:]] != ["CheckRotHash", "Done"]:
            raise Machinery(f"canary: reference host failed for the slot list {cell}: {t.get('harness_error') or json.dumps(t['ev'][-3:])[:400]}")
        good.append({"id": f"good-slots-{cell[0]}-{cell[1][0]}.{cell[1][1]}-{''.join(map(str, cell[2]))}-{cell[4]}", "ev": t["ev"]})
    g = good[0]
    bad, at = [], {}

    def mutate(name, where, fn):
        b = json.loads(json.dumps(g))
        b["id"] = name
        fn({e["e"]: e for e in b["ev"]})
        bad.append(b)
        at[name] = where

    mutate("bad-slots-entries", "CheckRotHash", lambda m: m["CheckRotHash"]["entries"].__setitem__(2, "00" + m["CheckRotHash"]["entries"][1][2:]))  # slots 1 and 3 no longer equal
    mutate("bad-slots-entry-missing", "CheckRotHash", lambda m: m["CheckRotHash"]["entries"].pop())
    mutate("bad-slots-rot-key", "DcKeys", lambda m: m["DcKeys"].update(rotIdx=1))                    # the embedded key is the key of another group of slots
    mutate("bad-slots-files", "Case", lambda m: m["Case"]["slots"]["paths"].__setitem__(2, m["Case"]["slots"]["paths"][2] + ".other"))   # not the same path again
    mutate("bad-slots-keys", "Case", lambda m: m["Case"]["slots"]["keys"].__setitem__(2, m["Case"]["slots"]["keys"][1]))               # not the key list of the case
    mutate("bad-slots-pattern", "Case", lambda m: m["Case"].update(pat=[0, 2, 0]))                                                      # not a pattern
    for k, cell in ((50, cells[0]), (51, cells[4]), (52, cells[2])):
        name = f"bad-slots-read-once-{''.join(map(str, cell[2]))}"
        t = run_scenario(scenario(k, *(cell[:4] + ("path",) + cell[5:]), refhost="read-once"))
        if t.get("harness_error"):
            raise Machinery(f"canary: read-once reference host failed: {t['harness_error']}")
        bad.append({"id": name, "ev": t["ev"]})
        at[name] = "Create" if cell[0] != "classic" or cell[1][0] == 2 else "DcFields"    # ECC: another length; RSA: the table always has four entries - the count is off
    return good, bad, at


def run(tier):
    import_spsdk()
    v = Verdict(PROP, tier)
    r = rng(PROP)

    # ---- anchors: the layouts of the twin are the layouts of the golden artefacts
    bad = D.selftest_anchors(ADIR)
    if bad:
        raise Machinery("device twin disagrees with the anchored artefacts: " + "; ".join(bad))

    # ---- GEN: cases + delivery attempts + histories of the host (DatGen) and histories of one credential object (DatCredGen), side by
    #      side in two forked children; lemmas over all spaces
    from lib.ptv import prun

    gen, cgen = prun([("run", ("C15", "DatGen", "DatGen.cfg"), {"workers": 1, "timeout": 300}),
                      ("run", ("C15", "DatCredGen", "DatCredGen.cfg"), {"workers": 1, "timeout": 300})])
    if gen.violated or not gen.no_error:
        raise Machinery(f"DatGen: lemma {gen.violated} does not hold\n" + "\n".join(gen.out.splitlines()[-30:]))
    v.add_mc(gen)
    if cgen.violated or not cgen.no_error:
        raise Machinery(f"DatCredGen: lemma {cgen.violated} does not hold\n" + "\n".join(cgen.out.splitlines()[-30:]))
    v.add_mc(cgen)
    credhists = [[{"op": o["op"], "f": o["f"]} for o in x["h"]] for x in cgen.json_prints() if x.get("kind") == "credhist"]
    if len(credhists) != 5268 or cgen.distinct != 14809 or len({C.hkey(h) for h in credhists}) != len(credhists):
        raise Machinery(f"DatCredGen emitted {len(credhists)} histories of one credential object over {cgen.distinct} states")
    items = gen.json_prints()
    slotcases = [x for x in items if x["kind"] == "case" and x["given"] != "-"]     # RoT key lists with slots sharing a key: lane "slots"
    cases = [x for x in items if x["kind"] == "case" and x["given"] == "-"]
    attempts = [{k: x for k, x in a.items() if k != "kind"} for a in items if a["kind"] == "attempt"]
    histories = [[{k: s_[k] for k in ("m", "d", "ch", "b")} for s_ in x["h"]] for x in items if x["kind"] == "history"]
    announces = [{k: a[k] for k in ("ver", "d", "rkth", "via")} for a in items if a["kind"] == "announce"]
    n_plain = len([c for c in cases if c["lz"] == "none"])
    n_parts = {n: len({tuple(c["pat"]) for c in slotcases if c["nkeys"] == n}) for n in (2, 3, 4)}
    if (n_plain != 164 or len(cases) != 588 or len(slotcases) != 3192 or n_parts != {2: 1, 3: 4, 4: 14} or len(attempts) != 2304 or len(histories) != 2040
            or len(announces) != 40 or {tuple(a["ver"]) for a in announces} != {tuple(x) for x in VERSIONS} or gen.distinct != len(items)):
        raise Machinery(f"GEN emitted {len(cases)} cases ({n_plain} plain) / {len(slotcases)} cases with slots sharing a key ({n_parts}) / {len(attempts)} attempts / "
                        f"{len(histories)} histories / {len(announces)} announcements / {gen.distinct} states")
    say(f"[C15] GEN done {v.timer.s()}s: {len(cases)} cases ({len(cases) - n_plain} with a leading-zero key), {len(slotcases)} cases with RoT slots sharing a key, "
        f"{len(attempts)} delivery attempts, {len(histories)} histories, {len(announces)} announcements, {len(credhists)} histories of one credential object")
    for ks_ in ("ecc256", "ecc384"):   # the key pool has the shapes the case space names
        for nm, want in (("lzx", "x"), ("lzy", "y"), ("srk0", "-"), ("srk1", "-"), ("srk2", "-"), ("srk3", "-"), ("dck", "-")):
            if shape(D.load_pub(kp(nm, ks_, "pub"))) != want:
                raise Machinery(f"key pool: {nm}_{ks_} has shape {shape(D.load_pub(kp(nm, ks_, 'pub')))}, expected {want}")

    # ---- MC of the protocol in a forked child while the real code runs (forked before any thread exists)
    import multiprocessing as mp

    scratch()
    parent_conn, child_conn = mp.get_context("fork").Pipe(duplex=False)

    def mc_job(conn):
        tlc._counter[0] += 1000  # own metadir names
        try:
            acts = ("Challenge", "MCHostRespond", "DeliverSeen", "DeliverSpliced", "DeliverForged")
            res = [tlc.mc("C15", "DatMC", "DatMC.cfg", timeout=900, heap="8g", workers=4, require_actions=acts)]  # with coverage: every action fires
            if tier == "thorough":  # the deeper run (three host answers, two beacons) without the coverage overhead
                res.append(tlc.mc("C15", "DatMC", "DatMC_thorough.cfg", timeout=2400, heap="12g", workers=12, coverage=False))
            conn.send(("ok", res))
        except Exception as e:  # noqa: BLE001
            conn.send(("err", str(e)))
        conn.close()

    mc_proc = mp.get_context("fork").Process(target=mc_job, args=(child_conn,))
    mc_proc.start()

    fams = dat_families()
    if len({f["family"] for f in fams}) < 60:
        raise Machinery(f"only {len(fams)} DAT families found in the database")
    scs = plan(cases, attempts, fams, tier, r, histories, announces)
    cscs = C.plan(cases, fams, tier, rng(PROP, "cred-plan"), credhists, len(scs))
    sscs = plan_slots(slotcases, fams, tier, rng(PROP, "slots-plan"), len(scs) + len(cscs))
    say(f"[C15] {len(scs)} scenarios over {len({(s['fam']['family'], s['fam']['revision']) for s in scs})} family revisions; credential-object lane: "
        f"{len(cscs)} scenarios, {sum(len(s['chists']) for s in cscs)} histories; slot-list lane: {len(sscs)} scenarios over "
        f"{len({(s['fam']['family'], s['fam']['revision']) for s in sscs})} family revisions")
    order = r.sample(scs + sscs, k=len(scs) + len(sscs))  # spread the expensive (RSA-4096) scenarios over the pool
    order = cscs + order               # the long ones first
    alltr = sorted(pmap(run_scenario, order, chunksize=4), key=lambda t: t["id"])
    traces = [t for t in alltr if t["sc"].get("lane", "main") == "main"]
    ctraces = [t for t in alltr if t["sc"].get("lane") == "cred"]
    straces = [t for t in alltr if t["sc"].get("lane") == "slots"]
    herr = [t for t in alltr if t.get("harness_error")]
    if herr:
        raise Machinery(f"harness error in scenario {herr[0]['sc']['id']} ({herr[0]['sc']['fam']['family']}, {herr[0]['sc']['case']}): {herr[0]['harness_error']}")
    say(f"[C15] executed {v.timer.s()}s")
    kind, res = parent_conn.recv()
    mc_proc.join()
    if kind == "err":
        raise Machinery(f"model checking of Dat failed: {res}")
    for x in res:
        v.add_mc(x)
    say(f"[C15] MC done {v.timer.s()}s: {sum(x.distinct for x in res)} states, {sum(x.generated for x in res)} transitions")
    # non-vacuity of the protocol model: both outcomes of a delivery are reachable
    for inv in ("NeverAccepts", "NeverRejects"):
        nv = tlc.run("C15", "DatMC", f"DatMC_{inv}.cfg", timeout=300)
        if nv.violated != inv:
            raise Machinery(f"DatMC: {inv} should be violated (vacuous model), got {nv.violated}")

    # ---- accounting
    refused, n_att, n_tamper, n_hist, hsteps, hrefused = {}, 0, 0, 0, {}, {}
    n_ann, ann_built, ann_refused = 0, {}, {}
    for t in traces:
        sc = t["sc"]
        v.count(1)
        cell = (sc["case"]["cls"], tuple(sc["case"]["ver"]))
        for e in t["ev"]:
            if e["e"] == "Announce":
                n_ann += 1
                a = e["a"]
                if e["built"]:
                    v.nontrivial(("announce", sc["case"]["cls"], tuple(sc["case"]["ver"]), sc["case"]["wild"], json.dumps(a, sort_keys=True)))
                    k = (ann_class(sc), tuple(sc["case"]["ver"]), tuple(a["ver"]), a["via"])
                    ann_built[k] = ann_built.get(k, 0) + 1
                else:
                    why = e["validate"] if e["parsed"] and e["validate"] != "ok" else "raise:" + e.get("exc", "?")
                    k = f"{ann_class(sc)}/{'same' if list(a['ver']) == sc['case']['ver'] else 'other'}-version/{why}"
                    ann_refused[k] = ann_refused.get(k, 0) + 1
            if e["e"] in ("Create", "Respond") and not e["ok"]:
                refused.setdefault(cell, []).append(f"{sc['fam']['family']}:{e['e']}:{e['exc']}")
            if e["e"] == "Attempt":
                n_att += 1
                v.nontrivial(("attempt", sc["case"]["cls"], sc["case"]["wild"], json.dumps(e["a"], sort_keys=True)))
            if e["e"] == "Tamper":
                n_tamper += 1
            if e["e"] == "History":
                n_hist += 1
                v.nontrivial(("history", sc["case"]["cls"], sc["case"]["ver"][0], sc["case"]["wild"], json.dumps(e["h"], sort_keys=True)))
                for s_, o in zip(e["h"], e["obs"]):
                    if o["ok"]:
                        hsteps[(sc["case"]["cls"], s_["m"])] = hsteps.get((sc["case"]["cls"], s_["m"]), 0) + 1
                    else:
                        hrefused.setdefault(f"{sc['case']['cls']}/{s_['m']}/{o['exc']}", []).append(sc["fam"]["family"])
        if any(e["e"] == "CheckResponseSignature" for e in t["ev"]):
            v.nontrivial(("case", sc["fam"]["fclass"], json.dumps(sc["case"], sort_keys=True)))
    v.count(n_att + n_tamper + sum(hsteps.values()) + sum(ann_built.values()))
    # non-vacuity of the announcement dimension: the host really answered - through each of its entry points - every announced version for every
    # credential version on every family class of the EdgeLock-enclave kind (where a version mismatch is tolerated), and the credential's own
    # version elsewhere
    # (classic P-521 credentials: validate_against_dc itself fails on them - their RoT hash is not defined, DatLayout.RotHashDefined)
    # (evaluated after the verdicts: a tree on which the host cannot read the device's challenges at all is reported, not called a machinery failure)
    acls = [("classic", VERSIONS[:4], ("config", "create"))]
    for fc in sorted({f["fclass"] for f in fams if f["ele"]}):
        acls.append((fc, VERSIONS[2:] if fc.startswith("ele2") else VERSIONS, ("config",) if (fc.startswith("ele2") or fc.endswith("-oldrev")) else ("config", "create")))
    agaps = [(cls_, dcv, av, via_) for cls_, vers_, vias_ in acls
             for dcv in vers_ for av in (VERSIONS if cls_ != "classic" else (dcv,)) for via_ in vias_ if not ann_built.get((cls_, tuple(dcv), tuple(av), via_))]
    # non-vacuity of the history lane: every way of re-using an object was really executed for every response class
    for cls_, modes in (("classic", ("fresh", "cfg", "obj", "again")), ("ele1", ("fresh", "cfg", "obj", "again")), ("ele2", ("fresh", "cfg", "again"))):
        for m_ in modes:
            if not hsteps.get((cls_, m_)):
                raise Machinery(f"no history step '{m_}' was built for class {cls_}: {json.dumps({k: x[:3] for k, x in hrefused.items()})[:600]}")
    # ... and so was the root-of-trust-hash clause on both sides for every key shape
    seen = set()
    for t in traces:
        c_ = t["sc"]["case"]
        for e in t["ev"]:
            if e["e"] == "CheckRotHash" and e["tools"] != "n/a" and (c_["cls"] == "ele2" or e["dc"] != "n/a"):
                seen.add((c_["cls"], tuple(c_["ver"]), c_["lz"], c_["coord"], e["tools2"] != "n/a"))
    for c_ in cases:
        if c_["lz"] != "none" and not any(x[:4] == (c_["cls"], tuple(c_["ver"]), c_["lz"], c_["coord"]) and (x[4] or c_["cls"] != "classic") for x in seen):
            raise Machinery(f"root-of-trust hash of the image tools never evaluated for key shape {c_['lz']}/{c_['coord']} of {c_['cls']} {c_['ver']}")
    cells = {}
    for t in traces:
        cell = (t["sc"]["case"]["cls"], tuple(t["sc"]["case"]["ver"]))
        cells.setdefault(cell, 0)
        cells[cell] += any(e["e"] == "CheckDcSignature" for e in t["ev"])
    empty = [c for c, k in cells.items() if k == 0]
    if empty:
        raise Machinery(f"no credential at all could be created for {empty}: {refused}")
    answered = {(t["sc"]["case"]["cls"], tuple(t["sc"]["case"]["ver"])) for t in traces if any(e["e"] == "CheckResponseSignature" for e in t["ev"])}
    if set(cells) - answered:
        raise Machinery(f"no response at all could be built for {sorted(set(cells) - answered)}: {refused}")
    v.extra.update(refused={f"{c[0]}/{c[1][0]}.{c[1][1]}": x[:5] for c, x in refused.items()}, attempts_executed=n_att, tamper_executed=n_tamper,
                   histories_executed=n_hist, history_steps_built={f"{k[0]}/{k[1]}": x for k, x in sorted(hsteps.items())},
                   history_steps_refused={k: len(x) for k, x in sorted(hrefused.items())},
                   families=len({t["sc"]["fam"]["family"] for t in traces}), family_revisions=len({(t["sc"]["fam"]["family"], t["sc"]["fam"]["revision"]) for t in traces}),
                   announcements_executed=n_ann, announcements_answered=sum(ann_built.values()),
                   announcements_answered_with_other_version={c_: sum(x for k, x in ann_built.items() if k[0] == c_ and k[1] != k[2]) for c_ in sorted({k[0] for k in ann_built})},
                   announcements_version_pairs_answered=len({k[:3] for k in ann_built}), announcements_refused=dict(sorted(ann_refused.items())))

    # ---- the credential-object lane: what was executed (non-vacuity: every class signed again after a change of every field class)
    cstats = C.account(v, ctraces)
    v.extra.update(cred_scenarios=len(ctraces), cred_histories=cstats["histories"], cred_steps=cstats["steps"], cred_exports_decided=cstats["exports_decided"],
                   cred_exports_after_resign=dict(sorted(cstats["exports_after_resign"].items())), cred_parses=cstats["parses"],
                   cred_steps_refused=dict(sorted(cstats["refused"].items())))

    # ---- the slot-list lane: what was executed
    sstats, sgaps = account_slots(v, straces, [s_["case"] for s_ in sscs])
    v.extra.update(slot_list=sstats)

    # ---- canary, then TLC decides every trace
    v.extra["canary"] = canary(credhists)
    say(f"[C15] canary done {v.timer.s()}s")
    good = next((t for t in traces if t["ev"][-2]["e"] == "Tamper" and t["sc"]["case"]["ver"] == [2, 0]), traces[0])
    v.sample({"scenario": good["sc"]["case"], "family": good["sc"]["fam"]["family"], "events": [e for e in good["ev"] if e["e"] not in ("Attempt", "Tamper")][:14]})
    v.sample({"attempts": [e for e in good["ev"] if e["e"] == "Attempt"][:6], "tamper": [e for e in good["ev"] if e["e"] == "Tamper"][:4]})
    e2 = next((t for t in traces if t["sc"]["case"]["cls"] == "ele2" and t["ev"][-2]["e"] == "Tamper"), None)
    if e2:
        v.sample({"scenario": e2["sc"]["case"], "family": e2["sc"]["fam"]["family"],
                  "events": [{k: x for k, x in e.items() if k != "fields"} for e in e2["ev"] if e["e"] not in ("Tamper",)][:16], "tamper": [e for e in e2["ev"] if e["e"] == "Tamper"][:3]})
    lzt = next((t for t in traces if t["sc"]["case"]["lz"] == "other" and t["sc"]["case"]["cls"] == "classic" and any(e["e"] == "CheckRotHash" and e["tools2"] != "n/a" for e in t["ev"])), None)
    if lzt:
        v.sample({"scenario": lzt["sc"]["case"], "family": lzt["sc"]["fam"]["family"], "events": [e for e in lzt["ev"] if e["e"] in ("Case", "DcKeys", "CheckRotHash")]})
    hst = next((t for t in traces if t["sc"]["case"]["cls"] == "ele2" and any(e["e"] == "History" for e in t["ev"])), None)
    if hst:
        v.sample({"scenario": hst["sc"]["case"], "family": hst["sc"]["fam"]["family"], "histories": [e for e in hst["ev"] if e["e"] == "History"][:2]})
    ant = next((t for t in traces if t["sc"]["case"]["cls"] == "ele1" and t["sc"]["case"]["ver"][0] == 2 and t["sc"]["case"]["wild"]
                and any(e["e"] == "Announce" and e["built"] and e["a"]["ver"][0] == 1 and e["a"]["d"] == "d2" for e in t["ev"])), None)
    if ant:
        v.sample({"scenario": ant["sc"]["case"], "family": ant["sc"]["fam"]["family"], "challenge_announces_other_version":
                  [e for e in ant["ev"] if e["e"] == "Announce" and e["built"] and e["a"]["ver"][0] == 1][:2] + [e for e in ant["ev"] if e["e"] == "Announce" and e["a"]["rkth"] == "other"][:1]})
    rsa = next((t for t in traces if t["sc"]["case"]["ver"][0] == 1 and t["sc"]["case"]["wild"] and t["ev"][-2]["e"] == "Tamper"), None)
    if rsa:
        v.sample({"rsa_wildcard_other_device": [e for e in rsa["ev"] if e["e"] == "Attempt" and e["a"]["d"] == "d2" and e["verdict"] == "Accept"][:2]})
    ct = next((t for t in ctraces if t["sc"]["case"]["cls"] == "classic" and t["sc"]["case"]["ver"][0] == 2), None)
    if ct:
        hs = C.histories_of(ct["ev"])
        v.sample({"scenario": ct["sc"]["case"], "family": ct["sc"]["fam"]["family"], "lane": "one credential object",
                  "history": [{k: x for k, x in e.items() if k != "fields"} for e in hs[1][1]] if len(hs) > 1 else []})
    slt = next((t for t in straces if t["sc"]["case"]["cls"] == "classic" and t["sc"]["case"]["ver"][0] == 2 and t["sc"]["case"]["nkeys"] == 3
                and any(e["e"] == "CheckRotHash" for e in t["ev"])), None)
    if slt:
        v.sample({"scenario": slt["sc"]["case"], "family": slt["sc"]["fam"]["family"], "lane": "RoT key list with slots sharing a key",
                  "events": [e for e in slt["ev"] if e["e"] in ("Case", "Create", "DcKeys", "CheckRotHash")]}, limit=7)
    pending, rounds = traces + ctraces + straces, 0
    while pending and rounds < 8:
        rej = {}
        rej.update(validate(v, pending))
        by_id = {t["id"]: t for t in pending}
        # a trace rejected at a check-only step goes round again without that step (the step stays reported)
        pending = [x for x in (continuation(by_id[tid], m[0], rounds) for tid, m in rej.items()) if x]
        rounds += 1
    v.extra["tv_rounds"] = rounds
    say(f"[C15] TV done {v.timer.s()}s")
    reported = list(v.violations) + [x["first_key"] for x in v.seen_known.values()]
    if agaps and not any("/Dac/" in k or k.endswith("/Dac") or "/Announce/" in k for k in reported):
        cls_, dcv, av, via_ = agaps[0]
        raise Machinery(f"announcements: no response was built through '{via_}' by a host holding a {cls_} credential of version {dcv} for a challenge announcing "
                        f"version {av} ({len(agaps)} such gaps): refused = {json.dumps(ann_refused)[:700]}")
    # non-vacuity of the slot-list lane (after the verdicts: a tree that breaks the lane's clauses is reported, not called a machinery failure)
    if sgaps and not any("/slots=" in k for k in list(v.violations) + [x["first_key"] for x in v.seen_known.values()]):
        raise Machinery(f"slot-list lane: the root-of-trust hash was never evaluated (with the image tools where they define one) for {len(sgaps)} "
                        f"(class, version, pattern) cells, e.g. {sgaps[:3]}; refused = {json.dumps(sstats['refused'])[:500]}")

    v.cov["rule"] = (
        f"cases = the 588 abstract credential cases TLC enumerates: 164 plain ones (classic RSA 1.0/1.1, ECC 2.0/2.1/2.2 with 1..4 RoT keys and each used index; "
        f"EdgeLock-enclave credentials of container version 1 (5 key types) and 2 (3 ECC key types) with 4 keys; device-specific and wildcard) x "
        f"{2 if tier == 'quick' else 10} DAT families each (fewer where a class has fewer families), and 424 P-256 / P-384 cases in which the used RoT key, "
        f"another RoT key or the debug key has an X resp. Y coordinate with a leading zero byte x {1 if tier == 'quick' else 3} families (one on which the image "
        f"tools define the RoT hash); every family of the database at least once ({v.extra['families']} families, {v.extra['family_revisions']} revisions); per scenario "
        "the honest exchange, the core substitutions and a round-robin share of the 2304 delivery attempts TLC enumerates, core histories (configuration object / "
        "credential object / response object used again for other challenges, beacons, devices) and a round-robin share of the 2040 histories TLC enumerates "
        "(quick tier: on the plain cases; RSA: core histories only, on every second - RSA-4096: eighth - scenario; key-shape cases with device-specific credentials and the core attempts only), plus one bit flip per field of the response; "
        "announcements: the 40 elements TLC enumerates (announced protocol version x announcing device x RoT hash field holding the fused value / something else x "
        "entry point load_from_config / create) crossed with the credential cases - per scenario the core announcements (per entry point: EVERY announced version from "
        "the credential's device, the other device announcing the credential's version and one of the other kind, another RoT hash field with the credential's version "
        f"and one of the other kind){' on every plain scenario of the EdgeLock-enclave class of container version 1 with an ECC credential and on the first two (RSA-4096: the first) scenarios of every other (class, version, wildcard) cell' if tier == 'quick' else '; ECC credentials: all 40 on every plain scenario; RSA: the core ones on the first 8 (RSA-4096: 4) scenarios of every (class, version, wildcard) cell'}; "
        f"the host is the flow of nxpdebugmbox dat auth (parse, validate_against_dc, build): {v.extra['announcements_executed']} announcements, {v.extra['announcements_answered']} answered "
        f"({json.dumps(v.extra['announcements_answered_with_other_version'])} of them to a challenge announcing ANOTHER version than the credential's; every pair "
        "(credential version, announced version) on every family class of the enclave kind through every entry point - checked), the rest refused by the host; "
        f"credential-object lane: per (class, protocol version) {2 if tier == 'quick' else 8} scenarios (one device-specific, one wildcard credential) on different families, each "
        "running on a NEW object per history the core histories (for EACH settable field class sign - export - set - sign again - export again - parse; unsigned export; "
        "set between two exports; the parsed object changed and signed; two fields; sign / export twice) and a round-robin share of the 5268 histories of up to six "
        f"operations TLC enumerates ({v.extra['cred_histories']} histories, {v.extra['cred_exports_decided']} exports decided); values of a Set drawn from the classes "
        "random / zero / all ones / one bit away from the current value (SoC class: another one the credential classes treat alike; debug key: another key file); "
        f"slot-list lane: the {len(slotcases)} cases TLC enumerates in which the RoT key LIST has slots sharing a key - every partition of 2..4 slots into groups "
        "holding the same key (1 + 4 + 14 patterns) x the way a repeated slot names its key (the very same path again / another file with the same key) x each used "
        "index x every credential class and key type - executed up to the root-of-trust hash (container version 2: up to the delivered response), on families "
        f"on which the image tools define the hash, taken round robin: {'device-specific credentials; all cases for the ECC key types and RSA-2048, for RSA-4096 every pattern once (index and naming rotating)' if tier == 'quick' else 'device-specific and wildcard credentials, all cases (RSA-4096 wildcard: every pattern once)'} "
        f"= {v.extra['slot_list']['scenarios']} scenarios, {v.extra['slot_list']['rot_hash_compared_with_image_tools']} of them with the image tools' value; "
        "distinct = (family class, case), (class, wildcard, attempt), (class, key type, wildcard, history), (credential class, history of one object) and "
        "(family class, slot-list case)"
    )
    v.cov["checker_cmd"] = ("TLC DatGen (cases incl. slot patterns, attempts, histories of the host, announcements, lemmas) ; TLC DatCredGen (histories of one credential object, lemmas) ; "
                            "TLC DatMC (protocol invariants) ; TLC DatTrace (decides every trace)")
    v.cov["trusted_base"] = ["TLC", "cryptography: RSA PKCS#1 v1.5 / PSS verify, ECDSA verify, PEM key loading - called directly", "hashlib (SHA-256/384/512)",
                             "harness/c15_dev.py walkers; layouts anchored on 5 golden credentials + 3 challenges of tests/dat/data (container v2: documentation tables only)"]
    v.assumptions += [
        "EdgeLock enclave, container version 2 (AHAB certificate + signed message; mimx943, mimx9596 b0): no golden artefact exists, the layout follows the format "
        "tables in the documentation strings of spsdk/image/ahab; ECC key types only (with RSA keys SPSDK's own verifier refuses the response); honest exchange, "
        "RoT hash, both signatures and bit flips are asserted, the substitution attempts are not enumerated for this class (the debug-key signature does not cover "
        "the certificate by container format, and the meaning of the 64-bit message UUID is not documented offline)",
        "the root-of-trust-hash clause is asserted where the image side defines a value: RSA on cert-block-v1 families, P-256/P-384 on cert-block-v2.1 "
        "families, SRK table on enclave families; for P-521 (2.2) no certificate block exists: the clause is not asserted and RoT table entries are taken to be "
        "SHA-512 digests (64 bytes), the only hash SPSDK's own table names for that key size (no anchor)",
        "DAC root-of-trust hash length per family class is taken from the database flags (based_on_ele, dat_is_using_sha256_always)",
        "debug key and RoT keys are of the same type; RSA public exponent 65537; authentication beacons are 16-bit values as documented; the credential beacon, vendor usage and SoC usage are the 32-bit words of the format (value classes at and above the 8 / 16 / 31-bit boundaries, dealt per credential class)",
        "histories: the host answers through DebugAuthenticateResponse.load_from_config (a new configuration dictionary, or the SAME dictionary again with only "
        "its own `beacon` entry set by the caller), DebugAuthenticateResponse.create (the credential object it holds already) and export() of a response object "
        "it holds already; assigning to attributes of a finished response object (dar.dac = ..., dar.auth_beacon = ...) is not a way of building a response the "
        "property talks about and is not asserted; a step SPSDK refuses builds nothing (counted in coverage.history_steps_refused)",
        "histories of one credential object: Set = assignment to the public attributes socc / uuid / cc_socu / cc_vu / cc_beacon / dck_pub (container version 2: "
        "the documented property setters socc / socu / beacon; its `uuid` attribute is a copy the certificate does not read - not a field the class lets the "
        "user set) followed by sign(); the API does not forbid changing a credential after signing (sign() = 'Sign the DC data', export() = 'call the `sign` method "
        "first'). NOT asserted: an export after a Set WITHOUT a sign() in between (and anything parsed from it, and the signature the object holds until the next "
        "sign()); whether sign() of an object parsed from bytes (no signature provider) is refused - but a sign() that returns must have signed (container "
        "version 2 excepted: its signature container documents that it keeps the raw signature it was parsed with when it has no key, so a parsed v2 credential "
        "that is changed and 'signed' exports a stale signature - observation, not reported); a step SPSDK refuses changes nothing (coverage.cred_steps_refused)",
        "key shapes: leading-zero coordinates are asked for P-256 / P-384 (keys derived once, keys/c15/gen_lz.py); the P-521 keys of the pool have the shape anyway, "
        "an RSA modulus has none; the second image-tool path (certificate block v2.1 over the same key files) exists for the classic ECC credentials only",
        "RoT key lists with slots sharing a key (lane 'slots'): 'RoT key sets of 1..4 keys' is read as the list of 1..4 key SLOTS the credential, the certificate "
        "block and the SRK table have - the image tools (the C03 value the credential must agree with) take a list and hash one entry per slot, and the reference "
        "is hashlib over the fixed-width key material of every slot; a repeated slot names its key by the same path again or by another public-key file with the "
        "same content (the same key as private-key file / certificate / other encoding is not varied); these lists run with keys without leading-zero coordinates, "
        "without the response part (container version 2 excepted, where the SRK table travels in the response: every SRK record commits to its slot number, so "
        "the equality pattern of the table entries is asserted for the other classes only); a list SPSDK refuses creates nothing (coverage.slot_list.refused)",
        "a configuration SPSDK refuses creates nothing and is outside the property (counted in coverage.refused)",
        "announcements: the device's challenge announces its own protocol version, UUID and RoT hash field, which need not be the credential's; the host is "
        "the flow of `nxpdebugmbox dat auth` - DebugAuthenticationChallenge.parse, validate_against_dc(family, credential), then load_from_config / create - and "
        "a challenge validate_against_dc refuses (version mismatch outside the EdgeLock-enclave families, another UUID than a device-specific credential's, a "
        "RoT hash mismatch on most families, counted in coverage.announcements_refused) builds nothing: what load_from_config / create would do with a refused "
        "challenge is NOT asserted. For an answer that is built the R-spec device reads the response along the CREDENTIAL it carries (its version field says "
        "how long it is, of which type the debug key is and whether a UUID follows the beacon) - the device twin has always done so; a device that would parse "
        "the response along the version it announced itself is not the model. A challenge announcing another SoC class is not enumerated (no host flow "
        "tolerates it and a device of another class rejects the credential anyway); the RoT hash field is an announced value only - the device's fuses stay "
        "the credential's root of trust; container version 2: the credential has no protocol version (SPSDK hands out a dummy 2.0), every announced version "
        "is crossed with the three ECC key types",
        "RSA versions: the response is not bound to the device UUID by protocol definition (stated in DatTerms, not reported)",
    ]
    return v.finish()


def replay(path):
    import fnmatch

    from lib.verdict import load_known

    import_spsdk()
    w = json.load(open(path))["witness"]
    t = run_scenario(w["sc"])
    if t.get("harness_error"):
        raise Machinery(t["harness_error"])
    known = [k["key"] for k in load_known() if k.get("property") == PROP and k.get("status") == "known"]
    bad, rounds = 0, 0
    while t and rounds < 8:
        rej, _ = tlc.tv("C15", "DatTrace", [{"id": t["id"], "ev": t["ev"]}])
        if not rej:
            break
        matched = list(rej.values())[0][0]
        key = finding_key(t, matched)
        ev = json.dumps(t["ev"][min(matched, len(t["ev"]) - 1)])[:400]
        if any(fnmatch.fnmatchcase(key, k) for k in known):
            say(f"KNOWN-FINDING: property=C15 {key}: {ev}")
        else:
            bad += 1
            say(f"VIOLATION property=C15 replay={path}")
            say(f"  key={key}: rejected at event {matched + 1}: {ev}")
        t = continuation(t, matched, rounds)
        rounds += 1
    if bad:
        return 1
    say("replay: trace accepted by the R-spec" + (" (apart from known findings)" if rounds else ""))
    return 0
