"""C01 - Master Boot Image: parse(export(x)) = x, re-export reproduces every byte outside the signature, the header describes the bytes.

spec/C01/Mbi.tla      : R-spec of the FORMAT - the image as a sequence of regions derived from the mixin composition (the compositions are
                        read from the device database at run time), the four ROM-owned words as a record, the reader's cuts, the clauses
spec/C01/MbiMC.tla    : MC + GEN - TLC checks the region algebra for every composition x abstract input class and prints every case
spec/C01/MbiTrace.tla : TV - TLC decides every observation of the real builder / parser
spec/C01/MbiRange.tla : MC + GEN of the clause Carried (Mbi.tla "what a header field can hold"): per composition x numeric header field x value class
                        of a request (0, 1, top of the field, top + 1, too wide, beyond 32 bits); asked of the real builder by c01_range.py through both
                        entry points, decided by the same MbiTrace (Request / Outcome): refused or carried, never accepted-and-altered
spec/C01/MbiHist.tla  : MC + GEN of the history layer (Mbi.tla "the object's history"): all short action sequences on ONE object;
                        replayed by c01_hist.py, decided by the same MbiTrace (action events move the settings)

This module only DRIVES the real code (load_from_config route and class-constructor route, every family incl. predecessor names),
reads numbers off the emitted bytes / parsed objects with struct / hashlib-free byte comparisons, and hands traces to TLC.
"""
import json
import os
import struct

from lib import mbi_build as B
from lib import partlc, tlc
from lib.common import ROOT, Machinery, import_spsdk, rng, say, scratch
from lib.par import pmap
from lib.verdict import Verdict

import c01_hist as H  # noqa: E402
import c01_range as RG  # noqa: E402

PROP = "C01"
MARKER = 0x4C54424C
ROM_WORDS = (0x20, 0x24, 0x28, 0x34)


def limbs(n):
    n = int(n) & 0xFFFFFFFF
    return [n >> 16, n & 0xFFFF]


# ------------------------------------------------------------------ concretisation of an abstract case
def concretise(case, member, idx, route, r=None):
    """Abstract input x (+ member) -> concrete option set. All random content is derived from (VERIF_SEED, idx)
    (or drawn from the generator `r` handed in: the history lane concretises several settings records per case)."""
    x = case["x"]
    r = r or rng(PROP, "case", idx)
    app = bytearray(r.randbytes(x["appLen"]))
    app[0:12] = struct.pack("<3I", 0x20000000 + 4 * r.randrange(1, 0x4000), 0x101 + 2 * r.randrange(0x1000), 0x2001 + 2 * r.randrange(0x1000))
    if x["tail"] == "marker":  # the payload ends in something that resembles the header of a relocation table
        app[-16:] = struct.pack("<4I", MARKER, 0, 1, 0x100)
    o = B.Opts(app=bytes(app), tz=x["tz"] if x["tz"] != "none" else None, hwkey=x["hwKey"], img_ver=x["imgVer"], sub=x["sub"], fw_ver=x["fwVer"],
               load=(x["load"][0] << 16) | x["load"][1], certdir=os.path.join(scratch(), "c01", "certs"), variant=idx)
    if x["tz"] == "custom":
        if idx % 2 == 0:  # dictionary / YAML form: about half of the registers customised, the others keep the database presets
            o["tz_customs"], o["tz_data"] = B.tz_customs(member, r)
        else:             # binary preset file
            o["tz_data"] = r.randbytes(x["tzLen"])
    if x["ks"]:
        o["ks"] = r.randbytes(1424)
    if x["relocs"]:
        o["relocs"] = [(r.randbytes(n), 0x30000000 + 0x1000 * i + 4 * r.randrange(256)) for i, n in enumerate(x["relocs"])]
    if x["kind"] != "none":
        o["cert"] = x["kind"]
    if x["digestOpt"] != "none":
        o["digest"] = x["digestOpt"]
    if B.has(member, "HmacMandatory"):
        o["hmac_key"] = r.randbytes(32).hex()
    if B.has(member, "CtrInitVector"):
        o["iv"] = r.randbytes(16)
    if member["sub_labels"] and x["sub"]:
        o["sub_label"] = member["sub_labels"]
    return o


def pad4(b):
    return b + bytes(-len(b) % 4)


# ------------------------------------------------------------------ observation of the real code
def observe(job):
    """One case on the real builder/parser -> {"h": header trace, "p": parse trace, "meta": ...} or a refusal record."""
    import shutil

    try:
        return _observe(job)
    finally:
        shutil.rmtree(os.path.join(scratch(), "c01", f"w{job['idx']}{job['route']}"), ignore_errors=True)


def header_events(data, o, member):
    """HeaderDescribes on real bytes: everything is read from the emitted image with struct / byte search (no SPSDK code)."""
    total, flags, w28, load = B.header_words(data)
    tzd, ks, iv = o.get("tz_data"), o.get("ks"), o.get("iv")
    apad = pad4(o["app"])
    h = [
        {"ev": "ExpLen", "len": len(data), "total": limbs(total)},
        {"ev": "ExpFlags", "type": flags & 0x3F, "sub": (flags >> 6) & 3, "rsvd": (flags >> 8) & 3, "hasVer": bool(flags & 0x400), "reloc": bool(flags & 0x800),
         "hwKey": bool(flags & 0x1000), "tz": (flags >> 13) & 3, "ks": bool(flags & 0x8000), "ver": (flags >> 16) & 0xFFFF},
        {"ev": "ExpW28", "w": limbs(w28), "crcOk": B.crc32_mpeg2(data[:0x28] + data[0x2C:]) == w28, "certAt": B.find_cert_headers(data)},
        {"ev": "ExpLoad", "load": limbs(load)},
        {"ev": "ExpLayout",
         "tz": data.find(tzd) if tzd else -1,
         "ks": data.find(ks) if ks else -1,
         "iv": data.find(iv) if iv else -1,
         "relhdr": data.rfind(struct.pack("<3I", MARKER, 0, len(o["relocs"]))) if o.get("relocs") else -1,
         "apptail": data.find(apad[64:]) if len(apad) >= 80 else -1},
    ]
    if o.get("relocs"):
        h.append(reloc_event(data, o))
    if B.has(member, "ManifestCrc") or B.has(member, "ManifestDigest"):
        h.append(manifest_event(data, o))
    return h


def _observe(job):
    case, member, idx, route = job["case"], job["member"], job["idx"], job["route"]
    x = case["x"]
    o = concretise(case, member, idx, route)
    wd = os.path.join(scratch(), "c01", f"w{idx}{route}")
    cls_rec = {"id": case["c"], "type": member["type"], "mixins": member["mixins"]}
    meta = {"idx": idx, "route": route, "twin": member.get("twin", "self"), "member": {k: member[k] for k in ("family", "revision", "target", "auth", "cls")}, "c": case["c"], "x": x}
    try:
        mbi, _ = (B.build_config if route == "cfg" else B.build_ctor)(member, o, wd)
        data = mbi.export()
    except Exception as e:  # noqa: BLE001 - the builder does not accept this option set: outside the property's quantifier
        return {"refused": f"{type(e).__name__}: {str(e)[:160]}", "meta": meta}
    head = {"ev": "Build"}
    apad = pad4(o["app"])
    h = [head] + header_events(data, o, member)
    # ---- parse trace
    p = [head]
    parsed = None
    try:
        parsed = B.parse_image(member, data, o)
        p.append({"ev": "ParseOk", "ok": True, "exc": ""})
    except Exception as e:  # noqa: BLE001 - decided by the spec
        p.append({"ev": "ParseOk", "ok": False, "exc": type(e).__name__, "msg": str(e)[:200]})
    if parsed is not None:
        try:
            p += parse_events(parsed, member, o, data, apad)
        except Exception as e:  # noqa: BLE001 - a parsed object that cannot even be inspected
            p.append({"ev": "ParseApp", "len": -1, "diffWords": [], "romWordsZero": False, "exc": f"{type(e).__name__}: {str(e)[:120]}"})
        else:
            p.append(reexport_obj(parsed, member, o, data))
            p.append(reexport_cfg(parsed, member, o, data, wd))
    meta["len"] = len(data)
    return {"h": {"cls": cls_rec, "x": x, "ev": h}, "p": {"cls": cls_rec, "x": x, "ev": p}, "meta": meta}


def reloc_event(data, o):
    """The relocation table as the ROM would read it: header found by its marker, entries right in front of it (struct only)."""
    n = len(o["relocs"])
    at = data.rfind(struct.pack("<3I", MARKER, 0, n))
    if at < 16 * n:
        return {"ev": "ExpReloc", "found": False, "ptr": -1, "hdrAt": -1, "ents": [], "imgAt": [], "dstOk": False}
    (ptr,) = struct.unpack_from("<I", data, at + 12)
    ents = [struct.unpack_from("<4I", data, at - 16 * (n - i)) for i in range(n)]
    small = lambda z: z if z < 2**31 else -1  # noqa: E731
    return {"ev": "ExpReloc", "found": True, "ptr": small(ptr), "hdrAt": at, "ents": [[small(e[0]), small(e[2]), small(e[3])] for e in ents],
            "imgAt": [data.find(img) for img, _ in o["relocs"]], "dstOk": all(e[1] == dst for e, (_, dst) in zip(ents, o["relocs"]))}


def manifest_event(data, o):
    """The image manifest behind the certificate block, decoded with struct; digest / CRC recomputed with hashlib / the table CRC."""
    import hashlib

    certs = B.find_cert_headers(data)
    at = data.find(b"imgm", certs[0]) if certs else -1
    if at < 0 or at + 20 > len(data):
        return {"ev": "ExpManifest", "at": -1, "fw": -1, "total": -1, "flags": [0, 0], "crcOk": False, "digestOk": False}
    _, _, fw, total, flags = struct.unpack_from("<4s4I", data, at)
    crc_ok = total >= 24 and at + total <= len(data) and B.crc32_mpeg2(data[: at + total - 4]) == struct.unpack_from("<I", data, at + total - 4)[0]
    dlen = {1: 32, 2: 48, 3: 64}.get(flags & 0xF, 0) if flags >> 31 else 0
    dig_ok = False
    if dlen:
        pre = data[: len(data) - dlen - B.v21_sig_len(o["cert"])]
        dig_ok = hashlib.new({32: "sha256", 48: "sha384", 64: "sha512"}[dlen], pre).digest() == data[-dlen:]
    return {"ev": "ExpManifest", "at": at, "fw": fw if fw < 2**31 else -1, "total": total if total < 2**31 else -1, "flags": limbs(flags), "crcOk": bool(crc_ok), "digestOk": dig_ok}


def parse_events(q, member, o, data, apad):
    pa = q.app if isinstance(getattr(q, "app", None), (bytes, bytearray)) else b""
    n = min(len(pa), len(apad))
    dw = [i for i in range(0, n, 4) if pa[i:i + 4] != apad[i:i + 4]][:12]
    ev = [{"ev": "ParseApp", "len": len(pa), "diffWords": dw, "romWordsZero": len(pa) >= 0x38 and all(pa[w:w + 4] == bytes(4) for w in ROM_WORDS)}]
    tz = getattr(q, "trust_zone", None)
    if tz is None:
        ev.append({"ev": "ParseTz", "kind": "none", "dataEq": False})
    else:
        kind = tz.type.label.lower()
        ev.append({"ev": "ParseTz", "kind": kind, "dataEq": kind == "custom" and tz.export() == o.get("tz_data")})
    ev.append({"ev": "ParseWords", "load": limbs(getattr(q, "load_address", 0) or 0), "imgVer": int(getattr(q, "image_version", 0) or 0),
               "sub": int(getattr(q, "image_subtype", 0) or 0), "hwKey": bool(getattr(q, "user_hw_key_enabled", False))})
    ksd = q.key_store.export() if getattr(q, "key_store", None) else b""
    ev.append({"ev": "ParseKs", "present": len(ksd) > 0, "dataEq": bool(o.get("ks")) and ksd == o.get("ks")})
    tab = getattr(q, "app_table", None)
    ents = list(tab.entries) if tab else []
    want = o.get("relocs") or []
    ev.append({"ev": "ParseReloc", "sizes": [len(e.image) for e in ents],
               "dataEq": len(ents) == len(want) and all(e.image == w[0] and e.dst_addr == w[1] and e.is_load for e, w in zip(ents, want))})
    man = getattr(q, "manifest", None)
    dig = 0
    if man is not None and getattr(man, "digest_hash_algo", None) is not None:
        dig = man.get_hash_size(man.digest_hash_algo)
    cert_eq = False
    cb = getattr(q, "cert_block", None)
    if cb is not None:
        exp = cb.export()
        # v1 header word 20..23 (image length) is derived at export time and not a setting: masked
        mask = (lambda b: b[:20] + bytes(4) + b[24:]) if B.has(member, "CertBlockV1") else (lambda b: b)
        cert_eq = any(mask(data[at:at + len(exp)]) == mask(exp) for at in B.find_cert_headers(data))
    ev.append({"ev": "ParseMisc", "fwVer": int(getattr(q, "firmware_version", 0) or 0) if man is not None else 0, "digest": dig, "certEq": cert_eq,
               "ivEq": bool(o.get("iv")) and getattr(q, "ctr_init_vector", None) == o.get("iv")})
    return ev


def reexport_obj(parsed, member, o, data):
    try:
        B.reattach_keys(parsed, member, o)
        d2 = parsed.export()
        return {"ev": "ReObj", "ok": True, "exc": "", "len": len(d2), "diffs": B.diff_ranges(data, d2)}
    except Exception as e:  # noqa: BLE001
        return {"ev": "ReObj", "ok": False, "exc": type(e).__name__, "msg": str(e)[:200], "len": -1, "diffs": []}


def reexport_cfg(parsed, member, o, data, wd):
    """create_config -> completed with the same key paths -> get_mbi_class + load_from_config -> export."""
    from spsdk.image.mbi.mbi import get_mbi_class

    out = os.path.join(wd, "recfg")
    try:
        os.makedirs(out, exist_ok=True)
        cfg = dict(parsed.create_config(out))
        if "certBlock" in cfg:
            cfg["certBlock"] = B.cert_cfg_file(o["cert"], o.certdir)
            cfg["signPrivateKey"] = B.sign_key(o["cert"])
        if "outputImageEncryptionKeyFile" in cfg:
            cfg["outputImageEncryptionKeyFile"] = o.hmac_key or B.USER_KEY_HEX
        cfg["family"] = member["family"]
        cls = get_mbi_class(cfg)
        m2 = cls()
        m2.load_from_config(cfg, search_paths=[out])
        d3 = m2.export()
        return {"ev": "ReCfg", "ok": True, "exc": "", "len": len(d3), "diffs": B.diff_ranges(data, d3)}
    except Exception as e:  # noqa: BLE001
        return {"ev": "ReCfg", "ok": False, "exc": type(e).__name__, "msg": str(e)[:200], "len": -1, "diffs": []}


# ------------------------------------------------------------------ finding keys
CLAUSE = {"Exp": "HeaderDescribes", "Par": "RoundTrip", "ReO": "ReExport", "ReC": "ReExport", "Bui": "Build"}


def features(x, twin="self"):
    ln = "lt64" if x["appLen"] < 64 else "eq64" if x["appLen"] == 64 else "gt64"
    return f"tz={x['tz']},relocs={len(x['relocs'])},tail={x['tail']},len={ln},ks={int(x['ks'])},dig={x['digestOpt']},twin={twin}"


def twin_of(member, mem):
    """Input feature read from the database: the FIRST class of the family's `images` table with the same image type word.
    'self' if that is this class, else the data mixins it lacks (-) / has in addition (+): an image of this class cannot be told from it by its type."""
    same = [m for m in mem if m["family"] == member["family"] and m["revision"] == member["revision"] and m["type"] == member["type"]]
    first = same[0]
    if first["cls"] == member["cls"] or first["mixins"] == member["mixins"]:
        return "self"
    own, other = set(member["mixins"]), set(first["mixins"])
    d = "".join(f"-{a}" for a in sorted(own - other)) + "".join(f"+{a}" for a in sorted(other - own))
    return d or "self"


def key_of(trace, matched, meta):
    ev = trace["ev"][min(matched, len(trace["ev"]) - 1)]
    name = ev["ev"]
    detail = ""
    if name == "ParseOk":
        detail = f":exc={ev.get('exc')}"
    elif name in ("ReObj", "ReCfg"):
        if not ev["ok"]:
            detail = f":exc={ev['exc']}"
        elif ev["len"] != meta.get("len"):
            detail = ":len"
        elif ev["diffs"]:
            d0 = ev["diffs"][0][0]
            detail = f":diff@hdr+{d0 & ~3:#x}" if d0 < 0x40 else ":diff@body"
    elif name == "ParseWords" and ev["load"] == [0, 0]:
        detail = ":load=0"
    return f"C01/{meta['c']}/{CLAUSE.get(name[:3], name)}/{name}{detail}/{features(meta['x'], meta.get('twin', 'self'))}"


# ------------------------------------------------------------------ case selection
def select(cases, r, quota_base):
    """Per composition: a seeded sample that contains every value of every input field at least once."""
    by = {}
    for c in cases:
        by.setdefault(c["c"], []).append(c)
    out = []
    for cid, lst in by.items():
        r.shuffle(lst)
        quota = min(len(lst), quota_base + len(lst) // 24)
        need = set()
        for c in lst:
            for k, val in c["x"].items():
                need.add((k, json.dumps(val)))
        chosen, rest = [], []
        for c in lst:
            got = {(k, json.dumps(val)) for k, val in c["x"].items()} & need
            if got:
                need -= got
                chosen.append(c)
            else:
                rest.append(c)
        chosen += rest[: max(0, quota - len(chosen))]
        out += chosen
    return out


def sub_labels(member):
    if not B.has(member, "ImageSubType"):
        return None
    return "recovery" if member["resolved"].startswith("mcxn") else "nbu"


def order_members(mem):
    """One member per distinct (TrustZone block size, latest revision?, predecessor name?) signature first, then the others."""
    seen, first, rest = set(), [], []
    for m in mem:
        sig = (B.mtz_len(m), m["revision"] == "latest", m["family"] == m["resolved"])
        (rest if sig in seen else first).append(m)
        seen.add(sig)
    return first + rest


def plan(cases, comps, r, tier, allmem):
    """Attach a member (family, target, authentication) and a route to every selected case: members rotate so that every image the
    database offers is built; custom TrustZone needs a family with preset data."""
    by_id = {c["id"]: c for c in comps}
    turn = {}
    jobs = []
    for n, case in enumerate(cases):
        comp = by_id[case["c"]]
        custom = case["x"]["tz"] == "custom"
        mem = order_members([m for m in comp["members"] if B.mtz_len(m) > 0] if custom else comp["members"])
        if not mem:
            continue
        k = turn.get((case["c"], custom), 0)
        turn[(case["c"], custom)] = k + 1
        member = dict(mem[k % len(mem)])
        member["sub_labels"] = sub_labels(member)
        member["twin"] = twin_of(member, allmem)
        x = dict(case["x"])
        if x["tz"] == "custom":
            x["tzLen"] = B.mtz_len(member)
        routes = ("cfg", "ctor") if tier == "thorough" else (("cfg", "ctor")[(k // len(mem) + k) % 2],)
        for route in routes:
            jobs.append({"case": {"c": case["c"], "x": x}, "member": member, "idx": n, "route": route})
    return jobs


# ------------------------------------------------------------------ run
def write_tables(comps):
    d = os.path.join(scratch(), "c01")
    os.makedirs(d, exist_ok=True)
    cf, kf = os.path.join(d, "classes.ndjson"), os.path.join(d, "kinds.ndjson")
    with open(cf, "w") as f:
        for c in comps:
            f.write(json.dumps({"id": c["id"], "type": c["type"], "mixins": c["mixins"]}) + "\n")
    with open(kf, "w") as f:
        for k in B.V1_KINDS:
            f.write(json.dumps({"name": k, "ver": "v1", "certLen": B.v1_cert_len(k), "sigLen": B.v1_sig_len(k), "iskLen": 0}) + "\n")
        for k in B.V21_KINDS:
            f.write(json.dumps({"name": k, "ver": "v21", "certLen": B.v21_cert_len(k), "sigLen": B.v21_sig_len(k), "iskLen": B.v21_isk_sig(k)[1]}) + "\n")
    certdir = os.path.join(d, "certs")
    for k in list(B.V1_KINDS) + list(B.V21_KINDS):  # written before forking: every worker sees the same files
        B.cert_cfg_file(k, certdir)
    return cf, kf


def gh_roots(gh):
    """Number of initial states of a MbiHist run (each prints the menu of its composition once)."""
    return sum(1 for p in gh.json_prints() if "menu" in p)


def decide(traces):
    """TLC decides every event of every trace; -> list of (trace id, event index (1-based), trace length, event name)."""
    _, res = tlc.tv("C01", "MbiTrace", traces, heap="8g", timeout=1500)
    stuck = res.tuples("STUCK")
    if stuck:
        raise Machinery(f"traces not consumed by the trace spec (harness error): {stuck[:5]}")
    return [tuple(t) for t in res.tuples("REJ")]


def canary():
    """Recorded traces of three real images (anchors/C01/canary_traces.json: CRC XIP with custom TrustZone, v2.1 signed with ISK and manifest,
    encrypted load-to-RAM with key store - recorded once on the pinned tree, so the canary does not depend on the tree under test)
    must be accepted; the same traces with ONE corrupted number each must be rejected at exactly that event."""
    with open(os.path.join(ROOT, "anchors", "C01", "canary_traces.json")) as f:
        rec = json.load(f)
    good, bad, expect = [], [], set()
    corr = [("h", "ExpLen", "len", lambda z: z + 4), ("h", "ExpFlags", "type", lambda z: z ^ 1), ("h", "ExpFlags", "ver", lambda z: z + 1),
            ("h", "ExpW28", "w", lambda z: [z[0], z[1] ^ 4]), ("h", "ExpW28", "crcOk", lambda z: False), ("h", "ExpLoad", "load", lambda z: [z[0] ^ 1, z[1]]),
            ("h", "ExpLayout", "tz", lambda z: z + 4), ("h", "ExpLayout", "iv", lambda z: z - 16), ("h", "ExpManifest", "fw", lambda z: z + 1),
            ("p", "ParseApp", "len", lambda z: z - 4), ("p", "ParseApp", "diffWords", lambda z: z + [48]), ("p", "ParseTz", "kind", lambda z: "disabled"),
            ("p", "ParseWords", "imgVer", lambda z: z + 1), ("p", "ParseKs", "dataEq", lambda z: False), ("p", "ParseMisc", "fwVer", lambda z: z + 1),
            ("p", "ReObj", "diffs", lambda z: z + [[60, 61]]), ("p", "ReCfg", "len", lambda z: z + 4)]
    for i, c in enumerate(rec):
        for part in ("h", "p"):
            good.append(dict(c[part], id=f"good-{i}{part}"))
        for part, evn, field, f in corr:
            t = json.loads(json.dumps(c[part]))
            hit = [k for k, e in enumerate(t["ev"]) if e["ev"] == evn and field in e]
            if not hit:
                continue
            e = t["ev"][hit[0]]
            old = e[field]
            e[field] = f(old)
            if e[field] == old or (evn == "ExpW28" and field == "w" and c["h"]["cls"]["type"] in (2, 5)) or \
                    (evn == "ExpW28" and field == "crcOk" and c["h"]["cls"]["type"] not in (2, 5)) or (field in ("tz", "iv") and old < 0) or \
                    (evn == "ParseKs" and not c["h"]["x"]["ks"]):
                continue  # this number is not constrained for this image type
            t["id"] = f"bad-{i}{part}-{evn}.{field}"
            bad.append(t)
            expect.add((t["id"], hit[0] + 1, evn))
    nh = canary_histories(good, bad, expect)
    nr, nrc = RG.canary(good, bad, expect)
    rej = decide(good + bad)
    # a history judged against settings it no longer has is wrong in several events: only the first one (the length word) is demanded exactly
    got = {(r[0], r[1], r[3]) for r in rej if not (r[0].endswith("-nochange") and (r[0], r[1], r[3]) not in expect)}
    if got != expect or len(expect) < 30 + 3 * nh + nrc:
        raise Machinery(f"canary failed: unexpected {sorted(got - expect)[:6]}, missed {sorted(expect - got)[:6]} ({len(expect)} corruptions)")
    return (f"{len(good) - nh - nr} recorded traces of 3 real images, {nh} recorded histories of one object and {nr} recorded requests at / above the top of a header "
            f"field accepted, {len(expect)} single-number corruptions rejected at the corrupted event (among them: the length word of the export BEFORE the "
            f"change kept in the export after it; a refused request turned into 'built with the low bits of the number')")


def canary_histories(good, bad, expect):
    """Recorded histories of four real objects (anchors/C01/canary_hist.json: application replaced, key store added, configured again, TrustZone
    preset set on a parsed object) must be accepted; rejected must be: the SECOND export carrying the length word of the first one (the stale-word
    class), the second export's length / layout numbers of the first, a fresh twin that differs in a header word or in length, and a history
    whose change is not in the trace (judged against the old settings)."""
    with open(os.path.join(ROOT, "anchors", "C01", "canary_hist.json")) as f:
        rec = json.load(f)
    for i, c in enumerate(rec):
        t = c["t"]
        good.append(dict(t, id=f"goodH-{i}"))
        exp_at = [k for k, e in enumerate(t["ev"]) if e["ev"] == "Export"]
        first, second = exp_at[-2], exp_at[-1]

        def ev_after(at, name):
            return next(k for k in range(at, len(t["ev"])) if t["ev"][k]["ev"] == name)

        def variant(tag, at, field, value):
            u = json.loads(json.dumps(t))
            if u["ev"][at][field] == value:
                return
            u["ev"][at][field] = value
            u["id"] = f"badH-{i}-{tag}"
            bad.append(u)
            expect.add((u["id"], at + 1, u["ev"][at]["ev"]))

        l1, l2 = ev_after(first, "ExpLen"), ev_after(second, "ExpLen")
        variant("stale-total", l2, "total", t["ev"][l1]["total"])
        variant("stale-len", l2, "len", t["ev"][l1]["len"])
        f2 = ev_after(second, "Fresh")
        variant("fresh-hdr", f2, "diffs", [[0x20, 0x24]])
        variant("fresh-len", f2, "len", t["ev"][f2]["len"] + 4)
        # the change itself left out of the trace: the export after it no longer fits the settings
        chg = next(k for k in range(first, second) if t["ev"][k]["ev"] in H.HIST_EVENTS - {"Export", "Parse"})
        u = json.loads(json.dumps(t))
        del u["ev"][chg]
        u["id"] = f"badH-{i}-nochange"
        bad.append(u)
        expect.add((u["id"], l2, "ExpLen"))
    return len(rec)


def run(tier):
    import_spsdk()
    v = Verdict(PROP, tier)
    r = rng(PROP)
    os.chdir(scratch())
    mem = B.members()
    comps = B.compositions(mem)
    cf, kf = write_tables(comps)
    for m in mem:  # warm the database caches (TrustZone presets) before forking
        B.mtz_len(m)
    say(f"[C01] device database: {len(mem)} images in {len({(m['family'], m['revision']) for m in mem})} (family name, revision) pairs, {len(comps)} distinct mixin compositions ({v.timer.s()}s)")

    # ---- MC + GEN (single images, histories of one object, and the design variant "total length worked out once" that TLC must refute)
    base_env = {"CLASS_FILE": cf, "KINDS_FILE": kf, "GEN_FULL": "1" if tier == "thorough" else "0"}
    hdepth = {"H_DEPTH": os.environ.get("C01_HIST_DEPTH", "3" if tier == "thorough" else "2"), "H_DEPTH_P": "2"}
    tl = partlc.parallel({
        "mc": lambda: tlc.mc("C01", "MbiMC", "MbiMC.cfg", env=base_env, workers=4 if tier == "quick" else 8, heap="8g", deadlock=False, timeout=1500, coverage=False),
        "hist": lambda: tlc.mc("C01", "MbiHist", "MbiHist.cfg", env=dict(base_env, H_MEMO="0", **hdepth), workers=4 if tier == "quick" else 8, heap="8g",
                               deadlock=False, timeout=1500, coverage=False),
        "memo": lambda: tlc.run("C01", "MbiHist", "MbiHist.cfg", env=dict(base_env, H_MEMO="1", H_DEPTH="2", H_DEPTH_P="0"), workers=1, heap="2g",
                                deadlock=False, timeout=600),
        "range": lambda: tlc.mc("C01", "MbiRange", "MbiRange.cfg", env=dict(base_env, RANGE_CUT="0"), workers=2, heap="2g", deadlock=False, timeout=600, coverage=False),
        "rangecut": lambda: tlc.run("C01", "MbiRange", "MbiRange.cfg", env=dict(base_env, RANGE_CUT="1"), workers=1, heap="2g", deadlock=False, timeout=600),
    })
    g, gh, gm, gr, gc = tl["mc"], tl["hist"], tl["memo"], tl["range"], tl["rangecut"]
    # non-vacuity: every case state has exactly three successors (DoExport, DoParse, DoReExport fired for each) - checked below by the state count
    v.add_mc(g)
    cases = sorted(g.json_prints(), key=lambda c: json.dumps(c, sort_keys=True))   # TLC prints in the order its workers finish: fixed order before any seeded choice
    modelled = {c["c"] for c in cases}
    not_modelled = [c["id"] for c in comps if c["id"] not in modelled]
    if len(modelled) < 0.8 * len(comps) or len(cases) * 4 != g.distinct:
        raise Machinery(f"GEN emitted {len(cases)} cases for {len(modelled)} of {len(comps)} compositions ({g.distinct} states)")
    say(f"[C01] region algebra checked: {g.distinct} states, {len(cases)} abstract cases in {len(modelled)} compositions; "
        f"{len(not_modelled)} compositions without vector-table header not modelled ({v.timer.s()}s)")
    # history layer: every state of MbiHist is one history (printed once); every action of the menu must occur; the variant must be refuted
    v.add_mc(gh)
    menus, hists = H.parse_gen(gh.json_prints())
    names_seen = {n.split(":")[0] for h in hists for n in h["h"]}
    if names_seen != H.HIST_EVENTS or len(hists) + gh_roots(gh) != gh.distinct or set(menus) != modelled:
        raise Machinery(f"history GEN: {len(hists)} histories, {gh.distinct} states, actions {sorted(names_seen)}, {len(menus)} of {len(modelled)} compositions")
    if gm.violated != "ExportNowDescribes":
        raise Machinery(f"the design variant 'total length worked out once per object' was not refuted by TLC ({gm.violated}, {gm.distinct} states)")
    v.extra["design_variant_refuted"] = ("MbiHist with H_MEMO=1 (an object that keeps the total length of its first export): TLC reports ExportNowDescribes "
                                         f"violated after {gm.distinct} states - the histories generated reach the class")
    say(f"[C01] history layer: {len(hists)} histories of one object enumerated and checked by TLC ({gh.distinct} states), design variant refuted ({v.timer.s()}s)")
    # range layer: every offered field of every modelled composition in every value class; the builder that cuts to the field width must be refuted
    v.add_mc(gr)
    rcases = sorted(gr.json_prints(), key=lambda c: json.dumps(c, sort_keys=True))
    offered = {(c["id"], f) for c in comps if c["id"] in modelled for f, mx in (("imgVer", ("ImageVersion",)), ("sub", ("ImageSubType",)), ("load", ("LoadAddress", "LoadAddressOptional")),
                                                                                 ("fwVer", ("ManifestCrc", "ManifestDigest"))) if any(m in c["mixins"] for m in mx)}
    rclasses = {}
    for c in rcases:
        rclasses.setdefault((c["c"], c["field"]), set()).add(c["class"])
    if set(rclasses) != offered or any(not {"zero", "one", "top", "top1", "beyond"} <= s for s in rclasses.values()) or \
            any(not {"alias", "word"} <= s for (_, f), s in rclasses.items() if f in ("imgVer", "sub")):
        raise Machinery(f"range GEN: {len(rcases)} cases for {len(rclasses)} (composition, field) pairs, database offers {len(offered)}; "
                        f"missing {sorted(offered - set(rclasses))[:4]}")
    if gc.violated != "CarriedHolds":
        raise Machinery(f"the design variant 'a number too wide for its header field is cut to the width and emitted' was not refuted by TLC ({gc.violated}, {gc.distinct} states)")
    v.extra["design_variant_refuted_range"] = ("MbiRange with RANGE_CUT=1 (a builder that keeps the low bits of a number its header field cannot hold): TLC reports "
                                               f"CarriedHolds violated after {gc.distinct} states - the requests generated reach the class")
    say(f"[C01] range layer: {len(rcases)} requests for {len(rclasses)} (composition, numeric header field) pairs enumerated and checked by TLC ({gr.distinct} states), "
        f"cutting builder refuted ({v.timer.s()}s)")
    v.extra["canary"] = canary()

    # ---- replay on the real builder
    if tier == "quick":
        sel = select(cases, r, 18)
    else:
        sel = select(cases, r, 10**9)
        cap = int(os.environ.get("C01_MAX_CASES", "12000"))
        if len(sel) > cap:
            keep = select(cases, r, 40)
            ids = {json.dumps(c, sort_keys=True) for c in keep}
            rest = [c for c in sel if json.dumps(c, sort_keys=True) not in ids]
            r.shuffle(rest)
            sel = keep + rest[: cap - len(keep)]
    jobs = plan(sel, comps, r, tier, mem)
    res = pmap(observe, jobs, chunksize=4)
    v.count(len(res))
    refused = [x for x in res if "refused" in x]
    done = [x for x in res if "refused" not in x]
    say(f"[C01] {len(done)} images built, parsed and re-exported on the real code ({len(refused)} option sets refused by the builder) ({v.timer.s()}s)")
    if len(refused) > 0.1 * len(res):
        ex = sorted({x["refused"][:100] for x in refused})[:5]
        raise Machinery(f"the builder refused {len(refused)} of {len(res)} option sets of the asserted domain: {ex}")
    built = {(x["meta"]["member"]["family"], x["meta"]["member"]["revision"], x["meta"]["member"]["target"], x["meta"]["member"]["auth"]) for x in done}
    v.extra["images_of_database_built"] = f"{len(built)} of {len([m for m in mem if B.comp_id(m) in modelled])}"
    v.extra["refused_examples"] = sorted({x["refused"][:120] for x in refused})[:8]
    v.extra["not_modelled"] = not_modelled

    # ---- replay of histories on ONE real object each
    if tier == "quick":
        hsel = H.select_quick(hists, rng(PROP, "hist"), 3)
    else:
        hsel = H.select_quick(hists, rng(PROP, "hist"), 0)   # the deterministic core of the quick tier, then a seeded sample of everything else
        have = {json.dumps(h, sort_keys=True) for h in hsel}
        rest = sorted((h for h in hists if json.dumps(h, sort_keys=True) not in have), key=lambda h: json.dumps(h, sort_keys=True))
        rng(PROP, "hist", "rest").shuffle(rest)
        hsel += rest[: int(os.environ.get("C01_MAX_HIST", "4000"))]
    hjobs, hskipped = H.plan(hsel, menus, comps, mem, tier, twin_of, sub_labels)
    hres = pmap(H.observe, hjobs, chunksize=4)
    v.count(len(hres))
    hrefused = [x for x in hres if "refused" in x]
    hdone = [x for x in hres if "refused" not in x]
    say(f"[C01] {len(hdone)} histories replayed on the real classes: {sum(1 for x in hdone for e in x['t']['ev'] if e['ev'] == 'Export')} exports, "
        f"{sum(1 for x in hdone for e in x['t']['ev'] if e['ev'] == 'Fresh')} compared with a fresh object ({len(hrefused)} refused by the builder) ({v.timer.s()}s)")
    if len(hrefused) > 0.1 * len(hres) or not hdone:
        raise Machinery(f"the builder refused {len(hrefused)} of {len(hres)} histories of the asserted domain: {sorted({x['refused'][:100] for x in hrefused})[:5]}")
    hcomps = {x["meta"]["c"] for x in hdone}
    if hcomps != modelled:
        raise Machinery(f"history lane: no history replayed for the compositions {sorted(modelled - hcomps)}")
    v.extra["histories"] = {"enumerated": len(hists), "replayed": len(hdone), "refused_examples": sorted({x["refused"][:120] for x in hrefused})[:6],
                            "without_member": hskipped}

    # ---- requests at / above the top of a header field, asked of the real builder through both entry points
    rjobs = RG.plan(rcases, comps, mem, tier, twin_of, sub_labels)
    rres = pmap(RG.observe, rjobs, chunksize=8)
    v.count(len(rres))
    fitting = [x for x in rres if x["meta"]["class"] in ("zero", "one", "top")]
    wide_routes = {(x["meta"]["field"], x["meta"]["route"]) for x in rres if x["meta"]["class"] not in ("zero", "one", "top")}
    say(f"[C01] {len(rres)} requests asked of the real builder: {sum(1 for x in rres if x['built'])} built, {sum(1 for x in rres if not x['built'])} refused ({v.timer.s()}s)")
    if sum(1 for x in fitting if not x["built"]) > 0.1 * len(fitting) or wide_routes != {(f, rt) for f, rts in RG.ROUTES.items() for rt in rts}:
        raise Machinery(f"range lane: {sum(1 for x in fitting if not x['built'])} of {len(fitting)} requests that fit their field were refused "
                        f"({sorted({x['t']['ev'][2]['exc'][:80] for x in fitting if not x['built']})[:4]}); routes reached with too wide numbers: {sorted(wide_routes)}")
    v.extra["range"] = {"requests": len(rres), "built": sum(1 for x in rres if x["built"]),
                        "refusals": sorted({x["t"]["ev"][2]["exc"][:100] for x in rres if not x["built"]})[:6]}

    # ---- TV
    traces, metas = [], {}
    for k, x in enumerate(rres):
        t = dict(x["t"], id=f"R{k}")
        traces.append(t)
        metas[t["id"]] = x["meta"]
        v.nontrivial(json.dumps([x["meta"]["c"], x["meta"]["field"], x["meta"]["w"], x["meta"]["route"]], sort_keys=True))
    for k, x in enumerate(hdone):
        t = dict(x["t"], id=f"H{k}")
        traces.append(t)
        metas[t["id"]] = x["meta"]
        v.nontrivial(json.dumps([x["meta"]["c"], x["meta"]["s"], x["meta"]["lane"], x["meta"]["h"], x["meta"]["route"]], sort_keys=True))
    for k, x in enumerate(done):
        for part in ("h", "p"):
            t = dict(x[part], id=f"{k}{part}")
            traces.append(t)
            metas[t["id"]] = x["meta"]
        v.nontrivial(json.dumps([x["meta"]["c"], x["meta"]["x"], x["meta"]["route"]], sort_keys=True))
    by_id = {t["id"]: t for t in traces}
    nrej = 0
    for k in range(0, len(traces), 20000):
        part = traces[k:k + 20000]
        rej = decide(part)
        v.traces(len(part))
        for tid, at, length, evname in rej:
            t, meta = by_id[tid], metas[tid]
            if evname == "Build":
                raise Machinery(f"case outside the algebra reached trace validation: {json.dumps(meta)[:600]}")
            nrej += 1
            ev = t["ev"][at - 1]
            if tid.startswith("R"):
                v.violation(RG.key_of(t, at - 1, meta),
                            f"{meta['member']['family']}:{meta['member']['revision']} {meta['member']['target']}/{meta['member']['auth']} via {meta['route']}: "
                            f"{meta['field']} = {RG.unwide(meta['w']):#x} requested (class {meta['class']}, field of {RG.WIDTH[meta['field']]} bits): {json.dumps(ev)[:300]} rejected "
                            f"- a number the field cannot hold must be refused, a number it holds must come out of the bytes and of the parser unchanged",
                            {"meta": meta, "trace": t})
                continue
            if tid.startswith("H"):
                v.violation(H.key_of(t, at - 1, meta),
                            f"{meta['member']['family']}:{meta['member']['revision']} {meta['member']['target']}/{meta['member']['auth']} object ({meta['lane']}, via {meta['route']}), "
                            f"history {'>'.join(e['ev'] for e in t['ev'][:at] if e['ev'] in H.HIST_EVENTS)}: event #{at} {json.dumps(ev)[:300]} rejected "
                            f"(start {json.dumps(t['x'])[:300]})",
                            {"meta": meta, "trace": t})
                continue
            v.violation(key_of(t, at - 1, meta),
                        f"{meta['member']['family']}:{meta['member']['revision']} {meta['member']['target']}/{meta['member']['auth']} via {meta['route']}: event #{at} {json.dumps(ev)[:300]} "
                        f"rejected for x={json.dumps(meta['x'])[:400]}",
                        {"meta": meta, "trace": t})
    say(f"[C01] {len(traces)} traces decided by TLC, {nrej} events rejected ({v.timer.s()}s)")
    hx = hdone[len(hdone) // 2]
    v.sample({"member": hx["meta"]["member"], "route": hx["meta"]["route"], "lane": hx["meta"]["lane"], "start": hx["t"]["x"], "history_trace": hx["t"]["ev"]})
    for x in (done[0], done[len(done) // 2], done[-1]):
        v.sample({"member": x["meta"]["member"], "route": x["meta"]["route"], "x": x["meta"]["x"], "header_trace": x["h"]["ev"], "parse_trace": x["p"]["ev"]})
    v.cov["rule"] = ("cases = every (composition, abstract input) state of MbiMC (payload length classes mod 4/16/512 around 0x38/0x40, tail plain / relocation "
                     "marker, TrustZone disabled/default/custom, key store, 0..2 relocation entries, certificate-block kind, versions, sub-type, HW-key flag, "
                     "load address, manifest digest option); quick: per composition a seeded sample covering every value of every field, thorough: all (capped); "
                     "each case is concretised with seeded random contents on a member family (members rotate over all images of the database) and driven through "
                     "load_from_config and/or the class constructor; non-trivial = the builder accepted it and both traces reached TLC; distinct by (composition, x, route). "
                     "Histories = every state of MbiHist (all sequences of up to 2 (thorough: 3) actions Export / SetApp / SetTz / ClearTz / SetKs / ClearKs / Reconfigure / Parse "
                     "per composition, from a small and a full start, on a built and on a parsed object); quick: per composition every action once after an export "
                     "(Export, action, Export) on a built object, every third one on a parsed object, plus a seeded sample of the others; thorough: all pairs and a seeded "
                     "sample of the triples; every export of a history is read like a single image AND compared with the export of a fresh object holding the settings of that moment. "
                     "Requests = every state of MbiRange (per composition x numeric header field it has [image version 16 bits, sub-type 2 bits, load address / firmware version "
                     "32 bits] x value class [0, 1, top, top + 1, too wide but a 32-bit number, 0xFFFFFFFF, beyond 32 bits] x example values, plus one (thorough: six) seeded member "
                     "of each many-valued class), every one in BOTH tiers through load_from_config AND the class constructor (sub-type: constructor only, the configuration names "
                     "sub-types by label); outcome = refused, or the field read from the bytes and the parsed number")
    v.cov["exhaustive"] = False
    v.cov["checker_cmd"] = ("TLC MbiMC (region algebra, case space) ; TLC MbiHist (histories of one object, design variant refuted) ; "
                            "TLC MbiRange (requests per header field, cutting builder refuted) ; TLC MbiTrace (decides each observation)")
    v.cov["trusted_base"] = ["struct", "bit-serial CRC-32/MPEG-2 table built in lib/mbi_build.py", "cryptography (key size of PEM files only)", "TLC"]
    v.assumptions += [
        "range lane: a refusal is ANY exception between the option set and the bytes (on this tree too wide numbers are refused by struct.error inside update_ivt / the manifest "
        "export, not by an SPSDKError - the property only speaks about option sets the builder accepts); negative numbers are not requested; the TrustZone type is an "
        "enumeration (TrustZoneType) and the HW-key / key-store / relocation bits are booleans or derived - no number can be requested for them through the public API; "
        "sub-types 2 and 3 fit the 2-bit field and are only asked to come back unchanged from the bytes and the parser (they have no label: create_config of them is not asserted)",
        "compositions without a vector-table header (DSC MC56F8xxx / MWCT20xx: BcaTable+Fcf; MCXC: Bca+Fcf) carry no image-type word and are not modelled: "
        + "; ".join(not_modelled),
        "payloads of 0x38..0x3F bytes in HMAC (load-to-RAM signed / encrypted) compositions are a format corner (the HMAC at offset 64 falls behind the payload) and are not asserted",
        "execution target is not compared after parsing when two classes of a family share image type and layout (the format cannot tell them apart); "
        "it is asserted indirectly through the re-exported bytes",
        "re-export through create_config is completed with the original certificate-block configuration and key paths (the parser cannot recover private keys); "
        "there the ISK signature and fields computed over it (manifest CRC, manifest digest) may differ as well",
        "certificate block lengths are computed from the DER/PEM files of the key pool (v1: 32 + sum(4 + pad4(der)) + 128; v2.1: 16 + table + keys + ISK part)",
        "key store = present (1424 bytes) or absent; KeyStore objects with an empty store are a constructor-only corner and not generated",
        "histories: the attribute-level actions are what the class constructor does with its keywords (setattr; for the manifest classes TrustZone travels in the manifest, "
        "so SetTz replaces trust_zone and manifest as the constructor route supplies them); Reconfigure = load_from_config on the same object",
        "histories not generated (not asserted): a second configuration WITHOUT a relocation table on an object that has one (whether load_from_config resets what the new "
        "configuration does not mention is settled neither by the property nor by the documentation; Mbi_MixinRelocTable keeps the old table); Parse inside a history only "
        "where the single-image lane does not already report the parser (no relocation table, no custom TrustZone preset in an HMAC image, class found by its own type word)",
    ]
    return v.finish()


def replay(path):
    import_spsdk()
    os.chdir(scratch())
    w = json.load(open(path))["witness"]
    meta = w["meta"]
    mem = B.members()
    comps = B.compositions(mem)
    write_tables(comps)
    member = next(m for m in mem if all(m[k] == meta["member"][k] for k in ("family", "revision", "target", "auth", "cls")))
    member = dict(member, sub_labels=sub_labels(member), twin=twin_of(member, mem))
    if "rid" in meta:  # a request at / above the top of a header field
        res = RG.observe({"case": {k: meta[k] for k in ("c", "x", "field", "class", "w")}, "member": member, "rid": meta["rid"], "route": meta["route"]})
        t = dict(res["t"], id="R0")
        rej = decide([t])
        say(json.dumps(t["ev"])[:2000])
        for tid, at, length, evname in rej:
            say(f"rejected: event #{at} ({evname}); key {RG.key_of(t, at - 1, res['meta'])}")
        if rej:
            say(f"VIOLATION property=C01 replay={path}")
            return 1
        say("replay: accepted by the spec")
        return 0
    if "hid" in meta:  # a history of one object
        res = H.observe({"c": meta["c"], "s": meta["s"], "lane": meta["lane"], "h": meta["h"], "menu": meta["menu"], "member": member, "hid": meta["hid"],
                         "route": meta["route"], "full": meta.get("full", False)})
        if "refused" in res:
            say(f"replay: the builder refuses this history now: {res['refused']}")
            return 0
        t = dict(res["t"], id="H0")
        rej = decide([t])
        say(json.dumps(t["ev"])[:4000])
        for tid, at, length, evname in rej:
            say(f"rejected: event #{at} ({evname}); key {H.key_of(t, at - 1, res['meta'])}")
        if rej:
            say(f"VIOLATION property=C01 replay={path}")
            return 1
        say("replay: accepted by the spec")
        return 0
    res = observe({"case": {"c": meta["c"], "x": meta["x"]}, "member": member, "idx": meta["idx"], "route": meta["route"]})
    if "refused" in res:
        say(f"replay: the builder refuses this option set now: {res['refused']}")
        return 0
    traces = [dict(res["h"], id="h"), dict(res["p"], id="p")]
    rej = decide(traces)
    for t in traces:
        say(json.dumps(t["ev"])[:2500])
    if rej:
        for tid, at, length, evname in rej:
            say(f"rejected: trace {tid} event #{at} ({evname}); key {key_of(next(t for t in traces if t['id'] == tid), at - 1, dict(meta, len=res['meta']['len']))}")
        say(f"VIOLATION property=C01 replay={path}")
        return 1
    say("replay: accepted by the spec")
    return 0
