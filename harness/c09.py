"""C09 - ciphers, MACs, hashes, CRCs and KDFs match their standards and invert; the CTR block counter advances exactly.

spec/C09:
  CipherModes.tla  the modes / MACs / KDFs as definitions over ONE block primitive and ONE hash primitive (R-spec)
  ModesMC          TLC proves inversion / padding / positioning / refusal / length lemmas with a toy permutation + toy hash
  Crc.tla, CrcMC   bit-serial CRC from catalogue parameters; check values + residue theorems; emits short-message cases
  Counter.tla      the block counter as a state machine on 16-bit limbs; CounterMC (Exact, Shape, PrefixFrozen; wrap reachable)
  CounterGen       behaviours for replay;  CounterTrace: TV of real Counter objects
  WrapperApi       abstract case space of the wrappers (key size x length class x optional parameters given/defaulted on
                   each side x tag / nonce lengths x forgeries);  ApiTrace: TV - TLC recomputes the expected bytes of every
                   call from CipherModes over the table of primitive evaluations and decides class / value / length /
                   round trip.
  CallHist         the module as a whole is STATELESS (only a caller's Hash / KeyDerivator / Crc objects hold state): GEN form
                   for histories of calls - all pairs <<any call, asserted call>> of a group x slot relations (same key / IV /
                   data or not), and simulated longer walks with interleaved objects;  HistTrace: TV - every call of a history
                   executed in ONE process is decided against the term of that call alone (harness/c09_hist.py).
Python only concretises, executes the real wrappers, evaluates primitives (lib/c09ref.py) and records.
"""
import json
import os
import re

from lib import c09ref as R
from lib import tlc
from lib.common import ROOT, Machinery, import_spsdk, rng, say, scratch
from lib.par import pmap
from lib.verdict import Verdict

PROP = "C09"
FULL_MAX = 256  # messages up to this length are recomputed by TLC from the primitive table
CRC_MAX = 24    # CRCs of messages up to this length are computed by TLC bit by bit


def B(b):
    return list(bytes(b))


def rb(r, n):
    return bytes(r.getrandbits(8) for _ in range(n))


def limbs(v):
    return [(v >> 16) & 0xFFFF, v & 0xFFFF]


# ------------------------------------------------------------------ observing a call of the real code
def observe(fn, *a, **kw):
    """-> (out record, raw value or None)"""
    from spsdk.exceptions import SPSDKError

    try:
        v = fn(*a, **kw)
    except SPSDKError as e:
        return {"k": "err", "v": [], "x": type(e).__name__}, None
    except Exception as e:  # noqa: BLE001 - recorded, decided by the spec
        return {"k": "exc", "v": [], "x": type(e).__name__}, None
    return None, v


def obs_bytes(fn, *a, **kw):
    out, v = observe(fn, *a, **kw)
    if out:
        return out
    if not isinstance(v, (bytes, bytearray)):
        return {"k": "badtype", "v": [], "x": type(v).__name__}
    return {"k": "ret", "v": B(v), "x": ""}


def obs_bool(fn, *a, **kw):
    out, v = observe(fn, *a, **kw)
    if out:
        return out
    if not isinstance(v, bool):
        return {"k": "badtype", "v": [], "x": type(v).__name__}
    return {"k": "ret", "v": [1 if v else 0], "x": ""}


def obs_int(fn, nbytes, *a, **kw):
    out, v = observe(fn, *a, **kw)
    if out:
        return out
    if not isinstance(v, int) or isinstance(v, bool) or v < 0 or v >= 1 << (8 * nbytes):
        return {"k": "badtype", "v": [], "x": repr(v)[:40]}
    return {"k": "ret", "v": B(v.to_bytes(nbytes, "big")), "x": ""}


def mk(op, fn, pc, a, out, prim, ref, full):
    return {"op": op, "fn": fn, "pc": pc, "a": a, "out": out, "tab": (prim.tab if (prim is not None and full) else []),
            "ref": B(ref), "full": bool(full)}


def aes_prim(key, key2=None):
    if len(key) not in (16, 24, 32):
        return None
    keys = {1: key}
    if key2 is not None:
        keys[2] = key2
    return R.BlockPrim("aes", keys)


def flip(b, r, lo=0, hi=None):
    b = bytearray(b)
    hi = len(b) if hi is None else hi
    i = r.randrange(lo, hi)
    b[i] ^= 1 << r.randrange(8)
    return bytes(b)


# ------------------------------------------------------------------ executors, one per family of WrapperApi
def ex_ecb(p, r, full):
    from spsdk.crypto import symmetric as S

    key, m = rb(r, p["kl"]), rb(r, p["ml"])
    dom = len(m) % 16 == 0
    P = aes_prim(key)
    out = obs_bytes(S.aes_ecb_encrypt, key, m)
    evs = [mk("enc", "aes_ecb_encrypt", f"len%16={len(m) % 16}", {"key": B(key), "d": B(m)}, out, P, R.ecb_enc(P, m) if dom else b"", full)]
    if out["k"] == "ret":
        c = bytes(out["v"])
        P = aes_prim(key)
        evs.append(mk("dec", "aes_ecb_decrypt", f"len%16={len(c) % 16}", {"key": B(key), "d": B(c), "link": True}, obs_bytes(S.aes_ecb_decrypt, key, c), P,
                      R.ecb_dec(P, c) if len(c) % 16 == 0 else b"", full))
    if dom:  # decryption of something that is not the output of the encryption
        c = rb(r, len(m))
        P = aes_prim(key)
        evs.append(mk("dec", "aes_ecb_decrypt", "free", {"key": B(key), "d": B(c), "link": False}, obs_bytes(S.aes_ecb_decrypt, key, c), P, R.ecb_dec(P, c), full))
    return evs


def ex_cbc(p, r, full):
    from spsdk.crypto import symmetric as S

    alg = p["alg"]
    enc_fn, dec_fn = (S.aes_cbc_encrypt, S.aes_cbc_decrypt) if alg == "aes" else (S.sm4_cbc_encrypt, S.sm4_cbc_decrypt)
    key, m = rb(r, p["kl"]), rb(r, p["ml"])
    key_ok = p["kl"] == 16 if alg == "sm4" else p["kl"] in (16, 24, 32)

    def prim():
        return R.BlockPrim(alg, {1: key}) if key_ok else None

    def side(kind, other_iv):
        """-> (given?, iv bytes)"""
        if kind == "default":
            return False, b""
        if kind == "given" or kind == "other":
            return True, rb(r, 16)
        if kind == "short":
            return True, rb(r, 8)
        if kind == "long":
            return True, rb(r, 17)
        if kind == "same":
            return other_iv
        raise Machinery(f"iv kind {kind}")

    def do(fn, data, g, iv):
        if not g:  # left to the default: parameter omitted, or None passed explicitly
            return obs_bytes(fn, key, data) if r.random() < 0.6 else obs_bytes(fn, key, data, None)
        return obs_bytes(fn, key, data, iv) if r.random() < 0.5 else obs_bytes(fn, key, data, iv_data=iv)

    def pc(kind, g, iv):
        if not key_ok:
            return "key=bad-length"
        return "iv=default" if not g else ("iv=given" if len(iv) == 16 else "iv=bad-length")

    evs = []
    g, iv = side(p["ive"], None)
    P = prim()
    ok = key_ok and (not g or len(iv) == 16)
    ref = R.cbc_enc(P, iv if g else bytes(16), R.pad0(m)) if ok else b""
    out = do(enc_fn, m, g, iv)
    evs.append(mk("enc", f"{alg}_cbc_encrypt", pc(p["ive"], g, iv), {"key": B(key), "d": B(m), "ivg": g, "iv": B(iv)}, out, P, ref, full))
    link = out["k"] == "ret"
    c = bytes(out["v"]) if link else rb(r, max(16, len(R.pad0(m))))
    g2, iv2 = side(p["ivd"], (g, iv))
    P = prim()
    ok = key_ok and (not g2 or len(iv2) == 16) and len(c) % 16 == 0
    ref = R.cbc_dec(P, iv2 if g2 else bytes(16), c) if ok else b""
    out = do(dec_fn, c, g2, iv2)
    evs.append(mk("dec", f"{alg}_cbc_decrypt", pc(p["ivd"], g2, iv2), {"key": B(key), "d": B(c), "ivg": g2, "iv": B(iv2), "link": link}, out, P, ref, full))
    return evs


def ex_ctr(p, r, full):
    from spsdk.crypto import symmetric as S

    key, m = rb(r, p["kl"]), rb(r, p["ml"])
    nonce = {"random": lambda: rb(r, 16), "carry32": lambda: rb(r, 12) + b"\xff" * 4, "carry64": lambda: rb(r, 8) + b"\xff" * 8,
             "ones": lambda: b"\xff" * 16}[p["nonce"]]()
    P = aes_prim(key)
    out = obs_bytes(S.aes_ctr_encrypt, key, m, nonce)
    evs = [mk("enc", "aes_ctr_encrypt", f"nonce={p['nonce']}", {"key": B(key), "d": B(m), "nonce": B(nonce)}, out, P, R.ctr(P, nonce, m), full)]
    if out["k"] == "ret":
        c = bytes(out["v"])
        P = aes_prim(key)
        evs.append(mk("dec", "aes_ctr_decrypt", f"nonce={p['nonce']}", {"key": B(key), "d": B(c), "nonce": B(nonce), "link": True},
                      obs_bytes(S.aes_ctr_decrypt, key, c, nonce), P, R.ctr(P, nonce, c), full))
    return evs


def ex_xts(p, r, full):
    from spsdk.crypto import symmetric as S

    key = rb(r, p["kl"])
    while key[:len(key) // 2] == key[len(key) // 2:]:
        key = rb(r, p["kl"])
    m, tweak = rb(r, p["ml"]), rb(r, 16)
    h = len(key) // 2
    dom = len(m) >= 16
    P = aes_prim(key[:h], key[h:])
    out = obs_bytes(S.aes_xts_encrypt, key, m, tweak)
    pcs = f"len%16={'0' if len(m) % 16 == 0 else 'ragged'}"
    evs = [mk("enc", "aes_xts_encrypt", pcs, {"key": B(key), "d": B(m), "tweak": B(tweak)}, out, P, R.xts(P, tweak, m) if dom else b"", full)]
    if out["k"] == "ret":
        c = bytes(out["v"])
        P = aes_prim(key[:h], key[h:])
        evs.append(mk("dec", "aes_xts_decrypt", pcs, {"key": B(key), "d": B(c), "tweak": B(tweak), "link": True},
                      obs_bytes(S.aes_xts_decrypt, key, c, tweak), P, R.xts(P, tweak, c, True) if len(c) >= 16 else b"", full))
    return evs


def ex_ccm(p, r, full):
    from spsdk.crypto import symmetric as S

    key, m, nonce = rb(r, p["kl"]), rb(r, p["ml"]), rb(r, p["nl"])
    aad_kind = p["aad"]
    aadg = aad_kind != "default"
    aad = b"" if aad_kind in ("default", "empty") else rb(r, int(aad_kind[1:]))
    tlg = p["tag"] != 0
    tl = p["tag"] if tlg else 16
    kw = {}
    if tlg:
        kw["tag_len"] = tl
    P = aes_prim(key)
    if aadg:
        out = obs_bytes(S.aes_ccm_encrypt, key, m, nonce, aad, **kw) if r.random() < 0.5 else obs_bytes(S.aes_ccm_encrypt, key, m, nonce, associated_data=aad, **kw)
    else:
        out = obs_bytes(S.aes_ccm_encrypt, key, m, nonce, **kw)
    pce = f"aad={'given' if aadg else 'default'},tag={'given' if tlg else 'default'}"
    evs = [mk("enc", "aes_ccm_encrypt", pce, {"key": B(key), "d": B(m), "nonce": B(nonce), "aadg": aadg, "aad": B(aad), "tlg": tlg, "tl": tl},
              out, P, R.ccm_enc(P, nonce, m, aad, tl), full)]
    if out["k"] != "ret":
        return evs
    c = bytes(out["v"])
    dv = p["dv"]
    d_aad, d_tlg, d_tl, d_c = aad, tlg, tl, c
    if dv == "tagdefault":
        d_tlg, d_tl = False, 16
    elif dv == "tagother":
        d_tlg, d_tl = True, (8 if tl != 8 else 12)
    elif dv == "aadother":
        d_aad = flip(aad, r) if aad else b"\x00"
    elif dv == "aaddrop":
        d_aad = b""
    elif dv == "flipct":
        d_c = flip(c, r, 0, len(c) - tl) if len(c) > tl else flip(c, r)
    elif dv == "fliptag":
        d_c = flip(c, r, len(c) - tl, len(c))
    elif dv == "truncated":
        d_c = c[:-1]
    kw = {"tag_len": d_tl} if d_tlg else {}
    P = aes_prim(key)
    ok, pt = R.ccm_dec(P, nonce, d_c, d_aad, d_tl)
    out = obs_bytes(S.aes_ccm_decrypt, key, d_c, nonce, d_aad, **kw)
    evs.append(mk("dec", "aes_ccm_decrypt", f"tag={'given' if d_tlg else 'default'},variant={dv}",
                  {"key": B(key), "d": B(d_c), "nonce": B(nonce), "aadg": True, "aad": B(d_aad), "tlg": d_tlg, "tl": d_tl, "link": d_c == c},
                  out, P, (b"\x01" + pt) if ok else b"\x00", full))
    return evs


def ex_kw(p, r, full):
    from spsdk.crypto import symmetric as S

    key, m = rb(r, p["kl"]), rb(r, p["ml"])
    dom = len(m) % 8 == 0 and len(m) >= 16
    P = aes_prim(key)
    out = obs_bytes(S.aes_key_wrap, key, m)
    evs = [mk("enc", "aes_key_wrap", f"len={'ok' if dom else 'bad'}", {"key": B(key), "d": B(m)}, out, P, R.kw_wrap(P, m) if dom else b"", full)]
    if out["k"] != "ret":
        return evs
    c = bytes(out["v"])
    dv = p["dv"]
    d_c = flip(c, r) if dv == "flip" else (c[:-8] if dv == "truncated" else c)
    P = aes_prim(key)
    if len(d_c) % 8 == 0 and len(d_c) >= 24:
        ok, pt = R.kw_unwrap(P, d_c)
        ref = (b"\x01" + pt) if ok else b"\x00"
    else:
        ref = b""
    evs.append(mk("dec", "aes_key_unwrap", f"variant={dv}", {"key": B(key), "d": B(d_c), "link": d_c == c}, obs_bytes(S.aes_key_unwrap, key, d_c), P, ref, full))
    return evs


def hash_enum(name):
    from spsdk.crypto.hash import EnumHashAlgorithm as A

    return {"sha1": A.SHA1, "sha256": A.SHA256, "sha384": A.SHA384, "sha512": A.SHA512, "md5": A.MD5, "sm3": A.SM3, "none": A.NONE}[name]


def ex_hash(p, r, full):
    from spsdk.crypto import hash as HM

    algg = p["alg"] != "default"
    alg = p["alg"] if algg else "sha256"
    chunks = []
    for ch in p["chunks"]:
        v = rb(r, ch["n"])
        if ch["t"] == "i":
            v = bytes([r.randrange(1, 256)]) + v[1:]
        chunks.append({"t": ch["t"], "v": B(v)})
    data = b"".join(bytes(c["v"]) for c in chunks)
    known = alg != "none"
    pcs = f"alg={'default' if not algg else alg}"

    def prim():
        return R.HashPrim(alg) if known else None

    def a(**extra):
        d = {"algg": algg, "alg": alg, "chunks": chunks}
        d.update(extra)
        return d

    evs = []
    HP = prim()
    out = obs_bytes(HM.get_hash, data, hash_enum(alg)) if algg else obs_bytes(HM.get_hash, data)
    evs.append(mk("hash", "get_hash", pcs, a(), out, HP, HP.H(data) if known else b"", full))

    def via_object():
        h = HM.Hash(hash_enum(alg)) if algg else HM.Hash()
        for c in chunks:
            if c["t"] == "i":
                h.update_int(int.from_bytes(bytes(c["v"]), "big"))
            else:
                h.update(bytes(c["v"]))
        return h.finalize()

    HP = prim()
    evs.append(mk("hash", "Hash", pcs + f",chunks={len(chunks)}" + (",update_int" if any(c["t"] == "i" for c in chunks) else ""), a(),
                  obs_bytes(via_object), HP, HP.H(data) if known else b"", full))
    if algg:
        evs.append(mk("hash_len", "get_hash_length", pcs, a(), obs_int(HM.get_hash_length, 1, hash_enum(alg)), None,
                      bytes([__import__("hashlib").new(alg).digest_size]) if known else b"", full))
    return evs


def ex_hmac(p, r, full):
    from spsdk.crypto import spsdk_hmac as HM

    algg = p["alg"] != "default"
    alg = p["alg"] if algg else "sha256"
    key, m = rb(r, p["kl"]), rb(r, p["ml"])
    known = alg != "none"
    pcs = f"alg={'default' if not algg else alg},key={'long' if len(key) > R.HASH_BLOCK.get(alg, 64) else 'short'}"
    kw = {"algorithm": hash_enum(alg)} if algg else {}

    def refmac():
        HP = R.HashPrim(alg) if known else None
        return HP, (R.hmac_(HP, key, m) if known else b"")

    def a(**extra):
        d = {"key": B(key), "d": B(m), "algg": algg, "alg": alg}
        d.update(extra)
        return d

    HP, mac = refmac()
    out = obs_bytes(HM.hmac, key, m, **kw)
    evs = [mk("mac", "hmac", pcs, a(), out, HP, mac, full)]
    good = bytes(out["v"]) if out["k"] == "ret" else mac
    sigs = [("good", good)]
    if good:
        sigs += [("flipped", flip(good, r)), ("truncated", good[:-1])]
    for name, sig in sigs:
        HP, mac = refmac()
        evs.append(mk("verify", "hmac_validate", pcs + f",sig={name}", a(sig=B(sig)), obs_bool(HM.hmac_validate, key, m, sig, **kw), HP, mac, full))
    return evs


def ex_cmac(p, r, full):
    from spsdk.crypto import cmac as CM

    key, m = rb(r, p["kl"]), rb(r, p["ml"])
    pcs = f"len%16={'0' if (len(m) % 16 == 0 and m) else 'ragged-or-empty'}"
    P = aes_prim(key)
    out = obs_bytes(CM.cmac, key, m)
    evs = [mk("mac", "cmac", pcs, {"key": B(key), "d": B(m)}, out, P, R.cmac(P, m), full)]
    good = bytes(out["v"]) if out["k"] == "ret" else R.cmac(aes_prim(key), m)
    for name, sig in (("good", good), ("flipped", flip(good, r)), ("truncated", good[:-1])):
        P = aes_prim(key)
        evs.append(mk("verify", "cmac_validate", pcs + f",sig={name}", {"key": B(key), "d": B(m), "sig": B(sig)}, obs_bool(CM.cmac_validate, key, m, sig), P, R.cmac(P, m), full))
    return evs


def ex_hkdf(p, r, full):
    from spsdk.crypto import hkdf as HK

    salt, ikm, info, L = rb(r, p["sl"]), rb(r, p["il"]), rb(r, p["fl"]), p["L"]
    HP = R.HashPrim("sha256")
    if r.random() < 0.5:
        out = obs_bytes(HK.hkdf, salt, ikm, info, L)
    else:
        out = obs_bytes(HK.hkdf, salt=salt, ikm=ikm, info=info, length=L)
    pcs = f"salt={'empty' if not salt else ('long' if len(salt) > 64 else 'short')},info={'empty' if not info else 'given'},blocks={(L + 31) // 32}"
    return [mk("derive", "hkdf", pcs, {"salt": B(salt), "ikm": B(ikm), "info": B(info), "L": L}, out, HP, R.hkdf(HP, salt, ikm, info, L), full)]


def ex_ks(p, r, full):
    from spsdk.image.keystore import KeyStore

    which = p["which"]
    key, inp = rb(r, p["kl"]), rb(r, p["il"]) if which == "otfad" else b""
    ok = len(key) == 32 and (which != "otfad" or len(inp) == 16)
    P = aes_prim(key) if ok else None
    fn = {"hmac": KeyStore.derive_hmac_key, "enc_image": KeyStore.derive_enc_image_key, "sb_kek": KeyStore.derive_sb_kek_key, "otfad": KeyStore.derive_otfad_kek_key}[which]
    out = obs_bytes(fn, key, inp) if which == "otfad" else obs_bytes(fn, key)
    pcs = "key=32" if len(key) == 32 else "key=bad-length"
    if which == "otfad" and len(inp) != 16:
        pcs += ",input=bad-length"
    return [mk("derive", fn.__name__, pcs, {"which": which, "key": B(key), "inp": B(inp)}, out, P, R.ks_derive(P, which, inp) if ok else b"", full)]


def ex_sb31(p, r, full):
    from spsdk.sbfile.sb31 import functions as F

    const = {"zero": 0, "one": 1, "byte": r.randrange(2, 256), "word": r.randrange(256, 1 << 16), "max32": (1 << 32) - 1,
             "over32": (1 << 32) + r.getrandbits(31), "max96": (1 << 96) - 1}[p["const"]]
    c12 = const.to_bytes(12, "little")
    bits, rights = p["bits"], p["rights"]
    key = rb(r, p["kl"])
    ok = bits in (128, 256) and rights in (0, 1, 2, 3)
    pcs = f"bits={bits},rights={'ok' if rights < 4 else 'bad'},key={8 * p['kl']},const={'wide' if const >= 1 << 32 else 'word'}"

    def ev(mode, fn_name, k, out, link):
        P = aes_prim(k) if ok and len(k) in (16, 24, 32) else None
        return mk("derive", fn_name, pcs, {"mode": mode, "key": B(k), "const": B(c12), "bits": bits, "rights": rights, "link": link}, out, P,
                  R.sb31_derive(P, c12, rights, mode, bits) if P else b"", full)

    if p["api"] == "kdk":
        return [ev("kdk", "derive_kdk", key, obs_bytes(F.derive_kdk, key, const, bits, rights), False)]
    if p["api"] == "blk":
        return [ev("blk", "derive_block_key", key, obs_bytes(F.derive_block_key, key, const, bits, rights), False)]
    holder = {}

    def make():
        holder["kd"] = F.KeyDerivator(pck=key, timestamp=const, key_length=bits, kdk_access_rights=rights)
        return holder["kd"].kdk

    out = obs_bytes(make)
    evs = [ev("kdk", "KeyDerivator.kdk", key, out, False)]
    if out["k"] == "ret":
        kdk = bytes(out["v"])
        n = r.randrange(0, 1 << 20)
        c12b = n.to_bytes(12, "little")
        P = aes_prim(kdk)
        evs.append(mk("derive", "KeyDerivator.get_block_key", pcs, {"mode": "blk", "key": B(kdk), "const": B(c12b), "bits": bits, "rights": rights, "link": True},
                      obs_bytes(holder["kd"].get_block_key, n), P, R.sb31_derive(P, c12b, rights, "blk", bits) if P else b"", full))
    return evs


def ex_crc(p, r, full):
    from spsdk.crypto import crc as CR

    alg, msg = p["alg"], bytes(p["msg"])
    nb = R.CRC_PARAMS[alg][0] // 8
    enum = {"crc32": CR.CrcAlg.CRC32, "crc32-mpeg": CR.CrcAlg.CRC32_MPEG, "crc16-xmodem": CR.CrcAlg.CRC16_XMODEM}[alg]
    via = r.choice(["enum", "label", "LABEL"])
    holder = {}

    def calc():
        holder["o"] = CR.from_crc_algorithm(enum if via == "enum" else (alg if via == "label" else alg.upper()))
        return holder["o"].calculate(msg)

    ref = R.crc(alg, msg).to_bytes(nb, "big")
    out = obs_int(calc, nb)
    evs = [mk("calc", "Crc.calculate", f"alg={alg}", {"alg": alg, "d": B(msg)}, out, None, ref, full)]
    if out["k"] == "ret":
        good = int.from_bytes(bytes(out["v"]), "big")
        for name, val in (("good", good), ("bad", good ^ (1 << r.randrange(8 * nb)))):
            evs.append(mk("verify", "Crc.verify", f"alg={alg},crc={name}", {"alg": alg, "d": B(msg), "crc": B(val.to_bytes(nb, "big"))},
                          obs_bool(holder["o"].verify, msg, val), None, ref, full))
    return evs


EXEC = {"ecb": ex_ecb, "cbc": ex_cbc, "ctr": ex_ctr, "xts": ex_xts, "ccm": ex_ccm, "kw": ex_kw, "hash": ex_hash, "hmac": ex_hmac,
        "cmac": ex_cmac, "hkdf": ex_hkdf, "ks": ex_ks, "sb31": ex_sb31, "crc": ex_crc}


def run_case(job):
    tid, case, salt = job
    r = rng(PROP, "case", salt, json.dumps(case, sort_keys=True))
    full = case.get("full", True)
    evs = EXEC[case["fam"]](case["p"], r, full)
    return {"id": tid, "case": {"fam": case["fam"], "p": case["p"]}, "ev": evs}


def long_cases(r, n):
    """Sampled lane: long messages (TLC compares with the reference bytes and decides class / length / round trip)."""
    cases = []
    for _ in range(n):
        ml = r.choice([r.randrange(257, 1200), r.randrange(1200, 4097), 16 * r.randrange(17, 256)])
        k = r.randrange(9)
        if k == 0:
            c = {"fam": "ecb", "p": {"kl": r.choice([16, 24, 32]), "ml": 16 * (ml // 16)}}
        elif k == 1:
            c = {"fam": "cbc", "p": {"alg": r.choice(["aes", "aes", "sm4"]), "kl": 16, "ml": ml, "ive": r.choice(["default", "given"]), "ivd": r.choice(["default", "same"])}}
            if c["p"]["alg"] == "aes":
                c["p"]["kl"] = r.choice([16, 24, 32])
        elif k == 2:
            c = {"fam": "ctr", "p": {"kl": r.choice([16, 24, 32]), "ml": ml, "nonce": r.choice(["random", "carry32", "carry64", "ones"])}}
        elif k == 3:
            c = {"fam": "xts", "p": {"kl": r.choice([32, 64]), "ml": ml}}
        elif k == 4:
            c = {"fam": "ccm", "p": {"kl": r.choice([16, 24, 32]), "ml": ml, "nl": r.randrange(7, 14), "aad": r.choice(["default", "a20", "a300", "a300", "a300", "a300", "a300", "a65279", "a65280", "a70001"]),
                                     "tag": r.choice([0, 4, 8, 16]), "dv": r.choice(["same", "tagdefault", "flipct", "fliptag"])}}
        elif k == 5:
            c = {"fam": "hash", "p": {"alg": r.choice(["default", "sha1", "sha256", "sha384", "sha512", "md5", "sm3"]),
                                      "chunks": [{"t": "b", "n": ml // 3}, {"t": "b", "n": ml - ml // 3}]}}
        elif k == 6:
            c = {"fam": "hmac", "p": {"alg": r.choice(["default", "sha1", "sha256", "sha384", "sha512", "md5", "sm3"]), "kl": r.choice([16, 32, 64, 200]), "ml": ml}}
        elif k == 7:
            c = {"fam": "cmac", "p": {"kl": r.choice([16, 24, 32]), "ml": ml}}
        else:
            c = {"fam": "crc", "p": {"alg": r.choice(sorted(R.CRC_PARAMS)), "msg": B(rb(r, ml))}}
        c["full"] = False
        cases.append(c)
    # CRCs of messages longer than 64 KiB / 128 KiB: an implementation that works in slices must carry its register across them (every named CRC, the
    # boundary itself and one byte more; the bit-serial reference of lib/c09ref is bound to Crc.tla on every short case)
    for alg, ml in (("crc32", 65536), ("crc32", 65537), ("crc32", 131149), ("crc32-mpeg", 65537), ("crc16-xmodem", 65537)):
        cases.append({"fam": "crc", "p": {"alg": alg, "msg": B(rb(r, ml))}, "full": False})
    return cases


# ------------------------------------------------------------------ Counter: replay of behaviours on real objects
def _counter_steps(job):
    """Generator: performs one operation of the history per next(); its return value is the trace."""
    tid, hist, salt = job
    from spsdk.crypto.symmetric import Counter
    from spsdk.utils.misc import Endianness

    r = rng(PROP, "counter", salt, tid)
    evs, obj = [], None

    def read():
        if obj is None:
            return {"k": "exc", "v": [], "x": "no-object"}
        return obs_bytes(lambda: obj.value)

    for a in hist:
        ev = dict(a)
        if a["op"] == "new":
            nonce = bytes(a["nonce"])
            kw = {}
            if a["cvg"]:
                kw["ctr_value"] = (a["cv"][0] << 16) | a["cv"][1]
            elif r.random() < 0.3:
                kw["ctr_value"] = None
            beg = a["be"] or r.random() < 0.5  # little-endian is the default: leave it out half of the time
            ev["beg"] = beg
            if beg:
                kw["ctr_byteorder_encoding"] = Endianness.BIG if a["be"] else Endianness.LITTLE
            out, v = observe(Counter, nonce, **kw)
            if out is None:
                obj = v
        elif a["op"] == "inc":
            k = (a["k"][0] << 16) | a["k"][1]
            if obj is not None:
                out, _ = observe(obj.increment, k) if a["kg"] else observe(obj.increment)
                if out is not None:
                    ev["out"] = out
                    evs.append(ev)
                    break
        ev["out"] = read()
        evs.append(ev)
        yield
    return {"id": tid, "ev": evs}


def _finish(gen):
    try:
        while True:
            next(gen)
    except StopIteration as e:
        return e.value


def replay_counter(job):
    return _finish(_counter_steps(job))


def replay_counter_pair(jobs):
    """Two Counter objects alive in the same process, their histories interleaved (seeded); each object's projection is a trace of its own:
    a counter is a function of the operations made on THAT object."""
    ja, jb = jobs
    r = rng(PROP, "counter-pair", ja[0], jb[0])
    live = [_counter_steps(ja), _counter_steps(jb)]
    res = [None, None]
    while any(g is not None for g in live):
        i = r.randrange(2)
        if live[i] is None:
            i = 1 - i
        try:
            next(live[i])
        except StopIteration as e:
            res[i] = e.value
            live[i] = None
    for i in range(2):
        res[i]["pair"] = {"jobs": [list(ja), list(jb)], "me": i}
    return res


def random_history(r, n):
    prefix = rb(r, 12)
    be = r.random() < 0.5
    start = r.choice([r.getrandbits(32), (1 << 32) - 1 - r.randrange(0, 64), r.getrandbits(16), 0xFFFF0000 | r.getrandbits(16)])
    cvg = r.random() < 0.5
    cv = r.choice([0, 1, r.getrandbits(32), r.getrandbits(8), (1 << 32) - 1]) if cvg else 0
    hist = [{"op": "new", "nonce": B(prefix + start.to_bytes(4, "big" if be else "little")), "cvg": cvg, "cv": limbs(cv), "be": be}]
    for _ in range(n):
        k = r.randrange(10)
        if k < 2:
            hist.append({"op": "read"})
        elif k < 4:
            hist.append({"op": "inc", "kg": False, "k": [0, 1]})
        else:
            hist.append({"op": "inc", "kg": True, "k": limbs(r.choice([0, 1, 2, 16, r.getrandbits(8), r.getrandbits(16), r.getrandbits(32), 1 << 31, (1 << 32) - 1]))})
    return hist


def counter_class(trace, j):
    """Witness class of the event a counter trace was rejected at: did the exact sum reach 2^32 ?"""
    total = None
    for ev in trace["ev"][:j + 1]:
        if ev["op"] == "new":
            be = ev["be"] if ev.get("beg") else False
            total = int.from_bytes(bytes(ev["nonce"][12:]), "big" if be else "little") + (((ev["cv"][0] << 16) | ev["cv"][1]) if ev["cvg"] else 0)
        elif ev["op"] == "inc" and total is not None:
            total += ((ev["k"][0] << 16) | ev["k"][1]) if ev["kg"] else 1
    ev = trace["ev"][min(j, len(trace["ev"]) - 1)]
    got = ev["out"]
    what = "wrong-value" if got["k"] == "ret" else (f"exc:{got['x']}" if got["k"] == "exc" else f"{got['k']}:{got['x']}")
    return ("wrap" if (total or 0) >= 1 << 32 else "nowrap") + "/" + what


# ------------------------------------------------------------------ verdict plumbing
def rej_of(res):
    """REJ tuples of a trace-validation run; TLC wraps long tuples over several lines, so the whole output is scanned."""
    out = {}
    for m in re.finditer(r'<<\s*"REJ"\s*,(.*?)>>', res.out, re.S):
        vals = []
        for f in tlc._split_top(" ".join(m.group(1).split())):
            f = f.strip()
            vals.append(json.loads(f) if f.startswith('"') else int(f) if re.fullmatch(r"-?\d+", f) else f)
        out[vals[0]] = tuple(vals[1:])
    return out


def api_key(ev, clause, exp, got):
    if clause == "class":
        if got == "exc":
            cls = f"non-spsdk-exception:{ev['out']['x']}"
        elif got == "badtype":
            cls = "bad-return-type"
        elif exp == "val":
            cls = "refused-valid"
        elif exp == "err":
            cls = "accepted-invalid"
        elif exp == "reject":
            cls = "accepted-forgery"
        else:
            cls = f"{exp}->{got}"
    else:
        cls = {"value": "wrong-value", "length": "wrong-length", "roundtrip": "not-inverted"}.get(clause, clause)
    return f"C09/{ev['fn']}/{ev['pc']}/{cls}"


_tv_serial = [0]


def tv_parallel(module, traces, env, size):
    """Batch trace validation in several JVMs side by side (forked workers; every worker gets its own range of lib.tlc's
    scratch numbering). Returns (rejected {id: tuple}, distinct states)."""
    parts = [traces[k:k + size] for k in range(0, len(traces), size)]
    base = _tv_serial[0]
    _tv_serial[0] += len(parts)
    scratch()  # created before forking: all workers share the run's scratch directory

    def job(i):
        tlc._counter[0] = 100000 + 10 * (base + i)
        _, res = tlc.tv("C09", module, parts[i], env=env, heap="4g", timeout=1500)
        return rej_of(res), res.distinct

    rej, distinct = {}, 0
    for rj, d in fork_map(job, range(len(parts)), min(6, len(parts))):
        rej.update(rj)
        distinct += d
    return rej, distinct


_fork_fn = None


def _fork_call(x):
    return _fork_fn(x)


def fork_map(fn, items, procs):
    """lib.par.pmap without its sequential shortcut for fewer than four items (two big TLC jobs are worth two processes)."""
    global _fork_fn
    import multiprocessing as mp

    items = list(items)
    if procs <= 1 or len(items) <= 1:
        return [fn(x) for x in items]
    _fork_fn = fn
    with mp.get_context("fork").Pool(procs) as pool:
        return pool.map(_fork_call, items, chunksize=1)


def validate_api(v, traces, label):
    """TLC decides every trace; every rejected one becomes a violation (or a machinery failure for the harness clauses)."""
    all_rej, distinct = tv_parallel("ApiTrace", traces, {"CRC_MAX": CRC_MAX}, max(2700, (len(traces) + 5) // 6))
    v.extra["tv_states"] = v.extra.get("tv_states", 0) + distinct
    by_id = {t["id"]: t for t in traces}
    for tid, (matched, length, fn, clause, exp, got) in sorted(all_rej.items()):
        t = by_id[tid]
        ev = t["ev"][matched]
        if clause in ("oracle", "link", "concretise"):
            raise Machinery(f"[{label}] trace {tid} event {matched + 1} ({fn}): clause '{clause}' - the reference implementation / harness disagrees with the spec: "
                            + json.dumps({"case": t["case"], "ev": ev})[:1500])
        key = api_key(ev, clause, exp, got)
        v.violation(key, f"{fn} [{ev['pc']}] case {json.dumps(t['case'])[:160]}: clause '{clause}' failed (spec expects {exp}, observed {got}"
                         + (f" {ev['out']['x']}" if ev['out'].get('x') else "") + ")", {"kind": "api", "case": t["case"], "trace": t, "failed_event": matched + 1, "clause": clause})
    return all_rej


def validate_counter(v, traces):
    rej, distinct = tv_parallel("CounterTrace", traces, {}, max(5200, (len(traces) + 5) // 6))
    v.extra["tv_states"] = v.extra.get("tv_states", 0) + distinct
    by_id = {t["id"]: t for t in traces}
    for tid, (matched, length, op) in sorted(rej.items()):
        t = by_id[tid]
        cls = counter_class(t, matched)
        v.violation(f"C09/Counter/{cls}", f"Counter history {tid}: after event #{matched + 1} ({op}) `.value` is not the spec's counter block "
                                          f"({json.dumps(t['ev'][min(matched, len(t['ev']) - 1)])[:300]})", {"kind": "counter", "trace": t, "failed_event": matched + 1})
    return rej


# ------------------------------------------------------------------ canaries
def canary_api():
    """Known-good traces (incl. published vectors and the repository's frozen KDF / key-store artefacts) must be accepted,
    each with one corrupted field must be rejected."""
    h = bytes.fromhex
    anchors = json.load(open(os.path.join(ROOT, "anchors", "C09", "vectors.json")))
    good = []

    def add(name, fam, p, evs):
        good.append({"id": name, "case": {"fam": fam, "p": p}, "ev": evs})

    def ret(b):
        return {"k": "ret", "v": B(b), "x": ""}

    # RFC 3394 4.1
    k = h("000102030405060708090a0b0c0d0e0f")
    P = aes_prim(k)
    w = h("1fa68b0a8112b447aef34bd8fb5a7b829d3e862371d2cfe5")
    pt = h("00112233445566778899aabbccddeeff")
    assert R.kw_wrap(P, pt) == w
    P2 = aes_prim(k)
    assert R.kw_unwrap(P2, w) == (True, pt)
    add("kat-kw", "kw", {"kl": 16, "ml": 16, "dv": "same"}, [mk("enc", "aes_key_wrap", "kat", {"key": B(k), "d": B(pt)}, ret(w), P, w, True),
                                                            mk("dec", "aes_key_unwrap", "kat", {"key": B(k), "d": B(w), "link": True}, ret(pt), P2, b"\x01" + pt, True)])
    # SP 800-38A F.2.1 (CBC) and F.5.1 (CTR), first blocks; RFC 4493 (CMAC)
    k2 = h("2b7e151628aed2a6abf7158809cf4f3c")
    m = h("6bc1bee22e409f96e93d7e117393172a")
    P = aes_prim(k2)
    c = h("7649abac8119b246cee98e9b12e9197d")
    add("kat-cbc", "cbc", {"alg": "aes", "kl": 16, "ml": 16, "ive": "given", "ivd": "same"},
        [mk("enc", "aes_cbc_encrypt", "kat", {"key": B(k2), "d": B(m), "ivg": True, "iv": B(k)}, ret(c), P, R.cbc_enc(P, k, m), True)])
    P = aes_prim(k2)
    n0 = h("f0f1f2f3f4f5f6f7f8f9fafbfcfdfeff")
    c = h("874d6191b620e3261bef6864990db6ce")
    add("kat-ctr", "ctr", {"kl": 16, "ml": 16, "nonce": "random"}, [mk("enc", "aes_ctr_encrypt", "kat", {"key": B(k2), "d": B(m), "nonce": B(n0)}, ret(c), P, R.ctr(P, n0, m), True)])
    P = aes_prim(k2)
    t = h("070a16b46b4d4144f79bdd9dd04a287c")
    add("kat-cmac", "cmac", {"kl": 16, "ml": 16}, [mk("mac", "cmac", "kat", {"key": B(k2), "d": B(m)}, ret(t), P, R.cmac(P, m), True)])
    # RFC 3610 packet vector #1 (CCM, 8-byte tag, 13-byte nonce, 8 bytes of associated data)
    kc = h("c0c1c2c3c4c5c6c7c8c9cacbcccdcecf")
    nc = h("00000003020100a0a1a2a3a4a5")
    ac = h("0001020304050607")
    mc = h("08090a0b0c0d0e0f101112131415161718191a1b1c1d1e")
    cc = h("588c979a61c663d2f066d0c2c0f989806d5f6b61dac38417e8d12cfdf926e0")
    P = aes_prim(kc)
    add("kat-ccm", "ccm", {"kl": 16, "ml": 23, "nl": 13, "aad": "a8", "tag": 8, "dv": "same"},
        [mk("enc", "aes_ccm_encrypt", "kat", {"key": B(kc), "d": B(mc), "nonce": B(nc), "aadg": True, "aad": B(ac), "tlg": True, "tl": 8}, ret(cc), P, R.ccm_enc(P, nc, mc, ac, 8), True)])
    # IEEE 1619 XTS-AES-128 vector 2 (key1 = 11.., key2 = 22.., data unit 0x3333333333, 32 bytes of 0x44)
    kx = h("11" * 16 + "22" * 16)
    tx = h("3333333333" + "00" * 11)
    mx = h("44" * 32)
    cx = h("c454185e6a16936e39334038acef838bfb186fff7480adc4289382ecd6d394f0")
    P = aes_prim(kx[:16], kx[16:])
    add("kat-xts", "xts", {"kl": 32, "ml": 32}, [mk("enc", "aes_xts_encrypt", "kat", {"key": B(kx), "d": B(mx), "tweak": B(tx)}, ret(cx), P, R.xts(P, tx, mx), True)])
    # RFC 4231 #1 (HMAC-SHA-256), RFC 5869 A.1 (HKDF)
    HP = R.HashPrim("sha256")
    hk, hd = bytes([0x0B] * 20), b"Hi There"
    hm = h("b0344c61d8db38535ca8afceaf0bf12b881dc200c9833da726e9376c2e32cff7")
    add("kat-hmac", "hmac", {"alg": "sha256", "kl": 20, "ml": 8}, [mk("mac", "hmac", "kat", {"key": B(hk), "d": B(hd), "algg": True, "alg": "sha256"}, ret(hm), HP, R.hmac_(HP, hk, hd), True)])
    HP = R.HashPrim("sha256")
    okm = h("3cb25f25faacd57a90434f64d0362f2a2d2d0a90cf1a5a4c5db02d56ecc4c5bf34007208d5b887185865")
    sa, ik, inf = h("000102030405060708090a0b0c"), bytes([0x0B] * 22), h("f0f1f2f3f4f5f6f7f8f9")
    add("kat-hkdf", "hkdf", {"sl": 13, "il": 22, "fl": 10, "L": 42}, [mk("derive", "hkdf", "kat", {"salt": B(sa), "ikm": B(ik), "info": B(inf), "L": 42}, ret(okm), HP, R.hkdf(HP, sa, ik, inf, 42), True)])
    # catalogue check values of the three CRCs: TLC computes them itself
    for alg, prm in R.CRC_PARAMS.items():
        nb = prm[0] // 8
        add(f"kat-{alg}", "crc", {"alg": alg, "msg": B(b"123456789")}, [mk("calc", "Crc.calculate", "kat", {"alg": alg, "d": B(b"123456789")}, ret(prm[6].to_bytes(nb, "big")), None, prm[6].to_bytes(nb, "big"), True)])
    # frozen artefacts of the repository: SB3.1 key derivation vector, key-store constants (SB2.1 key blob of an RT5xx golden file)
    kd = anchors["sb31_key_derivator"]
    pck, ts = h(kd["pck"]), kd["timestamp"]
    P = aes_prim(pck)
    c12 = ts.to_bytes(12, "little")
    kdk = h(kd["kdk"])
    evs = [mk("derive", "KeyDerivator.kdk", "anchor", {"mode": "kdk", "key": B(pck), "const": B(c12), "bits": 128, "rights": kd["rights"], "link": False}, ret(kdk), P,
              R.sb31_derive(P, c12, kd["rights"], "kdk", 128), True)]
    bn, bk = next(iter(kd["block_keys"].items()))
    P = aes_prim(kdk)
    c12b = int(bn).to_bytes(12, "little")
    evs.append(mk("derive", "KeyDerivator.get_block_key", "anchor", {"mode": "blk", "key": B(kdk), "const": B(c12b), "bits": 128, "rights": kd["rights"], "link": True}, ret(h(bk)), P,
                  R.sb31_derive(P, c12b, kd["rights"], "blk", 128), True))
    add("anchor-sb31kdf", "sb31", {"api": "class", "bits": 128, "rights": kd["rights"], "kl": 32, "const": "word"}, evs)
    ks = anchors["rt5xx_sb_kek"]
    master = h(ks["master_key"])
    P = aes_prim(master)
    sbkek = R.ks_derive(P, "sb_kek")
    P2 = aes_prim(sbkek)
    blob, dekmac = h(ks["key_blob"]), h(ks["dek"]) + h(ks["mac"])
    ok, un = R.kw_unwrap(P2, blob)
    if not ok or un != dekmac:
        raise Machinery("anchor: the RT5xx golden SB2.1 key blob does not unwrap under AES-ECB(master, 03..||04..) - key-store constant of the reference is wrong")
    add("anchor-sbkek", "ks", {"which": "sb_kek", "kl": 32, "il": 16}, [mk("derive", "derive_sb_kek_key", "anchor", {"which": "sb_kek", "key": B(master), "inp": []}, ret(sbkek), P, sbkek, True)])
    add("anchor-sbkek-blob", "kw", {"kl": 32, "ml": 64, "dv": "same"}, [mk("dec", "aes_key_unwrap", "anchor", {"key": B(sbkek), "d": B(blob), "link": False}, ret(dekmac), P2, b"\x01" + dekmac, True)])

    bad = []
    for t in good:
        c = json.loads(json.dumps(t))
        c["id"] = "bad-" + t["id"]
        ev = c["ev"][-1]
        ev["out"]["v"][len(ev["out"]["v"]) // 2] ^= 0x10  # one corrupted observed byte
        bad.append(c)
    # corrupted in other fields: class (a refusal where a value is due), an accepted forgery, a padded tail that is not zero
    c = json.loads(json.dumps(good[0]))
    c["id"] = "bad-class"
    c["ev"][0]["out"] = {"k": "err", "v": [], "x": "SPSDKError"}
    bad.append(c)
    _, res = tlc.tv("C09", "ApiTrace", good + bad, env={"CRC_MAX": CRC_MAX})
    rej = rej_of(res)
    want = {t["id"] for t in bad}
    if set(rej) != want:
        raise Machinery(f"API canary failed: rejected {sorted(rej)}; expected exactly {sorted(want)}\n" + "\n".join(str(x) for x in rej.items()))
    mach = [k for k, x in rej.items() if x[3] in ("oracle", "link", "concretise")]
    if mach:
        raise Machinery(f"API canary: corrupted observations were attributed to the oracle clause: {mach}")
    return len(good), len(bad)


def canary_counter():
    nonce = B(bytes(range(12)) + bytes.fromhex("fffffffe"))
    good = {"id": "good", "ev": [
        {"op": "new", "nonce": nonce, "cvg": False, "cv": [0, 0], "beg": True, "be": True, "out": {"k": "ret", "v": nonce, "x": ""}},
        {"op": "inc", "kg": False, "k": [0, 1], "out": {"k": "ret", "v": nonce[:12] + [255, 255, 255, 255], "x": ""}},
        {"op": "inc", "kg": True, "k": [0, 3], "out": {"k": "ret", "v": nonce[:12] + [0, 0, 0, 2], "x": ""}},      # wraps
        {"op": "read", "out": {"k": "ret", "v": nonce[:12] + [0, 0, 0, 2], "x": ""}}]}
    bad1 = json.loads(json.dumps(good))
    bad1["id"] = "bad-value"
    bad1["ev"][2]["out"]["v"][15] = 3          # advanced by 4 instead of 3
    bad2 = json.loads(json.dumps(good))
    bad2["id"] = "bad-prefix"
    bad2["ev"][1]["out"]["v"][11] ^= 1          # carry into the nonce prefix
    bad3 = json.loads(json.dumps(good))
    bad3["id"] = "bad-order"
    bad3["ev"][0]["out"]["v"][12:] = [254, 255, 255, 255]   # little-endian encoding of a big-endian counter
    rej = rej_of(tlc.tv("C09", "CounterTrace", [good, bad1, bad2, bad3])[1])
    if set(rej) != {"bad-value", "bad-prefix", "bad-order"}:
        raise Machinery(f"Counter canary failed: rejected {sorted(rej)}")
    return 1, 3


def canary_hist():
    """A history (refused call, then the same call accepted; two interleaved Hash objects; a KeyDerivator; a forgery) with the
    reference results as observations must be accepted; with one result that depends on an EARLIER call it must be rejected."""
    import c09_hist as H

    def c(f, x="", kl=0, ml=0, n=0, ks=1, i=1, ds=1, o=0, dom=True):
        return {"f": f, "x": x, "kl": kl, "ml": ml, "n": n, "ks": ks, "is": i, "ds": ds, "o": o, "dom": dom}

    hist = [c("aes_ecb_encrypt", kl=16, ml=17, dom=False), c("aes_ecb_encrypt", kl=16, ml=16),
            c("Hash", "sha256", o=1), c("Hash.update", ml=33, o=1), c("Hash", "sha1", o=2), c("Hash.update", ml=33, ds=2, o=2), c("Hash.update", ml=64, ds=2, o=1),
            c("Hash.finalize", o=1), c("Hash.finalize", o=2),
            c("KeyDerivator", "r2", kl=16, ml=4, n=128, o=1), c("KeyDerivator.get_block_key", ml=3, ds=2, o=1),
            c("aes_ccm_decrypt", "forged", kl=16, ml=17, n=8)]
    t = H.run_history(("good", hist, 0))
    ret = lambda b: {"k": "ret", "v": B(b), "x": ""}  # noqa: E731
    for e in t["ev"]:  # the observations of the canary are the REFERENCE results (the canary must not depend on the tree under test)
        if e["fn"] in ("Hash", "Hash.update"):
            e["out"] = ret(b"")
        elif e["fn"] == "aes_ccm_decrypt":
            e["out"] = {"k": "err", "v": [], "x": "SPSDKError"}
        elif e["c"]["dom"]:
            e["out"] = ret(bytes(e["ref"]))
        else:
            e["out"] = {"k": "exc", "v": [], "x": "ValueError"}
    good = t
    bad = []

    def variant(name, fn):
        b = json.loads(json.dumps(good))
        b["id"] = name
        fn(b["ev"])
        bad.append(b)

    def stale(ev):  # the accepted ECB call returns the stream shifted by the byte the refused call left behind
        ev[1]["out"]["v"] = ev[1]["out"]["v"][1:] + [0]

    def crossed(ev):  # the two Hash objects return each other's digest (same length would need the same algorithm: use the value clause on object 1)
        ev[7]["out"]["v"] = B(__import__("hashlib").sha256(bytes(good["ev"][3]["a"]["d"])).digest())  # digest without the second update

    def kd(ev):
        ev[10]["out"]["v"][0] ^= 1

    def forged(ev):
        ev[11]["out"] = ret(bytes(17))

    for name, fn in (("bad-stale", stale), ("bad-object", crossed), ("bad-kd", kd), ("bad-forgery", forged)):
        variant(name, fn)
    _, res = tlc.tv("C09", "HistTrace", [good] + bad, env={"CRC_MAX": CRC_MAX})
    rej = rej_of(res)
    want = {"bad-stale": 1, "bad-object": 7, "bad-kd": 10, "bad-forgery": 11}
    if {k: x[0] for k, x in rej.items()} != want or any(x[3] in ("oracle", "concretise") for x in rej.values()):
        raise Machinery(f"history canary failed: rejected {rej}; expected exactly {want}")
    return 1, len(bad)


# ------------------------------------------------------------------ run
def side_by_side(fns):
    """Run independent TLC jobs concurrently in forked workers (each with its own range of lib.tlc's scratch numbering)."""
    scratch()

    def job(i):
        tlc._counter[0] = 50000 + 100 * i
        return fns[i]()

    return fork_map(job, range(len(fns)), len(fns))


def jvm_stack():
    # TLC evaluates the recursive definitions of CipherModes / Crc by recursion on the Java stack (~11 KB per level): give every
    # JVM of this check a large thread stack (JDK_JAVA_OPTIONS is read by the java launcher itself, so it also covers the main thread)
    os.environ["JDK_JAVA_OPTIONS"] = "-Xss512m"


def run(tier):
    import_spsdk()
    jvm_stack()
    v = Verdict(PROP, tier)
    quick = tier == "quick"
    r = rng(PROP)
    try:
        R.selftest()
    except AssertionError as e:
        raise Machinery(f"trusted base self-test failed: {e!r}") from e

    # ---- canaries (also bind reference + spec to published vectors and to the repository's frozen artefacts)
    g1, b1 = canary_api()
    g2, b2 = canary_counter()
    g3, b3 = canary_hist()
    v.extra["canary"] = (f"API: {g1} known-answer / anchor traces accepted (RFC 3394, SP 800-38A CBC+CTR, RFC 4493, RFC 3610, IEEE 1619, RFC 4231, RFC 5869, "
                         f"3 CRC check values, SB3.1 KDF vector, RT5xx SB2.1 key blob), {b1} corrupted copies rejected; Counter: {g2} accepted, {b2} corrupted rejected; "
                         f"history of calls: {g3} accepted, {b3} copies with a result that depends on an earlier call rejected")
    say(f"[C09] canaries ok {v.timer.s()}s")

    # ---- MC (lemmas of the R-spec) and GEN (abstract cases of the wrapper API) - four independent TLC runs, side by side
    import c09_hist as H

    walk_len, walk_num = (10, 150) if quick else (14, 1500)
    acts = ("NewCase", "IncPlain", "IncWrapping", "DoRead")
    runs = [
        lambda: tlc.mc("C09", "ModesMC", "ModesMC.cfg", workers=4, coverage=False),
        lambda: tlc.mc("C09", "CounterMC", "CounterMC.cfg" if quick else "CounterMC_thorough.cfg", workers=4 if quick else 8, require_actions=acts),
        lambda: tlc.mc("C09", "CrcMC", "CrcMC.cfg" if quick else "CrcMC_thorough.cfg", workers=1 if quick else 4, coverage=False),
        lambda: tlc.run("C09", "WrapperApi", "WrapperApi.cfg" if quick else "WrapperApi_thorough.cfg", workers=1, heap="8g"),
        lambda: H.generate("pairs", not quick),
        lambda: H.generate("walk", not quick, walk_len, walk_num),
    ]
    mc1, mc2, mc3, gen, (gp, pairs), (gw, walks) = side_by_side(runs)
    for x in (mc1, mc2, mc3, gen):
        v.add_mc(x)
    crc_cases = [c for c in mc3.json_prints() if "alg" in c]
    if len(crc_cases) < 100:
        raise Machinery(f"CrcMC emitted only {len(crc_cases)} cases")
    say(f"[C09] MC done {v.timer.s()}s: modes {mc1.distinct} cases, counter {mc2.distinct} states, crc {mc3.distinct} cases")
    cases = [c for c in gen.json_prints() if "fam" in c]
    if len(cases) != gen.distinct or len(cases) < 1000:
        raise Machinery(f"WrapperApi emitted {len(cases)} cases for {gen.distinct} states")
    fams = {c["fam"] for c in cases}
    if fams != set(EXEC) - {"crc"}:
        raise Machinery(f"case space misses families: {set(EXEC) - {'crc'} - fams}")
    # the TLC-computed CRC of every emitted short message is cross-checked against the trusted bit-serial Python CRC (binds lib/c09ref.crc)
    for c in crc_cases:
        nb = R.CRC_PARAMS[c["alg"]][0] // 8
        if list(R.crc(c["alg"], bytes(c["msg"])).to_bytes(nb, "big")) != c["crc"]:
            raise Machinery(f"bit-serial CRC of the harness and of Crc.tla disagree on {c}")
    cases += [{"fam": "crc", "p": {"alg": c["alg"], "msg": c["msg"]}} for c in crc_cases]
    for _ in range(150 if quick else 3000):  # more short CRC messages (TLC computes their CRC during TV)
        cases.append({"fam": "crc", "p": {"alg": r.choice(sorted(R.CRC_PARAMS)), "msg": B(rb(r, r.randrange(1, CRC_MAX + 1)))}})
    reps = 1 if quick else 3
    jobs = []
    for rep in range(reps):
        jobs += [(len(jobs) + i, c, rep) for i, c in enumerate(cases)]
    n_enum = len(jobs)
    jobs += [(n_enum + i, c, 0) for i, c in enumerate(long_cases(r, 120 if quick else 1500))]
    say(f"[C09] GEN done {v.timer.s()}s: {len(cases)} abstract cases, {len(jobs)} executions")

    batch = 16000
    for b0 in range(0, len(jobs), batch):  # execute + validate in batches: bounded memory, TLC runs side by side
        traces = pmap(run_case, jobs[b0:b0 + batch], chunksize=32)
        v.count(len(traces))
        for t in traces:
            if any(e["out"]["k"] in ("ret", "err") for e in t["ev"]):
                v.nontrivial(json.dumps(t["case"], sort_keys=True))
        for i in (3, len(cases) // 3, n_enum - 5):
            if b0 <= i < b0 + len(traces):
                s = json.loads(json.dumps(traces[i - b0]))
                for e in s["ev"]:
                    e["tab"] = f"<{len(e['tab'])} primitive evaluations>"
                v.sample(s)
        validate_api(v, traces, "api")
        v.traces(len(traces))
        say(f"[C09] {b0 + len(traces)}/{len(jobs)} cases executed on the real wrappers and validated {v.timer.s()}s")
        del traces

    # ---- histories of calls in one process (CallHist generates, HistTrace decides)
    v.add_mc(gp)
    v.add_mc(gw)
    if len(pairs) < 3000 or len(walks) != walk_num:
        raise Machinery(f"CallHist produced {len(pairs)} pairs and {len(walks)} walks")
    second = {(h[1]["f"], h[1]["x"], h[1]["kl"], h[1]["ml"]) for h in pairs}
    refused_first = sum(1 for h in pairs if not h[0]["dom"])
    if not refused_first or any(not h[1]["dom"] for h in pairs):
        raise Machinery("CallHist pairs: no refused first call / unasserted second call")
    hjobs = [(i, h, 0) for i, h in enumerate(pairs + walks)]
    htraces = H.execute(hjobs)
    v.count(len(htraces))
    n_ref = 0
    for t in htraces:
        if any(e["out"]["k"] == "ret" for e in t["ev"][1:]):
            v.nontrivial("hist:" + json.dumps(t["hist"], sort_keys=True))
        n_ref += any(e["out"]["k"] != "ret" and t["ev"][j + 1]["out"]["k"] == "ret" for j, e in enumerate(t["ev"][:-1]))
    if n_ref < 300:
        raise Machinery(f"only {n_ref} histories in which a refused call is followed by an accepted one")
    s = json.loads(json.dumps(htraces[len(pairs) // 7]))
    for e in s["ev"]:
        e["tab"] = f"<{len(e['tab'])} primitive evaluations>"
    v.sample(s)
    say(f"[C09] executed {len(htraces)} histories of calls ({len(pairs)} pairs, {len(walks)} walks of {walk_len}; {n_ref} with an accepted call right after a refused one), "
        f"each in one fresh process {v.timer.s()}s")
    H.validate(v, htraces, "hist")
    v.traces(len(htraces))
    say(f"[C09] histories validated {v.timer.s()}s")
    del htraces

    # ---- Counter
    depth = 3
    g = tlc.run("C09", "CounterGen", "CounterGen.cfg", env={"GEN_DEPTH": depth}, workers=1, deadlock=False, heap="8g")
    v.add_mc(g)
    hists = [h for h in g.json_prints() if isinstance(h, list)]
    if len(hists) < 1000:
        raise Machinery(f"CounterGen produced only {len(hists)} behaviours")
    if not quick:
        g2 = tlc.run("C09", "CounterGen", "CounterGen.cfg", env={"GEN_DEPTH": 12}, workers=1, deadlock=False, simulate="num=6000", depth=14, heap="8g")
        more = [h for h in g2.json_prints() if isinstance(h, list)]
        if len(more) < 1000:
            raise Machinery(f"CounterGen simulation produced only {len(more)} behaviours")
        hists += more
    hists += [random_history(r, r.randrange(1, 10)) for _ in range(1500 if quick else 60000)]
    cjobs = [(i, h, 0) for i, h in enumerate(hists)]
    ctraces = pmap(replay_counter, cjobs, chunksize=256)
    # two objects alive at the same time, operations interleaved: each object's projection must still be a behaviour of Counter.tla
    n_pairs = 500 if quick else 10000
    base = len(cjobs)
    pjobs = [((base + 2 * i, random_history(r, r.randrange(2, 10)), 0), (base + 2 * i + 1, random_history(r, r.randrange(2, 10)), 0)) for i in range(n_pairs)]
    for ta, tb in pmap(replay_counter_pair, pjobs, chunksize=64):
        ctraces += [ta, tb]
    v.count(len(ctraces))
    for t in ctraces:
        v.nontrivial("counter:" + json.dumps([[e.get("op"), e.get("nonce", [0] * 16)[12:], e.get("cv"), e.get("k"), e.get("kg"), e.get("cvg"), e.get("be")] for e in t["ev"]]))
    v.sample(ctraces[len(ctraces) // 2])
    say(f"[C09] replayed {len(ctraces)} counter behaviours {v.timer.s()}s")
    validate_counter(v, ctraces)
    v.traces(len(ctraces))

    v.cov["rule"] = (
        f"API cases = initial states of WrapperApi ({len(cases) - len(crc_cases)} abstract cases: key size x message-length class x every optional parameter given / defaulted "
        f"independently on the encrypting and decrypting side x nonce / tag lengths x refused lengths x forgeries, 12 families) + all CRC messages of CrcMC + seeded short CRC "
        f"messages, each concretised {reps}x with seeded random bytes, + {len(jobs) - n_enum} sampled long-message cases; counter behaviours = all histories of length {depth} over the "
        "CounterMC menus (TLC exhaustive)" + ("" if quick else " + 6000 simulated histories of length 12") + " + seeded random histories with arbitrary 32-bit words + "
        f"{n_pairs} pairs of seeded histories on two objects alive in one process with interleaved operations (each projection validated); "
        f"histories of calls = all {len(pairs)} 2-step behaviours of CallHist (first call: any call of a group's menu, accepted or refused; second call: every asserted call "
        f"of the group ({len(second)} distinct); slot relation same key+IV+data / same key / same data / other IV / nothing shared; groups ecb+key store, cbc aes+sm4, ctr, xts, ccm, "
        f"key wrap, cmac+SB3.1 KDF, hash+hmac+hkdf, crc) + {len(walks)} simulated behaviours of {walk_len} calls (within a group, over all groups, and centred on two interleaved "
        "Hash / KeyDerivator objects), each executed in one fresh process; a history is non-trivial if a call after the first returned a value; a case is "
        "non-trivial if at least one real call returned a value or an SPSDK error; distinct by abstract case / by operation sequence with arguments"
    )
    v.cov["exhaustive"] = True
    v.cov["checker_cmd"] = "TLC ModesMC, CounterMC, CrcMC (lemmas) ; TLC WrapperApi, CounterGen, CallHist (generation) ; TLC ApiTrace, CounterTrace, HistTrace (decide every observation)"
    v.cov["trusted_base"] = ["one-block AES (cryptography AES-ECB called on single 16-byte blocks)", "pure-Python SM4 block function (GB/T 32907 vector)", "hashlib",
                             "TLC", "published vectors + 2 frozen repository artefacts in anchors/C09/vectors.json"]
    v.assumptions += [
        "behaviour outside what the docstrings / standards define is not asserted: ECB / CBC-decrypt input that is not a multiple of 16 bytes, XTS data shorter than 16 bytes, "
        "key sizes the AES-ECB/CTR/XTS/CCM/key-wrap/CMAC wrappers do not document a refusal for, CTR nonces / XTS tweaks not 16 bytes long, CCM nonce outside 7..13 or tag "
        "outside {4,6,..,16}, key-wrap input not a multiple of 8 or shorter than 16 bytes, an explicitly passed EMPTY IV (b'')",
        "the counter word is a 32-bit word that wraps modulo 2^32 without carry into the 12 prefix bytes (SB2 ROM / BEE / OTFAD / IEE counter word); ctr_value and increments are "
        "naturals below 2^32; negative increments are not asserted",
        "Hash.update_int is asserted for positive integers only (minimal big-endian encoding); zero and negative values are not asserted",
        "key-store constants: sb_kek is anchored by unwrapping the key blob of a golden RT5xx SB2.1 file of the repository; hmac / enc_image constants are the documented "
        "AES-ECB(master, 00.. / 01..||02..) construction named in the property's anchors, without an independent artefact",
        "SB3.1 derivation-data layout is anchored by the repository's frozen vectors (tests/sbfile/sb31/test_functions.py at the pinned commit), not by NXP documentation",
        "histories of calls: the reference model of the module has no state besides the caller's Hash / KeyDerivator objects; calls outside the asserted domain (refused lengths, "
        "bad key sizes, operations on a finalized Hash object) are executed as part of a history but their own outcome is not asserted - only that every later asserted call still "
        "returns the term of its own arguments; histories are run in one process each, threads are not exercised",
        "for messages longer than 256 bytes (CRC: 24 bytes) TLC compares the observation with the bytes of the Python reference constructions (bound to the spec on every shorter case) "
        "instead of recomputing them from the primitive table",
    ]
    return v.finish()


def replay(path):
    import_spsdk()
    jvm_stack()
    body = json.load(open(path))
    w = body["witness"]
    if w["kind"] == "counter":
        if "pair" in w["trace"]:
            pr = w["trace"]["pair"]
            t = replay_counter_pair([tuple(j) for j in pr["jobs"]])[pr["me"]]
            t["id"] = 0
        else:
            hist = [{k: x for k, x in e.items() if k not in ("out", "beg")} for e in w["trace"]["ev"]]
            t = replay_counter((0, hist, 0))
        rej = rej_of(tlc.tv("C09", "CounterTrace", [t])[1])
        say(json.dumps(t)[:1500])
        if rej:
            say(f"VIOLATION property=C09 replay={path}")
            say(f"  key=C09/Counter/{counter_class(t, rej[0][0])}: rejected at event {rej[0][0] + 1}")
            return 1
        say("replay: trace accepted by the spec")
        return 0
    if w["kind"] == "history":
        import c09_hist as H

        t = H.run_history((0, w["hist"], w.get("salt", 0)))
        rej = rej_of(tlc.tv("C09", "HistTrace", [t], env={"CRC_MAX": CRC_MAX})[1])
        for e in t["ev"]:
            say(json.dumps({k: x for k, x in e.items() if k != "tab"})[:500])
        if rej:
            matched, _, fn, clause, exp, got = rej[0]
            if clause in ("oracle", "concretise"):
                raise Machinery(f"replay: clause {clause}")
            say(f"VIOLATION property=C09 replay={path}")
            say(f"  key={H.hist_key(t, matched, clause, exp, got)}: call {matched + 1} ({fn}) clause '{clause}' (the term of this call alone gives {exp}, observed {got})")
            return 1
        say("replay: history accepted by the spec")
        return 0
    case = dict(w["case"])
    if not w["trace"]["ev"][0]["full"]:
        case["full"] = False
    t = run_case((0, case, 0))
    rej = rej_of(tlc.tv("C09", "ApiTrace", [t], env={"CRC_MAX": CRC_MAX})[1])
    for e in t["ev"]:
        say(json.dumps({k: x for k, x in e.items() if k != "tab"})[:600])
    if rej:
        matched, _, fn, clause, exp, got = rej[0]
        if clause in ("oracle", "link", "concretise"):
            raise Machinery(f"replay: clause {clause}")
        say(f"VIOLATION property=C09 replay={path}")
        say(f"  key={api_key(t['ev'][matched], clause, exp, got)}: event {matched + 1} ({fn}) clause '{clause}' (spec expects {exp}, observed {got})")
        return 1
    say("replay: trace accepted by the spec")
    return 0
