"""C13 - the history lane: ONE object of every engine class, asked repeatedly and in any order for what it can deliver.

spec/C13/FlashEncHist.tla (R-spec, layered on FlashEnc): every image an object delivers equals the first one it delivered and is read
back by the engine exactly as a single export must be; every set of key blobs it delivers loads to the configured contexts.
 MC + GEN : FlashEncHistMC - TLC enumerates all histories of <= Depth requests (Export / BinaryImage / ExportKeyBlobs) for the classes
            Otfad, OtfadNxp, BeeNxp, Iee, IeeNxp over a model of what the object HOLDS (cipher layers on its data), checks that the
            R-spec steps accept every history of the "fresh copy" design and - FlashEncHistPredict.cfg - reject the second image of the
            "in place" design; it prints every history of exactly Depth requests.
 exec     : each history is run on ONE real object per representative configuration of every engine and mode (c13.py's case format:
            a decrypting region, a gap, a second region of another kind; the image starts in the first and ends in the second), the
            data held as one blob / two blobs / a blob made of two nested segments (NXP-level classes).  After every request the
            engine model - holding the CONFIGURED keys, nothing taken from the object - reads the delivered image cell by cell and the
            ROM model loads the delivered key blobs; a SHA-256 prefix of the image is logged.
 TV       : TLC (FlashEncHistTrace) recomputes every logged number, compares every digest with the first and decides.
"""
import hashlib
import json
import os

import c13 as base
import c13_hw as hw
from lib import tlc
from lib.common import Machinery, rng, say
from lib.par import pmap

ANCH = base.ANCH
NXP = ("OtfadNxp", "IeeNxp")
ENGINE = {"Otfad": "otfad", "OtfadNxp": "otfad", "BeeNxp": "bee", "Iee": "iee", "IeeNxp": "iee"}
IMAGE_OPS = ("Export", "BinaryImage")
SHAPES = ["flat", "two", "nested"]
IEE_HIST_MODES = [list(x) for x in base.IEE_MODES] + [["bypass", "Bypass", "CTR128XTS256"]]
OTFAD_HIST_FAMILIES = ["mimxrt1176", "mimxrt1189", "mimx9352", "mimxrt595s"]   # plain / swapped key blobs + reversed mask / swapped / no scrambling


# ------------------------------------------------------------------------------------------------ representative configurations
def geometries(eng, tier):
    """(region A, region B, base cell, sub-cell offset, length in cells): the image starts inside A and ends inside B.
    quick: a gap between the regions (inside / outside / inside); thorough: also adjacent regions and a base that is not unit aligned."""
    out = [((0, 7), (12, 15), 4, 0, 9)]
    if tier == "thorough":
        out.append(((0, 3), (4, 11), 0, 0, 7) if eng == "iee" else ((0, 3), (4, 11), 1, 16, 6))
    return out


def configurations(tier):
    """One configuration per engine class and mode (x geometry): the part of a case that does not depend on the history."""
    out = []
    for cls, eng in ENGINE.items():
        C = 1024 if eng == "iee" else 256
        if eng == "otfad":
            if cls == "Otfad":
                variants = [("ctr", "byp", 0, None), ("ctr-swap", "on", 8, [0x12345678, 0xE4, False]), ("ctr", "inv", 16, [0, 0, True])]
            else:
                variants = [("ctr", ["byp", "on", "inv", "on"][i], None, [0x80000001, 0x1B, False] if i < 2 else None, f) for i, f in enumerate(OTFAD_HIST_FAMILIES)]
        elif eng == "bee":
            variants = [("1eng", (0, 0)), ("1eng", (1, 1)), ("2eng", (0, 1)), ("2eng", (1, 0))]
        else:
            variants = list(range(len(IEE_HIST_MODES)))
        for gi, (ra, rb, bcell, sub, lc) in enumerate(geometries(eng, tier)):
            for vi, var in enumerate(variants):
                tail = base.TAILS[(vi + gi + len(out)) % len(base.TAILS)]
                cc = {"eng": eng, "cls": cls, "C": C, "unit": 4, "base": bcell, "sub": sub, "len": lc * C + tail, "rule": "units",
                      "origin": base.ORIGINS[(vi + 2 * gi + len(cls)) % len(base.ORIGINS)], "api": "hist", "kb": True, "geo": gi, "vi": vi}
                regs = [{"lo": ra[0], "hi": ra[1], "fl": "on"}, {"lo": rb[0], "hi": rb[1], "fl": "on"}]
                if eng == "otfad":
                    cc["var"] = cc["mode"] = var[0]
                    cc["swap"] = var[0] == "ctr-swap"
                    cc["nrec"] = 4
                    regs[1]["fl"] = var[1]
                    cc["kbswap"], cc["scr"] = var[2], var[3]
                    if cls == "OtfadNxp":
                        cc["family"] = var[4]
                    for j, x in enumerate(regs):
                        x["style"] = ["incl", "excl"][(vi + j) % 2]
                        x["inp"] = "addr"
                        x["flags"] = {"on": 3, "byp": 1, "inv": 2}[x["fl"]] | (4 if (vi + j) % 2 else 0)
                    if vi % 2:
                        regs.reverse()  # the order of the key blobs is not the address order
                elif eng == "bee":
                    cc["var"] = var[0]
                    cc["mode"] = "ctr-" + var[0]
                    cc["nrec"] = 2
                    for j, x in enumerate(regs):
                        x.update(style="excl", inp="shr4", engine=var[1][j], level=(vi + j) % 4)
                    regs.sort(key=lambda x: x["engine"])  # records are read engine by engine
                else:
                    cc["var"] = "hist"
                    cc["nrec"] = 4
                    if cls == "IeeNxp":
                        cc["family"] = base.IEE_FAMILIES[vi % len(base.IEE_FAMILIES)]
                    for j, x in enumerate(regs):
                        x["m"] = list(IEE_HIST_MODES[(var + j) % len(IEE_HIST_MODES)])
                        x["fl"] = "byp" if x["m"][1] == "Bypass" else "on"
                        x["inp"] = {"AesXTS": "page", "AesCTRWAddress": "shr4"}.get(x["m"][1], "none")
                        x["style"], x["lock"] = "excl", (vi + j) % 3 == 0
                    if vi % 2:
                        regs.reverse()
                    cc["mode"] = "+".join(x["m"][0] for x in sorted(regs, key=lambda x: x["lo"]))
                cc["regs"] = regs
                out.append(cc)
    return out


def hist_cases(histories, tier):
    """histories: what FlashEncHistMC printed ({cls, hist}).  Every history x every configuration of its class; the shape of the data
    held by an NXP-level object rotates with (history, configuration) in the quick tier and takes every value in the thorough tier."""
    cfgs = configurations(tier)
    by_cls = {}
    for h in histories:
        by_cls.setdefault(h["cls"], []).append(h["hist"])
    cases = []
    for ci, cfg in enumerate(cfgs):
        hs = sorted(by_cls.get(cfg["cls"], []))
        if not hs:
            raise Machinery(f"GEN (history) printed no history for class {cfg['cls']}")
        for hi, h in enumerate(hs):
            shapes = ["flat"] if cfg["cls"] not in NXP else (SHAPES if tier == "thorough" else [SHAPES[(hi + ci) % len(SHAPES)]])
            for shape in shapes:
                cc = json.loads(json.dumps(cfg))
                cc.update(hist=list(h), shape=shape, id=f"h{len(cases)}")
                cases.append(cc)
    return cases


# ------------------------------------------------------------------------------------------------ the engine that holds the configured keys
def configured_reader(cc, m):
    """The engine model loaded with the CONFIGURED contexts (nothing the object under test delivered is used)."""
    regs = list(zip(cc["regs"], m["regs"]))
    if cc["eng"] == "otfad":
        ctxs = []
        for g, mg in regs:
            start, last = base.addr_range(cc, g)
            ctxs.append(hw.OtfadCtx(mg["key"][:16], mg["ctr"], start, (last & ~0x3FF) | g["flags"]))

        def read(a, cb, short):
            i, dec, inp, data = hw.otfad_read(ctxs, a, cb, cc.get("swap", False))
            return i, dec, base.limbs(inp) if dec else [0, 0], data
        return read
    if cc["eng"] == "bee":
        engs = [None, None]
        for e in (0, 1):
            facs = [(base.addr_range(cc, g)[0], base.addr_range(cc, g)[1] + 1, g["level"]) for g, _ in regs if g["engine"] == e]
            if facs:
                engs[e] = hw.BeeEngine(m["swkeys"][e], m["bnonce"][e], facs)

        def read(a, cb, short):
            e, k, inp, data = hw.bee_read(engs, a, cb)
            if not e:
                return 0, False, [0, 0], data
            idx = [i for i, g in enumerate(cc["regs"], start=1) if g["engine"] == e - 1][k - 1]
            return idx, True, [inp, 0], data
        return read
    regions = []
    for g, mg in regs:
        start, last = base.addr_range(cc, g)
        k1, k2 = base.iee_keys(g, mg)
        regions.append(hw.IeeRegion(g["m"][1], g["m"][2], k1.ljust(32, b"\0"), k2.ljust(32, b"\0"), start, last + 1))
    return base.iee_reader(regions)


# ------------------------------------------------------------------------------------------------ the object under test
def held_data(cc, plain, start, first, **kw):
    """The data blobs of an NXP-level object: one blob / two blobs cut at an engine-unit boundary / one blob made of two nested segments."""
    from spsdk.utils.images import BinaryImage

    bins = BinaryImage("encrypted_blobs", offset=start - first, **kw)
    C, lo = cc["C"], cc["base"] * cc["C"] + cc["sub"]
    cuts = base.cuts(cc, "units")
    cut = cuts[len(cuts) // 2] * C - lo if cuts else 0
    shape = cc["shape"] if 0 < cut < len(plain) else "flat"
    off = cc["origin"] + lo - start
    if shape == "flat":
        bins.add_image(BinaryImage("data", offset=off, binary=plain, **kw))
    elif shape == "two":
        bins.add_image(BinaryImage("data0", offset=off, binary=plain[:cut], **kw))
        bins.add_image(BinaryImage("data1", offset=off + cut, binary=plain[cut:], **kw))
    else:
        holder = BinaryImage("data", offset=off, **kw)
        holder.add_image(BinaryImage("seg0", offset=0, binary=plain[:cut], **kw))
        holder.add_image(BinaryImage("seg1", offset=cut, binary=plain[cut:], **kw))
        bins.add_image(holder)
    return bins


def build_object(cc, m):
    """-> (the object, {request: callable -> (image bytes from the image's base address | None, key blobs | None)}, ROM-side loader)."""
    C, origin = cc["C"], cc["origin"]
    plain = m["plain"]
    addr = origin + cc["base"] * C + cc["sub"]
    n = len(plain) + (-len(plain) % 16)
    start = min([addr] + [base.addr_range(cc, g)[0] for g in cc["regs"]])
    cls = cc["cls"]

    def image_of(bimg, first):
        """The bytes an exported BinaryImage holds for the image's address range (bimg is a root: its offset counts from `first`)."""
        data = bimg.export()
        at = addr - (first + bimg.absolute_address)
        return data[at:at + n] if at >= 0 else b""

    if cc["eng"] == "otfad":
        from spsdk.utils.crypto.otfad import KeyBlob, Otfad, OtfadNxp
        from spsdk.utils.database import get_db

        def blobs():
            res = []
            for g, mg in zip(cc["regs"], m["regs"]):
                s, last = base.addr_range(cc, g)
                res.append(KeyBlob(start_addr=s, end_addr=last if g["style"] == "incl" else last + 1, key=mg["key"][:16], counter_iv=mg["ctr"],
                                   key_flags=g["flags"], zero_fill=bytes(4)))
            return res

        scr, kbswap = cc["scr"], cc["kbswap"]
        rev = bool(scr and scr[2])
        if cls == "OtfadNxp":
            db = get_db(cc["family"], "latest")
            kbswap = db.get_int("otfad", "keyblob_byte_swap_cnt")
            rev = db.get_bool("otfad", "reversed_scramble_key", False)
            if not db.get_bool("otfad", "supports_key_scrambling", False):
                scr = None
            ta = origin - 0x1000
            obj = OtfadNxp(cc["family"], m["kek"], ta, key_blobs=blobs(), key_scramble_mask=scr[0] if scr else None,
                           key_scramble_align=scr[1] if scr else None, binaries=held_data(cc, plain, start, ta))

            def binary_image():
                flash = obj.binary_image().export()
                return flash[addr - ta: addr - ta + n], flash[:256]
            ops = {"Export": lambda: (image_of(obj.export_image(table_address=obj.table_address), ta), None),  # the table address as binary_image() passes it
                   "BinaryImage": binary_image,
                   "ExportKeyBlobs": lambda: (None, obj.encrypt_key_blobs(obj.kek, obj.key_scramble_mask, obj.key_scramble_align, obj.keyblob_byte_swap_cnt))}
        else:
            obj = Otfad(reversed_scramble_key=rev)
            for b in blobs():
                obj.add_key_blob(b)
            ops = {"Export": lambda: (obj.encrypt_image(plain, addr, cc["swap"]), None),
                   "ExportKeyBlobs": lambda: (None, obj.encrypt_key_blobs(m["kek"], scr[0] if scr else None, scr[1] if scr else None, byte_swap_cnt=kbswap))}
        hwscr = (scr[0], scr[1], rev) if scr else None
        return obj, ops, lambda tab: base.otfad_blob_events(cc, m, tab, m["kek"], kbswap, hwscr)[0]

    if cc["eng"] == "bee":
        from spsdk.image.bee import BeeFacRegion, BeeKIB, BeeNxp, BeeProtectRegionBlock, BeeRegionHeader

        locks = base.bee_locks(m)
        hs = [None, None]
        for e in sorted({g["engine"] for g in cc["regs"]}):
            h = BeeRegionHeader(BeeProtectRegionBlock(counter=m["bnonce"][e], lock_options=locks[e]), m["swkeys"][e], BeeKIB(*m["kib"][e]))
            for g in cc["regs"]:
                if g["engine"] == e:
                    s, last = base.addr_range(cc, g)
                    h.add_fac(BeeFacRegion(s, last + 1 - s, g["level"]))
            hs[e] = h
        obj = BeeNxp(hs, plain, addr)
        ops = {"Export": lambda: (obj.export_image(), None), "ExportKeyBlobs": lambda: (None, obj.export_headers())}
        return obj, ops, lambda hdrs: base.bee_blob_events(cc, m, hdrs, locks)[0]

    from spsdk.utils.crypto.iee import (Iee, IeeKeyBlob, IeeKeyBlobAttribute, IeeKeyBlobKeyAttributes, IeeKeyBlobLockAttributes,
                                        IeeKeyBlobModeAttributes, IeeNxp)

    kba = origin - 0x1000

    def iee_blobs():
        res = []
        for g, mg in zip(cc["regs"], m["regs"]):
            s, last = base.addr_range(cc, g)
            attr = IeeKeyBlobAttribute(IeeKeyBlobLockAttributes.LOCK if g["lock"] else IeeKeyBlobLockAttributes.UNLOCK,
                                       IeeKeyBlobKeyAttributes.from_label(g["m"][2]), IeeKeyBlobModeAttributes.from_label(g["m"][1]))
            k1, k2 = base.iee_keys(g, mg)
            res.append(IeeKeyBlob(attr, s, last + 1, key1=k1, key2=k2))
        return res

    if cls == "IeeNxp":
        obj = IeeNxp(cc["family"], kba, m["ibkek1"], m["ibkek2"], key_blobs=iee_blobs(), binaries=held_data(cc, plain, start, kba, alignment=16))

        def binary_image():
            flash = obj.binary_image().export()
            return flash[addr - kba: addr - kba + n], flash[:384]
        ops = {"Export": lambda: (image_of(obj.export_image(), kba), None), "BinaryImage": binary_image,
               "ExportKeyBlobs": lambda: (None, obj.export_key_blobs())}
    else:
        obj = Iee()
        for b in iee_blobs():
            obj.add_key_blob(b)
        ops = {"Export": lambda: (obj.encrypt_image(plain, addr), None),
               "ExportKeyBlobs": lambda: (None, obj.encrypt_key_blobs(m["ibkek1"], m["ibkek2"], kba))}
    return obj, ops, lambda tab: base.iee_blob_events(cc, m, tab, kba, len(tab))[0]


def digest(data):
    d = hashlib.sha256(data).digest()
    return [int.from_bytes(d[i:i + 2], "big") for i in range(0, 8, 2)]


def run_history(cc):
    """One object, the requests of cc["hist"] in order -> one trace for FlashEncHistTrace (+ information that is not asserted)."""
    from spsdk.exceptions import SPSDKError

    m = base.material(cc)
    plain = m["plain"]
    case = dict(base.spec_case(cc, m), cls=cc["cls"])
    read = configured_reader(cc, m)
    evs, kbdig, kbdiff = [], None, 0

    def failed(x, op, i):
        evs.append({"e": "Refused" if isinstance(x, SPSDKError) else "Crash", "exc": type(x).__name__, "op": op, "i": i, "msg": str(x)[:160]})

    try:
        _, ops, load = build_object(cc, m)
    except Exception as x:  # noqa: BLE001 - an observation: no step of the spec matches it
        failed(x, "build", 0)
        ops = None
    for i, op in enumerate(cc["hist"] if ops else [], start=1):
        ev = {"e": op, "i": i, "dig": [], "cells": [], "outLen": 0, "blobs": []}
        try:
            if op not in ops:
                raise Machinery(f"class {cc['cls']} has no request {op}")
            img, kb = ops[op]()
            if img is not None:
                img = bytes(img)
                cells = base.cell_events(cc, plain, img, read)
                ev["outLen"] = cells.pop()["outLen"]
                ev["cells"] = [{k: v for k, v in c.items() if k != "e"} for c in cells]
                ev["dig"] = digest(img[:len(plain)])
            if kb is not None:
                ev["blobs"] = [{k: v for k, v in b.items() if k != "e"} for b in load(kb) if b["e"] == "Blob"]
                d = hashlib.sha256(b"".join(x or b"" for x in kb) if isinstance(kb, list) else bytes(kb)).digest()
                kbdiff += kbdig is not None and d != kbdig
                kbdig = kbdig or d
        except Machinery:
            raise
        except Exception as x:  # noqa: BLE001
            failed(x, op, i)
            break
        evs.append(ev)
    return {"id": cc["id"], "kind": "hist", "case": case, "ev": evs, "info": {"kb_bytes_differ": int(kbdiff)}}


# ------------------------------------------------------------------------------------------------ verdict keys
def finding_key(cc, t, matched):
    evs = t["ev"]
    ev = evs[matched] if matched < len(evs) else evs[-1]
    head = f"C13/{cc['eng']}/{cc['mode']}/history/{cc['cls']}"
    if ev["e"] in ("Refused", "Crash"):
        nth = sum(1 for x in evs[:matched] if x["e"] == ev.get("op"))
        return f"{head}/{ev.get('op')}/{'first' if nth == 0 else 'repeated'}/" + ("refused" if ev["e"] == "Refused" else f"crash:{ev.get('exc')}")
    before = [x for x in evs[:matched] if x["e"] in IMAGE_OPS]
    if ev["e"] in IMAGE_OPS:
        pos = "repeated-image" if before else "first-image"
        if before and ev["dig"] != before[0]["dig"]:
            return f"{head}/{ev['e']}/{pos}/differs-from-first"
        if any(not c.get("ok") for c in ev["cells"]):
            return f"{head}/{ev['e']}/{pos}/decrypts"
        if ev["e"] == "Export" or all(all(b[f] for f in ("authOk", "crcOk", "keyOk", "ctrOk", "attrOk")) for b in ev["blobs"][:len(cc["regs"])]):
            return f"{head}/{ev['e']}/{pos}/selection"
    nth = sum(1 for x in evs[:matched] if x["blobs"])
    for b in ev["blobs"][:len(cc["regs"])]:
        for f in ("authOk", "crcOk", "keyOk", "ctrOk", "attrOk"):
            if not b[f]:
                return f"{head}/{ev['e']}/{'first' if nth == 0 else 'repeated'}-keyblobs/{f}"
    return f"{head}/{ev['e']}/{'first' if nth == 0 else 'repeated'}-keyblobs/range"


# ------------------------------------------------------------------------------------------------ canary (stored traces: SPSDK is not run)
CANARY_HISTS = {"IeeNxp": ["Export", "BinaryImage", "ExportKeyBlobs", "Export"], "OtfadNxp": ["BinaryImage", "ExportKeyBlobs", "BinaryImage"],
                "BeeNxp": ["Export", "ExportKeyBlobs", "Export"], "Otfad": ["ExportKeyBlobs", "Export", "Export"], "Iee": ["Export", "Export"]}


def make_canary():
    """Regenerates anchors/C13/canary_hist.json (run once on a tree where the property holds, after a change of the trace format):
    VERIF_ROOT=/verif PYTHONPATH=/repo:/verif/harness /venv/bin/python -c 'import c13_hist; c13_hist.make_canary()'"""
    from lib.common import import_spsdk

    import_spsdk()
    good, seen = [], set()
    for cfg in configurations("quick"):
        if cfg["cls"] in seen:
            continue
        seen.add(cfg["cls"])
        cc = dict(cfg, hist=CANARY_HISTS[cfg["cls"]], shape="two", id="canary-" + cfg["cls"])
        t = run_history(cc)
        t.pop("info")
        good.append(t)
    rej, _ = tlc.tv("C13", "FlashEncHistTrace", good)
    if rej or any(len(t["ev"]) != len(CANARY_HISTS[t["case"]["cls"]]) for t in good):
        raise Machinery(f"not a good canary: {rej}")
    with open(os.path.join(ANCH, "canary_hist.json"), "w") as f:
        json.dump(good, f, indent=1)


def canary(v):
    """Stored histories (made once on a tree where the property holds; nothing of SPSDK runs here) must be accepted; each of them with
    ONE later observation changed must be rejected AT that observation."""
    with open(os.path.join(ANCH, "canary_hist.json")) as f:
        good = {t["case"]["cls"]: t for t in json.load(f)}

    def variant(cls, name, at, change):
        t = json.loads(json.dumps(good[cls]))
        t["id"] = name
        change(t["ev"][at])
        return t, at

    def dig(ev):
        ev["dig"][3] ^= 1

    def cell(ev):
        ev["cells"][1]["ok"] = False

    def kbrange(ev):
        ev["blobs"][0]["hi"][1] ^= 0x400

    def op(name):
        def change(ev):
            ev["e"] = name
        return change

    bad = [variant("IeeNxp", "bad/hist/second-image-differs", 1, dig),            # E(E(p)) / plaintext: not the first image
           variant("IeeNxp", "bad/hist/last-image-differs", 3, dig),
           variant("Iee", "bad/hist/low-level-second-differs", 1, dig),
           variant("BeeNxp", "bad/hist/image-after-keyblobs-not-plain", 2, cell),  # same bytes claimed, but the engine does not get the plaintext
           variant("OtfadNxp", "bad/hist/repeated-keyblobs-range", 1, kbrange),    # key blobs delivered later in the history load another range
           variant("OtfadNxp", "bad/hist/third-binary-image-keyblobs", 2, kbrange),
           variant("BeeNxp", "bad/hist/alphabet", 0, op("BinaryImage")),           # a low-level class has no such request
           variant("Otfad", "bad/hist/first-image-not-plain", 1, cell)]
    goods = [dict(t, id="good/hist/" + cls) for cls, t in good.items()]
    rej, _ = tlc.tv("C13", "FlashEncHistTrace", goods + [t for t, _ in bad])
    want = {t["id"]: at for t, at in bad}
    got = {tid: r[0] for tid, r in rej.items()}
    if got != want or len(goods) != len(CANARY_HISTS):
        raise Machinery(f"history canary failed: rejected {got}; expected exactly the corrupted histories at the corrupted request {want}")
    v.extra["canary_history"] = (f"{len(goods)} stored histories (one per engine class) accepted; {len(bad)} copies with one later digest / one cell / one key-blob range / "
                                 "one request name changed rejected at exactly that request")


# ------------------------------------------------------------------------------------------------ the lane
def predict():
    """I-spec variant 'in place' (an export writes its result back into the data the object holds): the R-spec steps must reject it."""
    p = tlc.run("C13", "FlashEncHistMC", "FlashEncHistPredict.cfg", workers=1, timeout=300)
    if p.violated != "NeverRejected":
        raise Machinery(f"prediction run FlashEncHistPredict.cfg: expected NeverRejected to be violated, got {p.violated}")
    return f"NeverRejected violated after {p.generated} states (the second image of a history)"


def lane(v, tier):
    quick = tier == "quick"
    acts = ("DoExport", "DoBinaryImage", "DoExportKeyBlobs")
    mc = tlc.mc("C13", "FlashEncHistMC", "FlashEncHistMC.cfg" if quick else "FlashEncHistMC_thorough.cfg", require_actions=acts, workers=1, timeout=600)
    histories = mc.json_prints()
    depth = 3 if quick else 4
    want = {"OtfadNxp": 3 ** depth, "IeeNxp": 3 ** depth, "Otfad": 2 ** depth, "Iee": 2 ** depth, "BeeNxp": 2 ** depth}
    got = {}
    for h in histories:
        got[h["cls"]] = got.get(h["cls"], 0) + 1
    if got != want or len({json.dumps(h, sort_keys=True) for h in histories}) != len(histories):
        raise Machinery(f"GEN (history) printed {got} histories, expected {want}")
    v.add_mc(mc)
    cases = hist_cases(histories, tier)
    traces = pmap(run_history, cases, chunksize=4)
    info = {}
    for t in traces:
        for k, n in t.pop("info").items():
            info[k] = info.get(k, 0) + n
    by_id = {cc["id"]: cc for cc in cases}
    rej, res = tlc.tv("C13", "FlashEncHistTrace", traces, heap="4g", timeout=900)
    v.extra["tv_states"] = v.extra.get("tv_states", 0) + res.distinct
    v.traces(len(traces))
    v.count(len(cases))
    for t in traces:
        cc = by_id[t["id"]]
        if cc["len"] > 0 and t["ev"] and t["ev"][0]["e"] not in ("Refused", "Crash"):
            v.nontrivial(json.dumps(["hist", cc["cls"], cc["mode"], cc["vi"], cc["geo"], cc["shape"], cc["hist"]]))
    v.sample({"id": traces[0]["id"], "kind": "hist", "case": traces[0]["case"], "ev": [dict(e, cells=e["cells"][:2], blobs=e["blobs"][:1]) for e in traces[0]["ev"][:3]]})
    for t in traces:
        if t["id"] in rej:
            matched = rej[t["id"]][0]
            cc = by_id[t["id"]]
            ev = t["ev"][matched] if matched < len(t["ev"]) else t["ev"][-1]
            short = dict(ev, cells=[c for c in ev.get("cells", []) if not c.get("ok")][:3], blobs=ev.get("blobs", [])[:2])
            v.violation(finding_key(cc, t, matched),
                        f"history {cc['id']} ({cc['cls']}, {cc['mode']}, data held as '{cc['shape']}'): requests {cc['hist']}; request #{matched + 1} {json.dumps(short)[:300]} "
                        "is not a step of the history spec (an image differs from the first one the object delivered, is not read back as the plaintext, or key blobs do not load as configured)",
                        {"case": cc, "kind": "hist", "trace": t, "failed_event": matched + 1})
    v.extra["history_lane"] = {
        "histories_per_class": got, "configurations": len(configurations(tier)), "objects": len(cases), "requests": sum(len(t["ev"]) for t in traces),
        "not_asserted_keyblob_bytes_differ_from_first": info.get("kb_bytes_differ", 0)}
    say(f"[C13] history lane: {len(histories)} histories (depth {depth}) x {len(configurations(tier))} configurations -> {len(cases)} objects, "
        f"{sum(len(t['ev']) for t in traces)} requests, {len(rej)} rejected {v.timer.s()}s")
    return mc


RULE = ("histories = ALL sequences of {n} requests TLC enumerates per engine class (Otfad / Iee / BeeNxp: Export, ExportKeyBlobs; OtfadNxp / IeeNxp: Export, BinaryImage, "
        "ExportKeyBlobs), each run on ONE object per representative configuration (Otfad plain / byte-swapped / invalid second context, OtfadNxp x 4 families with and "
        "without KEK scrambling, BEE one / two engines, Iee and IeeNxp: XTS-256/512, CTR-128/256 with address, bypass as first and as second region; "
        "image = inside a region, outside, inside a second region{geo}), data held as one blob / two blobs / nested segments ({shapes})")


def rule(tier):
    return RULE.format(n=3 if tier == "quick" else 4, geo="" if tier == "quick" else "; adjacent regions with a base that is not unit aligned",
                       shapes="in rotation with the history" if tier == "quick" else "all three")


def replay(cc):
    t = run_history(cc)
    t.pop("info")
    rej, _ = tlc.tv("C13", "FlashEncHistTrace", [t])
    return t, rej
