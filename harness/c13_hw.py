"""C13 - models of the on-the-fly decryption hardware (OTFAD, BEE, IEE) and of the boot-ROM step that loads their key blobs.

Independent of spsdk: nothing of spsdk is imported here. Trusted base = the AES block function (`cryptography`, ECB on one
block) + pure Python.  Modes (CTR counter blocks, XTS tweak chain, RFC 3394 unwrap, CBC) and the CRC are built here from the block
function, as the engines are documented:

  OTFAD  context hit: SRTADDR[31:10] <= addr[31:10] <= ENDADDR[31:10], VLD;  decrypt when ADE;
         counter block of the 16-byte cell at system address a:
             CTR[0..3] | CTR[4..7] | CTR[0..3] xor CTR[4..7] | a[31:4],0000b   (big endian)
         key blob = RFC 3394 wrap (KEK) of 40 bytes: key[16] ctr[8] srtaddr endaddr|flags zero crc32(first 32 bytes, CRC-32/MPEG-2)
         KEK scrambling: the KEK word selected by two bits of key_scramble_align per context is xored with key_scramble
  BEE    AES-CTR, counter block of the cell at a: nonce[0..11] | (a >> 4) big endian; region = FAC regions [start, end)
         header: EKIB = AES-ECB(sw key, kib key | kib iv), EPRDB = AES-CBC(kib key, kib iv, PRDB)
  IEE    AES-XTS: data unit = 4 KiB page, tweak = page number (little endian, 16 bytes), keys word-reversed
         AES-CTR with address binding: counter block = nonce with (a >> 4) added to its last big-endian word
         key blobs: one XTS data unit (tweak = page number of the key blob address) under IBKEK1|IBKEK2, CRC-32/MPEG-2 per blob
The constructions are anchored on golden artefacts made by NXP's reference tool (anchors/C13, `selftest()`).
"""
import struct

from cryptography.hazmat.primitives.ciphers import Cipher, algorithms, modes


class Aes:
    """The block function, nothing else."""

    def __init__(self, key):
        c = Cipher(algorithms.AES(bytes(key)), modes.ECB())
        self._e = c.encryptor()
        self._d = c.decryptor()

    def enc(self, block):
        assert len(block) == 16
        return self._e.update(bytes(block))

    def dec(self, block):
        assert len(block) == 16
        return self._d.update(bytes(block))


def xor(a, b):
    return bytes(x ^ y for x, y in zip(a, b))


def crc32_mpeg2(data):
    """Bit-serial CRC-32/MPEG-2: poly 04C11DB7, init FFFFFFFF, no reflection, no final xor."""
    reg = 0xFFFFFFFF
    for byte in data:
        for bit in range(7, -1, -1):
            top = (reg >> 31) & 1
            reg = (reg << 1) & 0xFFFFFFFF
            if top ^ ((byte >> bit) & 1):
                reg ^= 0x04C11DB7
    return reg


def rfc3394_unwrap(kek, wrapped):
    """-> (A, plaintext).  A must equal A6A6A6A6A6A6A6A6 for an authentic blob."""
    aes = Aes(kek)
    n = len(wrapped) // 8 - 1
    a = wrapped[:8]
    r = [wrapped[8 * (i + 1): 8 * (i + 2)] for i in range(n)]
    for j in range(5, -1, -1):
        for i in range(n, 0, -1):
            t = n * j + i
            b = aes.dec(xor(a, t.to_bytes(8, "big")) + r[i - 1])
            a, r[i - 1] = b[:8], b[8:]
    return a, b"".join(r)


def rev_words(b):
    """Byte order inside every 32-bit word reversed (key registers are loaded word-wise)."""
    return b"".join(b[i: i + 4][::-1] for i in range(0, len(b), 4))


def rev_bits32(x):
    return int(f"{x:032b}"[::-1], 2)


# ------------------------------------------------------------------------------------------------------------ OTFAD
class OtfadCtx:
    def __init__(self, key, ctr, srt, end_word):
        self.key, self.ctr = key, ctr
        self.lo = srt & ~0x3FF
        self.hi = end_word | 0x3FF
        self.vld = bool(end_word & 1)
        self.ade = bool(end_word & 2)
        self.ro = bool(end_word & 4)
        self.srt, self.end_word = srt, end_word
        self._aes = None

    def hit(self, a):
        return self.vld and self.lo <= a <= self.hi

    def ctr_block(self, a):
        c = self.ctr
        return c[0:4] + c[4:8] + xor(c[0:4], c[4:8]) + (a & 0xFFFFFFF0).to_bytes(4, "big")

    def keystream(self, a):
        if self._aes is None:
            self._aes = Aes(self.key)
        return self._aes.enc(self.ctr_block(a))


def otfad_kek_for(kek, i, scramble):
    """scramble = None | (mask, align, reversed_mask)"""
    if scramble is None:
        return kek
    mask, align, rev = scramble
    if rev:
        mask = rev_bits32(mask)
    k = bytearray(kek)
    w = (align >> (2 * i)) & 3
    for j, m in enumerate(mask.to_bytes(4, "little")):
        k[4 * w + j] ^= m
    return bytes(k)


def otfad_load_table(table, kek, nblobs, swap_cnt=0, scramble=None, rec_size=64):
    """What the ROM does with the key-blob table: un-swap, unwrap with the (scrambled) KEK, check, load the context.
    -> list of dicts {ivOk, crcOk, key, ctr, srt, end, ctx}"""
    res = []
    for i in range(nblobs):
        rec = table[rec_size * i: rec_size * i + rec_size]
        w = rec[:48]
        if swap_cnt:
            w = b"".join(w[k: k + swap_cnt][::-1] for k in range(0, 48, swap_cnt))
        a, p = rfc3394_unwrap(otfad_kek_for(kek, i, scramble), w)
        key, ctr = p[0:16], p[16:24]
        srt, end = struct.unpack("<II", p[24:32])
        crc = struct.unpack("<I", p[36:40])[0]
        res.append({"ivOk": a == b"\xa6" * 8, "crcOk": crc == crc32_mpeg2(p[:32]), "key": key, "ctr": ctr, "srt": srt, "end": end,
                    "zero": p[32:36], "ctx": OtfadCtx(key, ctr, srt, end)})
    return res


def swap8(b):
    return b[7::-1] + b[15:7:-1]


def otfad_read(ctxs, a, cblock, byte_swap=False):
    """One 16-byte fetch at system address a. -> (context index (1-based) or 0, decrypted?, counter-block address field, data)"""
    for i, c in enumerate(ctxs, start=1):
        if c is not None and c.hit(a):
            if not c.ade:
                return i, False, 0, cblock
            ks = c.keystream(a)
            if byte_swap:
                ks = swap8(ks)
            return i, True, int.from_bytes(c.ctr_block(a)[12:], "big"), xor(cblock, ks)
    return 0, False, 0, cblock


# ------------------------------------------------------------------------------------------------------------ BEE
def cbc_decrypt(key, iv, data):
    aes = Aes(key)
    out, prev = b"", iv
    for i in range(0, len(data), 16):
        blk = data[i: i + 16]
        out += xor(aes.dec(blk), prev)
        prev = blk
    return out


class BeeEngine:
    def __init__(self, user_key, nonce, facs):
        self.key, self.nonce, self.facs = user_key, nonce, facs  # facs: list of (start, end_exclusive, level)
        self._aes = Aes(user_key)

    def hit(self, a):
        for k, (s, e, _) in enumerate(self.facs, start=1):
            if s <= a < e:
                return k
        return 0

    def ctr_block(self, a):
        return self.nonce[:12] + (((int.from_bytes(self.nonce[12:], "big")) + (a >> 4)) & 0xFFFFFFFF).to_bytes(4, "big")

    def keystream(self, a):
        return self._aes.enc(self.ctr_block(a))


def bee_load_header(hdr, sw_key):
    """ROM view of one 512-byte BEE region header. -> dict {tagOk, count, start, end, mode, lock, nonce, facs, engine}"""
    kib = Aes(sw_key).dec(hdr[0:16]) + Aes(sw_key).dec(hdr[16:32])
    kib_key, kib_iv = kib[:16], kib[16:]
    prdb = cbc_decrypt(kib_key, kib_iv, hdr[0x80:0x180])
    tagl, tagh, ver, cnt, start, end, mode, lock = struct.unpack_from("<8I", prdb, 0)
    nonce = prdb[32:48][::-1]
    facs = []
    for k in range(min(cnt, 4)):
        s, e, lvl = struct.unpack_from("<3I", prdb, 80 + 32 * k)
        facs.append((s, e, lvl))
    return {"tagOk": (tagl, tagh, ver) == (0x5F474154, 0x52444845, 0x56010000), "count": cnt, "start": start, "end": end, "mode": mode,
            "lock": lock, "nonce": nonce, "facs": facs, "rsvOk": prdb[48:80] == bytes(32), "engine": BeeEngine(sw_key, nonce, facs)}


def bee_read(engines, a, cblock):
    """-> (engine index 1-based or 0, fac index, counter field, data). Engines are tried in order; regions are disjoint."""
    for i, e in enumerate(engines, start=1):
        if e is None:
            continue
        k = e.hit(a)
        if k:
            return i, k, a >> 4, xor(cblock, e.keystream(a))
    return 0, 0, 0, cblock


# ------------------------------------------------------------------------------------------------------------ IEE
def gf_double(t):
    """Multiplication by alpha in GF(2^128), little-endian convention of IEEE 1619."""
    n = int.from_bytes(t, "little") << 1
    if n >> 128:
        n = (n & ((1 << 128) - 1)) ^ 0x87
    return n.to_bytes(16, "little")


def xts_decrypt_unit(key1, key2, unit_no, data, first_block=0):
    """IEEE 1619 XTS-AES on (part of) one data unit: blocks first_block.. of unit number unit_no. len(data) % 16 == 0."""
    a1, a2 = Aes(key1), Aes(key2)
    t = a2.enc(unit_no.to_bytes(16, "little"))
    for _ in range(first_block):
        t = gf_double(t)
    out = b""
    for i in range(0, len(data), 16):
        out += xor(a1.dec(xor(data[i: i + 16], t)), t)
        t = gf_double(t)
    return out


IEE_MODES = {0x6A: "Bypass", 0xA6: "AesXTS", 0x66: "AesCTRWAddress", 0xAA: "AesCTRWOAddress", 0x19: "AesCTRkeystream"}
IEE_KEYSIZE = {0x5A: "CTR128XTS256", 0xA5: "CTR256XTS512"}


class IeeRegion:
    def __init__(self, mode, keysize, key1, key2, start, end, page_offset=0):
        self.mode, self.keysize = mode, keysize
        n1 = 16 if keysize == "CTR128XTS256" else 32
        n2 = 16 if (keysize == "CTR128XTS256" or mode.startswith("AesCTR")) else 32
        self.k1 = rev_words(key1[:n1])
        self.k2 = rev_words(key2[:n2])
        self.start, self.end = start, end  # [start, end)
        self.page_offset = page_offset
        self._tw = {}
        self._a1 = Aes(self.k1)
        self._a2 = Aes(self.k2) if mode == "AesXTS" else None

    def hit(self, a):
        return self.start <= a < self.end

    def decrypt_cell(self, a, cblock):
        """-> (address-derived input of the cipher, data)"""
        if self.mode == "Bypass":
            return 0, cblock
        if self.mode == "AesXTS":
            page, j = a >> 12, (a & 0xFFF) >> 4
            if (page, j) not in self._tw:
                t = self._a2.enc(page.to_bytes(16, "little"))
                for jj in range(256):
                    self._tw[(page, jj)] = t
                    t = gf_double(t)
            t = self._tw[(page, j)]
            return page, xor(self._a1.dec(xor(cblock, t)), t)
        if self.mode == "AesCTRWAddress":
            w = (int.from_bytes(self.k2[12:16], "big") + (a >> 4)) & 0xFFFFFFFF
            return a >> 4, xor(cblock, self._a1.enc(self.k2[:12] + w.to_bytes(4, "big")))
        raise NotImplementedError(self.mode)  # remaining CTR variants: not modelled (property claims absence of a crash only)


def iee_load_keyblobs(blob, ibkek1, ibkek2, keyblob_address, nblobs):
    """ROM view of the encrypted IEE key blob page. -> list of dicts"""
    plain = xts_decrypt_unit(rev_words(ibkek1), rev_words(ibkek2), keyblob_address >> 12, blob)
    res = []
    for i in range(nblobs):
        p = plain[96 * i: 96 * i + 96]
        tag, ver = struct.unpack_from("<II", p, 0)
        lock, ks, mode, rsv = p[8:12]
        po = struct.unpack_from("<I", p, 12)[0]
        key1, key2 = p[16:48], p[48:80]
        start, end, rsv2, crc = struct.unpack_from("<IIII", p, 80)
        d = {"tagOk": tag == 0x49454542 and ver == 0x56010000, "crcOk": crc == crc32_mpeg2(p[:92]), "lock": lock, "keysize": IEE_KEYSIZE.get(ks, "?"),
             "mode": IEE_MODES.get(mode, "?"), "po": po, "key1": key1, "key2": key2, "start": start, "end": end, "rsvOk": rsv == 0 and rsv2 == 0}
        d["region"] = IeeRegion(d["mode"], d["keysize"], key1, key2, start, end, po) if d["mode"] != "?" and d["keysize"] != "?" else None
        res.append(d)
    return res, plain


def iee_read(regions, a, cblock):
    for i, r in enumerate(regions, start=1):
        if r is not None and r.hit(a):
            inp, data = r.decrypt_cell(a, cblock)
            return i, inp, data
    return 0, 0, cblock
