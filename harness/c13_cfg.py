"""C13 - the configuration lane: SPSDK builds the objects itself from a DESCRIPTION.

The object route (c13.py: Otfad / OtfadNxp / Iee / IeeNxp / BeeNxp built from finished objects) never passes through the code that
turns a configuration into those objects: BeeNxp / OtfadNxp / IeeNxp.load_from_config and the `nxpimage bee|otfad|iee export`
commands.  What such a description may contain SEVERAL of is the case space of spec/C13/FlashEncGenCfg.tla (TLC enumerates it):
1..4 regions, two BEE engines, one or two `bee_engine` entries, generated / binary headers, equal / different keys, one or two data blobs.
 exec : every shape becomes a legal configuration (checked against the schemas) and goes through
          route "dict": check_config + X.load_from_config + export_image / export_headers / binary_image().export()
          route "cli" : a JSON / YAML file + spsdk.apps.nxpimage.bee_export / otfad_export / iee_export, results read back from the files
        and then exactly what the object route does: the ROM model loads the EXPORTED key blobs / region headers, the engine model reads the
        EXPORTED image cell by cell (c13.cell_events), whole = pieces for the unit-aligned cuts - and FlashEncTrace decides.
 This module only PRODUCES configurations and runs SPSDK; it makes no comparison of its own.
"""
import contextlib
import io
import json
import os
import shutil
import struct

import c13 as base
import c13_hw as hw
from lib.common import scratch

NCELLS = 16
OTFAD_CFG_FAMILIES = ["mimxrt1176", "mimxrt1189", "mimx9352", "mimxrt595s", "mimxrt1010", "mimxrt1166"]
IEE_CFG_FAMILIES = ["mimxrt1176", "mimxrt1166", "mimxrt1171"]
IEE_ELE_FAMILY = "mimxrt1189"      # single `key_blob`, no key-blob page is generated (the engine is programmed through ELE)
QUICK_EVERY = {"bee": 4, "otfad": 16, "iee": 8}   # quick tier: every n-th shape of every class (engine, selection, entries, kinds, key relation, data blobs, regions)


def shape_class(s):
    return (s["eng"], s["sel"], s["nent"], tuple(s["kinds"]), s["keyrel"], s["ndata"], len(s["regs"]))


# ------------------------------------------------------------------------------------------------ shape -> concrete case
def concretise_cfg(g, j, r, tier):
    """One shape of FlashEncGenCfg -> one concrete case in the format of c13.concretise (api "cfg").  j = running number of the case
    inside its engine: byte-level choices, the place of the image, the route and the spelling of the values rotate with it."""
    eng, unit = g["eng"], 4
    C = 1024 if eng == "iee" else 256
    regs = [dict(x) for x in sorted(g["regs"], key=lambda x: x["lo"])]
    lo_all, hi_all = regs[0]["lo"], regs[-1]["hi"]
    places = [(0, 0, NCELLS),                                                                      # the whole window
              (lo_all, 0, hi_all + 1 - lo_all),                                                    # first region's start .. last region's end
              (max(0, lo_all - unit), 0, min(NCELLS, hi_all + 1 + unit) - max(0, lo_all - unit))]  # one unit in front of / behind the regions
    if eng == "iee":
        places.append((lo_all, 0, max(1, hi_all - lo_all)))                                        # ends one cell before the last region does
    else:
        places.append((lo_all + 1, 16, max(1, hi_all - lo_all - 1)))                               # a base that is not unit aligned
    bcell, sub, lc = places[j % 4]
    tail = base.TAILS[(j // 4) % 5]
    ln = max(1, lc) * C + tail
    cf = {"route": ["dict", "cli"][(j // 2) % 2], "sel": g["sel"], "nent": g["nent"], "kinds": list(g["kinds"]), "keyrel": g["keyrel"], "entry": list(g["entry"]),
          "ndata": g["ndata"], "cut": None, "fmt": j % 3, "yaml": (j // 4) % 2 == 1, "samenonce": j % 2 == 1, "defaults": (j // 3) % 2 == 1}
    cc = {"eng": eng, "C": C, "unit": unit, "base": bcell, "sub": sub, "len": ln, "rule": "units", "origin": r.choice(base.ORIGINS), "api": "cfg", "kb": True, "cfg": cf}
    if g["ndata"] == 2:  # the image in two adjacent data blobs: cut at a cell boundary inside the image (IEE: a page boundary)
        lo = bcell * C + sub
        cells = [s for s in range(lo // C + 1, (lo + ln - 1) // C + 1) if eng != "iee" or s % unit == 0]
        if cells:
            cf["cut"] = cells[len(cells) // 2]
        else:
            cf["ndata"] = 1
    for i, x in enumerate(regs):
        x["style"] = r.choice(["incl", "excl"]) if eng == "otfad" else "excl"
        x["inp"] = {"otfad": "addr", "bee": "shr4"}.get(eng, "page")
        if eng == "bee":
            x["engine"] = g["slot"][i]
            x["level"] = r.randrange(4)
    r.shuffle(regs)  # the order of the key blobs / FAC regions in the configuration is not the address order
    if eng == "otfad":
        cc["nrec"], cc["swap"], cc["mode"] = 4, False, "ctr"
        cc["family"] = OTFAD_CFG_FAMILIES[(j // 2) % len(OTFAD_CFG_FAMILIES)]
        kind = j % 3
        cc["scr"] = None if kind == 0 else ([base.SCR_MASKS[(j // 3) % len(base.SCR_MASKS)], base.SCR_ALIGNS[(j // 15) % len(base.SCR_ALIGNS)], False] if kind == 1
                                            else [r.getrandbits(32), r.getrandbits(8), False])
        cc["kbswap"] = 0  # both are replaced by the family's values in the executor
        for x in regs:
            x["flags"] = {"on": 3, "byp": 1, "inv": r.choice([0, 2])}[x["fl"]] | r.choice([0, 4])
    elif eng == "bee":
        cc["nrec"] = len(regs)
        cc["mode"] = "ctr-cfg-" + g["sel"] + "-" + "+".join(g["kinds"])
        regs.sort(key=lambda x: x["engine"])  # records are read engine by engine
    else:
        cc["nrec"] = 4
        cf["ele"] = len(regs) == 1 and j % 3 == 0
        cc["family"] = IEE_ELE_FAMILY if cf["ele"] else IEE_CFG_FAMILIES[(j // 2) % len(IEE_CFG_FAMILIES)]
        for i, x in enumerate(regs):
            if x["fl"] == "byp":
                x["m"] = ["bypass", "Bypass", r.choice(["CTR128XTS256", "CTR256XTS512"])]
                x["inp"] = "none"
            else:
                # equal keys only mean something between key blobs of one mode and size: "same" keeps the mode of the first
                x["m"] = list(base.IEE_MODES[(j + (0 if g["keyrel"] == "same" else i)) % 4])
                x["inp"] = "page" if x["m"][1] == "AesXTS" else "shr4"
            x["lock"] = r.random() < 0.3
        cc["mode"] = "+".join(sorted({x["m"][0] for x in regs}))
    cc["regs"] = regs
    cc["var"] = "cfg:" + ":".join([cf["route"], g["sel"], "+".join(g["kinds"]), g["keyrel"], str(cf["ndata"])])
    return [cc]


def same_keys(cc, m):
    """keyrel "same": every key blob / both engines carry the same key material (c13.material draws independent values)."""
    cf = cc["cfg"]
    if m["plain"] and cc["eng"] != "bee":
        # data blobs are handed over as FILES and the loader detects their format from the content: a file of one or two white-space
        # characters is read as an empty text file ("can't be decoded").  Format detection is not C13's subject: no piece ends in such a byte.
        m["plain"] = m["plain"][:-1] + bytes([m["plain"][-1] | 0x80])
    if cf["keyrel"] == "same":
        m["regs"] = [dict(m["regs"][0]) for _ in m["regs"]]
        m["swkeys"][1] = m["swkeys"][0]
        if cf["samenonce"]:
            m["bnonce"][1] = m["bnonce"][0]
    return m


# ------------------------------------------------------------------------------------------------ running a configuration
def num(cf, a, k=0):
    """An address the way a configuration file may spell it: hexadecimal string or number."""
    return hex(a) if (cf["fmt"] + k) % 3 else a


def hexs(b):
    return "0x" + b.hex()


class Work:
    """A private directory per run of a configuration (removed afterwards)."""

    def __init__(self, cc, tag):
        self.dir = os.path.join(scratch(), "cfg", f"{cc['id']}-{tag}-{os.getpid()}")

    def __enter__(self):
        os.makedirs(self.dir, exist_ok=True)
        return self

    def __exit__(self, *a):
        shutil.rmtree(self.dir, ignore_errors=True)

    def put(self, name, data):
        with open(os.path.join(self.dir, name), "wb") as f:
            f.write(data)
        return name

    def get(self, *p):
        path = os.path.join(self.dir, *p)
        if not os.path.isfile(path):
            return None
        with open(path, "rb") as f:
            return f.read()

    def config_file(self, cf, cfg):
        path = os.path.join(self.dir, "config.yaml" if cf["yaml"] else "config.json")
        with open(path, "w") as f:
            if cf["yaml"]:
                import yaml

                yaml.safe_dump(cfg, f)
            else:
                json.dump(cfg, f)
        return path


def quiet(fn, *a):
    """The nxpimage functions report on stdout."""
    with contextlib.redirect_stdout(io.StringIO()):
        return fn(*a)


# ---------------------------------------------------------------- BEE
def bee_make_header(sw_key, kib_key, kib_iv, nonce, lock, facs):
    """An EXISTING region header (`bee_binary_cfg`), made here from the format alone (AES of c13_hw, no SPSDK): EKIB = ECB(sw key),
    EPRDB = CBC(kib key, kib iv) of tags / version / FAC count / envelope / mode CTR / lock / reversed nonce / FAC records."""
    prdb = struct.pack("<8I16s32s", 0x5F474154, 0x52444845, 0x56010000, len(facs), min(f[0] for f in facs), max(f[1] for f in facs), 1, lock, nonce[::-1], bytes(32))
    for s, e, lvl in facs:
        prdb += struct.pack("<3I20s", s, e, lvl, bytes(20))
    prdb = prdb.ljust(0x100, b"\0")
    aes, prev, enc = hw.Aes(kib_key), kib_iv, b""
    for i in range(0, len(prdb), 16):
        prev = aes.enc(hw.xor(prdb[i:i + 16], prev))
        enc += prev
    sw = hw.Aes(sw_key)
    return (sw.enc(kib_key) + sw.enc(kib_iv)).ljust(0x80, b"\0") + enc + bytes(0x200 - 0x180)


def bee(cc, m):
    """-> (export(plain, base address) -> (image, [header 0, header 1]),  locks and nonces the headers must carry (None = SPSDK draws it),
    deterministic?)"""
    cf = cc["cfg"]
    glocks = base.bee_locks(m)
    used = [e for e in (0, 1) if cf["entry"][e]]
    kind_of = {e: cf["kinds"][cf["entry"][e] - 1] for e in used}
    locks = {e: (glocks[e] if kind_of.get(e) == "bin" else 0) for e in (0, 1)}
    nonces = [m["bnonce"][e] if kind_of.get(e) == "bin" else None for e in (0, 1)]

    def export(plain, addr, tag="w"):
        from spsdk.image.bee import BeeNxp
        from spsdk.utils.schema_validator import check_config

        with Work(cc, tag) as w:
            w.put("plain.bin", plain)
            entries = []
            for i in range(1, cf["nent"] + 1):
                mine = [e for e in used if cf["entry"][e] == i]
                # an entry no engine is selected for: the regions of the selected engine under the OTHER engine's key - it must stay without effect
                e = mine[0] if mine else 1 - used[0]
                regs = [g for g in cc["regs"] if g["engine"] == (e if mine else used[0])]
                facs = [(base.addr_range(cc, g)[0], base.addr_range(cc, g)[1] + 1, g["level"]) for g in regs]
                key = m["swkeys"][e]
                if cf["kinds"][i - 1] == "bin":
                    name = w.put(f"in_ehdr{i}.bin", bee_make_header(key, m["kib"][e][0], m["kib"][e][1], m["bnonce"][e], glocks[e], facs))
                    entries.append({"bee_binary_cfg": {"header_path": name, "user_key": hexs(key)}})
                else:
                    entries.append({"bee_cfg": {"user_key": hexs(key), "protected_region": [
                        {"start_address": num(cf, s, k), "length": num(cf, en - s, k + 1), "protected_level": lvl} for k, (s, en, lvl) in enumerate(facs)]}})
            cfg = {"output_folder": "out", "input_binary": "plain.bin", "engine_selection": cf["sel"], "engine_key_selection": "random",
                   "base_address": num(cf, addr), "bee_engine": entries}
            if not cf["defaults"]:
                cfg.update({"output_name": "encrypted", "header_name": "bee_ehdr"})
            if cf["route"] == "cli":
                from spsdk.apps import nxpimage

                quiet(nxpimage.bee_export, w.config_file(cf, cfg))
                return w.get("out", "encrypted.bin"), [w.get("out", "bee_ehdr0.bin"), w.get("out", "bee_ehdr1.bin")]
            check_config(cfg, BeeNxp.get_validation_schemas(), search_paths=[w.dir])
            obj = BeeNxp.load_from_config(cfg, search_paths=[w.dir])
            return obj.export_image(), obj.export_headers()

    return export, locks, nonces, all(k == "bin" for k in kind_of.values())


# ---------------------------------------------------------------- OTFAD
def otfad(cc, m, kek, scr, table_address, base_addr):
    """-> build(pieces) -> whole flash image from the table address on; pieces = [(address, bytes), ...] (the data blobs)."""
    cf = cc["cfg"]

    def build(pieces, tag="w"):
        from spsdk.utils.crypto.otfad import OtfadNxp
        from spsdk.utils.schema_validator import check_config

        with Work(cc, tag) as w:
            blobs = []
            for k, (g, mg) in enumerate(zip(cc["regs"], m["regs"])):
                start, last = base.addr_range(cc, g)
                kb = {"aes_key": hexs(mg["key"][:16]), "aes_ctr": hexs(mg["ctr"]), "start_address": num(cf, start, k), "end_address": num(cf, last if g["style"] == "incl" else last + 1, k + 1)}
                for name, bit in (("valid", 1), ("aes_decryption_enable", 2), ("read_only", 4)):
                    if not (cf["defaults"] and g["flags"] & bit):  # True is the documented default of all three
                        kb[name] = bool(g["flags"] & bit)
                blobs.append(kb)
            cfg = {"family": cc["family"], "output_folder": "out", "kek": w.put("kek.bin", kek) if cf["fmt"] == 0 else hexs(kek), "otfad_table_address": num(cf, table_address),
                   "data_blobs": [{"data": w.put(f"data{k}.bin", p), "address": num(cf, a, k)} for k, (a, p) in enumerate(pieces)], "key_blobs": blobs}
            if scr:
                cfg["key_scramble"] = {"key_scramble_mask": num(cf, scr[0]), "key_scramble_align": num(cf, scr[1], 1)}
            if not cf["defaults"]:
                cfg.update({"output_name": "otfad_whole_image", "keyblob_name": "OTFAD_Table", "encrypted_name": "encrypted_blob", "generate_readme": False})
            if cf["route"] == "cli":
                from spsdk.apps import nxpimage

                start = min([a for a, _ in pieces] + [base.addr_range(cc, g)[0] for g in cc["regs"]])
                quiet(nxpimage.otfad_export, 512 if (start - table_address) % 512 == 0 else 16, w.config_file(cf, cfg), None)
                return w.get("out", "otfad_whole_image.bin")
            check_config(cfg, OtfadNxp.get_validation_schemas_family(), search_paths=[w.dir])
            check_config(cfg, OtfadNxp.get_validation_schemas(cc["family"]), search_paths=[w.dir])
            return OtfadNxp.load_from_config(cfg, w.dir, search_paths=[w.dir]).binary_image().export()

    return build


# ---------------------------------------------------------------- IEE
def iee(cc, m, kba):
    """-> build(pieces) -> whole flash image from the key-blob address on."""
    cf = cc["cfg"]

    def build(pieces, tag="w"):
        from spsdk.utils.crypto.iee import IeeNxp
        from spsdk.utils.schema_validator import check_config

        with Work(cc, tag) as w:
            blobs = []
            for k, (g, mg) in enumerate(zip(cc["regs"], m["regs"])):
                start, last = base.addr_range(cc, g)
                k1, k2 = base.iee_keys(g, mg)
                kb = {"aes_mode": g["m"][1], "key_size": g["m"][2], "key1": hexs(k1), "key2": hexs(k2), "start_address": num(cf, start, k), "end_address": num(cf, last + 1, k + 1)}
                if not (cf["defaults"] and not g["lock"]):
                    kb["region_lock"] = bool(g["lock"])
                if not cf["defaults"]:
                    kb["page_offset"] = 0
                blobs.append(kb)
            cfg = {"family": cc["family"], "output_folder": "out", "keyblob_address": num(cf, kba),
                   "data_blobs": [{"data": w.put(f"data{k}.bin", p), "address": num(cf, a, k)} for k, (a, p) in enumerate(pieces)]}
            if cf.get("ele"):
                cfg["key_blob"] = blobs[0]
            else:
                cfg.update({"ibkek1": hexs(m["ibkek1"]), "ibkek2": hexs(m["ibkek2"]), "key_blobs": blobs})
            if not cf["defaults"]:
                cfg.update({"output_name": "iee_whole_image", "keyblob_name": "iee_keyblob", "encrypted_name": "encrypted_blob", "generate_readme": False, "generate_fuses_script": False})
            if cf["route"] == "cli":
                from spsdk.apps import nxpimage

                quiet(nxpimage.iee_export, w.config_file(cf, cfg))
                return w.get("out", "iee_whole_image.bin")
            check_config(cfg, IeeNxp.get_validation_schemas_family(), search_paths=[w.dir])
            check_config(cfg, IeeNxp.get_validation_schemas(cc["family"]), search_paths=[w.dir])
            return IeeNxp.load_from_config(cfg, w.dir, search_paths=[w.dir]).binary_image().export()

    return build


def iee_configured_regions(cc, m):
    """`key_blob` families: no key-blob page exists, the engine is programmed (through ELE) with the CONFIGURED values."""
    out = []
    for g, mg in zip(cc["regs"], m["regs"]):
        start, last = base.addr_range(cc, g)
        k1, k2 = base.iee_keys(g, mg)
        out.append(hw.IeeRegion(g["m"][1], g["m"][2], k1.ljust(32, b"\0"), k2.ljust(32, b"\0"), start, last + 1, 0))
    return out
