"""C09 - histories of calls (spec/C09/CallHist.tla generates them, spec/C09/HistTrace.tla decides them).

The functions of spsdk.crypto.* are functions of their arguments: a result must not depend on what the process called before -
an accepted call, a REFUSED call (bad length, bad key size, bad IV, forgery), a call with the same key / IV / data.  TLC generates
the histories as sequences of abstract calls over SLOTS (two calls with the same slot and length get the same bytes); every history
is executed here on the real code in ONE fresh process (forked from a parent that has imported SPSDK but never called it), call by
call in that order; the expected bytes of every call are recomputed by TLC from CipherModes / Crc over the primitive evaluations of
that call alone.  Python only concretises, executes and records.
"""
import json
import os
import traceback

import c09 as M
from lib import c09ref as R
from lib import tlc
from lib.common import Machinery, rng
from lib.par import pmap

B = M.B
SLOT_LEN = 160


def preload():
    """Import everything a history may call BEFORE the workers are forked (importing calls none of the primitives)."""
    import spsdk.crypto.cmac  # noqa: F401
    import spsdk.crypto.crc  # noqa: F401
    import spsdk.crypto.hash  # noqa: F401
    import spsdk.crypto.hkdf  # noqa: F401
    import spsdk.crypto.spsdk_hmac  # noqa: F401
    import spsdk.crypto.symmetric  # noqa: F401
    import spsdk.image.keystore  # noqa: F401
    import spsdk.sbfile.sb31.functions  # noqa: F401


def material(r):
    def two(n):
        return [M.rb(r, n), M.rb(r, n)]

    mat = {"k": two(SLOT_LEN), "i": two(64), "d": two(SLOT_LEN)}
    for k in mat["k"]:  # XTS refuses a key whose halves are equal; slot keys are prefixes
        assert k[:16] != k[16:32] and k[:32] != k[32:64]
    return mat


def obs_none(fn, *a, **kw):
    out, v = M.observe(fn, *a, **kw)
    if out:
        return out
    if v is not None:
        return {"k": "badtype", "v": [], "x": type(v).__name__}
    return {"k": "ret", "v": [], "x": ""}


def _flip0(b):
    b = bytearray(b)
    b[len(b) // 2] ^= 0x04
    return bytes(b)


FAM = {"aes_ecb_encrypt": "ecb", "aes_ecb_decrypt": "ecb", "aes_cbc_encrypt": "cbc", "aes_cbc_decrypt": "cbc", "sm4_cbc_encrypt": "cbc", "sm4_cbc_decrypt": "cbc",
       "aes_ctr_encrypt": "ctr", "aes_ctr_decrypt": "ctr", "aes_xts_encrypt": "xts", "aes_xts_decrypt": "xts", "aes_ccm_encrypt": "ccm", "aes_ccm_decrypt": "ccm",
       "aes_key_wrap": "kw", "aes_key_unwrap": "kw", "cmac": "cmac", "cmac_validate": "cmac", "hmac": "hmac", "hmac_validate": "hmac", "get_hash": "hash", "hkdf": "hkdf",
       "derive_hmac_key": "ks", "derive_enc_image_key": "ks", "derive_sb_kek_key": "ks", "derive_otfad_kek_key": "ks", "derive_kdk": "sb31", "derive_block_key": "sb31",
       "crc_calc": "crc", "crc_verify": "crc", "Hash": "hobj", "Hash.update": "hobj", "Hash.update_int": "hobj", "Hash.finalize": "hobj",
       "KeyDerivator": "kobj", "KeyDerivator.get_block_key": "kobj"}


def do_call(c, mat, objs, shadow):
    """One abstract call -> one event (the real call is made exactly once, here)."""
    from spsdk.crypto import cmac as CM
    from spsdk.crypto import crc as CR
    from spsdk.crypto import hash as HM
    from spsdk.crypto import hkdf as HK
    from spsdk.crypto import spsdk_hmac as HH
    from spsdk.crypto import symmetric as S
    from spsdk.image.keystore import KeyStore
    from spsdk.sbfile.sb31 import functions as F

    f, x, kl, ml, n = c["f"], c["x"], c["kl"], c["ml"], c["n"]
    key = mat["k"][c["ks"] - 1][:kl]
    d = mat["d"][c["ds"] - 1][:ml]
    iv_mat = mat["i"][c["is"] - 1]
    fam = FAM[f]
    alg = ""
    akey = key if len(key) in (16, 24, 32) else None

    def ev(op, fn, a, out, prim, ref):
        e = M.mk(op, fn, "history", a, out, prim, ref, True)
        e["c"], e["fam"], e["alg"] = c, fam, alg
        return e

    if fam == "ecb":
        enc = f.endswith("encrypt")
        P = M.aes_prim(key) if akey else None
        ref = ((R.ecb_enc if enc else R.ecb_dec)(P, d)) if (P and len(d) % 16 == 0) else b""
        return ev("enc" if enc else "dec", f, {"key": B(key), "d": B(d)}, M.obs_bytes(getattr(S, f), key, d), P, ref)
    if fam == "cbc":
        alg = f[:3]
        enc = f.endswith("encrypt")
        g = x != "noiv"
        iv = iv_mat[:16] if x == "iv" else (iv_mat[:8] if x == "ivshort" else b"")
        key_ok = (kl == 16) if alg == "sm4" else (kl in (16, 24, 32))
        ok = key_ok and (not g or len(iv) == 16) and (enc or len(d) % 16 == 0)
        P = R.BlockPrim(alg, {1: key}) if key_ok else None
        ref = b""
        if ok:
            ref = R.cbc_enc(P, iv if g else bytes(16), R.pad0(d)) if enc else R.cbc_dec(P, iv if g else bytes(16), d)
        out = M.obs_bytes(getattr(S, f), key, d, iv) if g else M.obs_bytes(getattr(S, f), key, d)
        return ev("enc" if enc else "dec", f, {"key": B(key), "d": B(d), "ivg": g, "iv": B(iv)}, out, P, ref)
    if fam == "ctr":
        nonce = iv_mat[:8] if x == "nshort" else iv_mat[:16]
        P = M.aes_prim(key) if akey else None
        ref = R.ctr(P, nonce, d) if (P and len(nonce) == 16) else b""
        return ev("enc" if f.endswith("encrypt") else "dec", f, {"key": B(key), "d": B(d), "nonce": B(nonce)}, M.obs_bytes(getattr(S, f), key, d, nonce), P, ref)
    if fam == "xts":
        tweak = iv_mat[:16]
        h = len(key) // 2
        enc = f.endswith("encrypt")
        P = M.aes_prim(key[:h], key[h:])
        ref = R.xts(P, tweak, d, not enc) if len(d) >= 16 else b""
        return ev("enc" if enc else "dec", f, {"key": B(key), "d": B(d), "tweak": B(tweak)}, M.obs_bytes(getattr(S, f), key, d, tweak), P, ref)
    if fam == "ccm":
        nonce = iv_mat[:6] if x == "n6" else iv_mat[:12]
        aadg = x in ("full", "forged")
        aad = iv_mat[20:40] if aadg else b""
        tlg = n != 0
        tl = n if tlg else 16
        kw = {"tag_len": tl} if tlg else {}
        indom = akey is not None and 7 <= len(nonce) <= 13
        P = M.aes_prim(key) if akey else None
        if f == "aes_ccm_encrypt":
            ref = R.ccm_enc(P, nonce, d, aad, tl) if indom else b""
            out = M.obs_bytes(S.aes_ccm_encrypt, key, d, nonce, aad, **kw) if aadg else M.obs_bytes(S.aes_ccm_encrypt, key, d, nonce, **kw)
            return ev("enc", f, {"key": B(key), "d": B(d), "nonce": B(nonce), "aadg": aadg, "aad": B(aad), "tlg": tlg, "tl": tl}, out, P, ref)
        if x == "short":
            ct = d  # shorter than the tag
        else:
            ct = R.ccm_enc(M.aes_prim(key), nonce, d, aad, tl)  # made by the trusted base, not by SPSDK
            if x == "forged":
                ct = _flip0(ct)
        ok, pt = R.ccm_dec(P, nonce, ct, aad, tl)
        out = M.obs_bytes(S.aes_ccm_decrypt, key, ct, nonce, aad, **kw)
        return ev("dec", f, {"key": B(key), "d": B(ct), "nonce": B(nonce), "aadg": True, "aad": B(aad), "tlg": tlg, "tl": tl, "link": False}, out, P,
                  (b"\x01" + pt) if ok else b"\x00")
    if fam == "kw":
        P = M.aes_prim(key) if akey else None
        if f == "aes_key_wrap":
            dom = P is not None and len(d) % 8 == 0 and len(d) >= 16
            return ev("enc", f, {"key": B(key), "d": B(d)}, M.obs_bytes(S.aes_key_wrap, key, d), P, R.kw_wrap(P, d) if dom else b"")
        if x == "raw":
            ct = d
        else:
            ct = R.kw_wrap(M.aes_prim(key), d)
            if x == "forged":
                ct = _flip0(ct)
        ref = b""
        if P is not None and len(ct) % 8 == 0 and len(ct) >= 24:
            ok, pt = R.kw_unwrap(P, ct)
            ref = (b"\x01" + pt) if ok else b"\x00"
        return ev("dec", f, {"key": B(key), "d": B(ct), "link": False}, M.obs_bytes(S.aes_key_unwrap, key, ct), P, ref)
    if fam == "cmac":
        P = M.aes_prim(key) if akey else None
        mac = R.cmac(P, d) if P else b""
        if f == "cmac":
            return ev("mac", f, {"key": B(key), "d": B(d)}, M.obs_bytes(CM.cmac, key, d), P, mac)
        sig = R.cmac(M.aes_prim(key), d)
        if x == "bad":
            sig = _flip0(sig)
        return ev("verify", f, {"key": B(key), "d": B(d), "sig": B(sig)}, M.obs_bool(CM.cmac_validate, key, d, sig), P, mac)
    if fam == "hmac":
        sel = x.split("/")[0]
        algg = sel != "default"
        alg = sel if algg else "sha256"
        known = alg != "none"
        kw = {"algorithm": M.hash_enum(alg)} if algg else {}
        HP = R.HashPrim(alg) if known else None
        mac = R.hmac_(HP, key, d) if known else b""
        a = {"key": B(key), "d": B(d), "algg": algg, "alg": alg}
        if f == "hmac":
            return ev("mac", f, a, M.obs_bytes(HH.hmac, key, d, **kw), HP, mac)
        sig = R.hmac_(R.HashPrim(alg), key, d)
        if x.endswith("/bad"):
            sig = _flip0(sig)
        a["sig"] = B(sig)
        return ev("verify", f, a, M.obs_bool(HH.hmac_validate, key, d, sig, **kw), HP, mac)
    if fam == "hash":
        algg = x != "default"
        alg = x if algg else "sha256"
        known = alg != "none"
        HP = R.HashPrim(alg) if known else None
        out = M.obs_bytes(HM.get_hash, d, M.hash_enum(alg)) if algg else M.obs_bytes(HM.get_hash, d)
        return ev("hash", f, {"algg": algg, "alg": alg, "chunks": [{"t": "b", "v": B(d)}]}, out, HP, HP.H(d) if known else b"")
    if fam == "hkdf":
        info = iv_mat[:10] if x == "info" else b""
        HP = R.HashPrim("sha256")
        return ev("derive", f, {"salt": B(key), "ikm": B(d), "info": B(info), "L": n}, M.obs_bytes(HK.hkdf, key, d, info, n), HP, R.hkdf(HP, key, d, info, n))
    if fam == "ks":
        which = {"derive_hmac_key": "hmac", "derive_enc_image_key": "enc_image", "derive_sb_kek_key": "sb_kek", "derive_otfad_kek_key": "otfad"}[f]
        inp = d if which == "otfad" else b""
        ok = len(key) == 32 and (which != "otfad" or len(inp) == 16)
        P = M.aes_prim(key) if ok else None
        fn = getattr(KeyStore, f)
        out = M.obs_bytes(fn, key, inp) if which == "otfad" else M.obs_bytes(fn, key)
        return ev("derive", f, {"which": which, "key": B(key), "inp": B(inp)}, out, P, R.ks_derive(P, which, inp) if ok else b"")
    if fam == "sb31" or f == "KeyDerivator":
        rights = int(x[1:])
        const = int.from_bytes(d, "little")
        c12 = const.to_bytes(12, "little")
        ok = n in (128, 256) and rights in (0, 1, 2, 3)
        mode = "blk" if f == "derive_block_key" else "kdk"
        P = M.aes_prim(key) if (ok and akey) else None
        ref = R.sb31_derive(P, c12, rights, mode, n) if P else b""
        a = {"mode": mode, "key": B(key), "const": B(c12), "bits": n, "rights": rights, "link": False}
        if f == "KeyDerivator":
            def make():
                kd = F.KeyDerivator(pck=key, timestamp=const, key_length=n, kdk_access_rights=rights)
                objs[("kd", c["o"])] = kd
                shadow[("kd", c["o"])] = (n, rights, ref)  # the key-derivation key the reference model says the object holds
                return kd.kdk

            return ev("derive", f, a, M.obs_bytes(make), P, ref)
        return ev("derive", f, a, M.obs_bytes(F.derive_kdk if mode == "kdk" else F.derive_block_key, key, const, n, rights), P, ref)
    if f == "KeyDerivator.get_block_key":
        kd = objs.get(("kd", c["o"]))
        if kd is None:
            raise Machinery(f"history uses KeyDerivator object {c['o']} before it exists")
        bits, rights, kdk = shadow[("kd", c["o"])]
        const = int.from_bytes(d, "little")
        c12 = const.to_bytes(12, "little")
        P = M.aes_prim(kdk) if len(kdk) in (16, 24, 32) else None
        return ev("derive", f, {"mode": "blk", "key": B(kdk), "const": B(c12), "bits": bits, "rights": rights, "link": False}, M.obs_bytes(kd.get_block_key, const), P,
                  R.sb31_derive(P, c12, rights, "blk", bits) if P else b"")
    if fam == "crc":
        alg = x.split("/")[0]
        known = alg in R.CRC_PARAMS
        nb = R.CRC_PARAMS[alg][0] // 8 if known else 4
        ref = R.crc(alg, d).to_bytes(nb, "big") if known else b""

        def obj():
            if kl == 0:
                return CR.from_crc_algorithm(alg)
            k = ("crc", c["ks"], alg)
            if k not in objs:
                objs[k] = CR.from_crc_algorithm(alg)
            return objs[k]

        if f == "crc_calc":
            return ev("calc", "Crc.calculate", {"alg": alg, "d": B(d)}, M.obs_int(lambda: obj().calculate(d), nb), None, ref)
        val = int.from_bytes(ref, "big") ^ (0x10 if x.endswith("/bad") else 0)
        return ev("verify", "Crc.verify", {"alg": alg, "d": B(d), "crc": B(val.to_bytes(nb, "big"))}, M.obs_bool(lambda: obj().verify(d, val)), None, ref)
    if f == "Hash":
        algg = x != "default"
        alg = x if algg else "sha256"

        def make():
            objs[("h", c["o"])] = HM.Hash(M.hash_enum(alg)) if algg else HM.Hash()
            shadow[("h", c["o"])] = [alg, b""]

        return ev("hnew", f, {"algg": algg, "alg": alg}, obs_none(make), None, b"")
    h = objs.get(("h", c["o"]))
    if h is None:
        raise Machinery(f"history uses Hash object {c['o']} before it exists")
    sh = shadow[("h", c["o"])]
    if f == "Hash.update":
        out = obs_none(h.update, d)
        sh[1] += d
        return ev("hupd", f, {"d": B(d)}, out, None, b"")
    if f == "Hash.update_int":
        v = bytes([d[0] or 1]) + d[1:]
        out = obs_none(h.update_int, int.from_bytes(v, "big"))
        sh[1] += v
        return ev("hupd", f, {"d": B(v)}, out, None, b"")
    if f == "Hash.finalize":
        HP = R.HashPrim(sh[0])
        return ev("hfin", f, {}, M.obs_bytes(h.finalize), HP, HP.H(sh[1]) if c["dom"] else b"")
    raise Machinery(f"no executor for abstract call {c}")


def exec_history(tid, hist, salt):
    r = rng(M.PROP, "hist", salt, json.dumps(hist, sort_keys=True))
    mat = material(r)
    objs, shadow, evs = {}, {}, []
    for c in hist:
        evs.append(do_call(c, mat, objs, shadow))
    return {"id": tid, "hist": hist, "salt": salt, "mat": {k: [B(v[0]), B(v[1])] for k, v in mat.items()}, "ev": evs}


def run_history(job):
    """Execute one history in ONE fresh process: a fork of this worker, which has imported SPSDK and never called it."""
    tid, hist, salt = job
    rd, wr = os.pipe()
    pid = os.fork()
    if pid == 0:
        code = 0
        try:
            os.close(rd)
            data = json.dumps(exec_history(tid, hist, salt), separators=(",", ":")).encode()
        except BaseException:  # noqa: BLE001 - reported to the parent as a machinery failure
            data = b"!" + traceback.format_exc().encode()
            code = 3
        try:
            with os.fdopen(wr, "wb") as f:
                f.write(data)
        finally:
            os._exit(code)
    os.close(wr)
    with os.fdopen(rd, "rb") as f:
        data = f.read()
    _, status = os.waitpid(pid, 0)
    if status != 0 or data[:1] == b"!":
        raise Machinery(f"history {tid} could not be executed (status {status}): {data[:3000].decode(errors='replace')}")
    return json.loads(data)


def execute(jobs):
    preload()
    return pmap(run_history, jobs, chunksize=16)


def refused_before(t, j):
    return any(e["out"]["k"] != "ret" for e in t["ev"][:j])


def hist_key(t, j, clause, exp, got):
    ev = t["ev"][j]
    where = "first-call" if j == 0 else ("after-refused-call" if refused_before(t, j) else "after-accepted-calls")
    probe = dict(ev)
    probe["pc"] = f"history:{where}"
    return M.api_key(probe, clause, exp, got)


def describe(t, upto):
    return " ; ".join(f"{e['fn']}[{e['c']['x']},kl={e['c']['kl']},ml={e['c']['ml']},k{e['c']['ks']}i{e['c']['is']}d{e['c']['ds']}]->{e['out']['k']}" for e in t["ev"][:upto + 1])


def validate(v, traces, label, size=1500):
    rej, distinct = M.tv_parallel("HistTrace", traces, {"CRC_MAX": M.CRC_MAX}, max(size, (len(traces) + 5) // 6))
    v.extra["tv_states"] = v.extra.get("tv_states", 0) + distinct
    by_id = {t["id"]: t for t in traces}
    for tid, (matched, length, fn, clause, exp, got) in sorted(rej.items()):
        t = by_id[tid]
        ev = t["ev"][matched]
        if clause in ("oracle", "concretise"):
            raise Machinery(f"[{label}] history {tid} call {matched + 1} ({fn}): clause '{clause}' - the reference implementation / harness disagrees with the spec: "
                            + json.dumps({"hist": t["hist"], "ev": {k: x for k, x in ev.items() if k != 'tab'}})[:1800])
        key = hist_key(t, matched, clause, exp, got)
        slim = json.loads(json.dumps(t))
        for e in slim["ev"]:
            e["tab"] = f"<{len(e['tab'])} primitive evaluations>"
        v.violation(key, f"history of {len(t['ev'])} calls in one process, call {matched + 1} ({fn}): clause '{clause}' failed (the term of this call alone gives {exp}, observed {got}"
                         + (f" {ev['out']['x']}" if ev['out'].get('x') else "") + f"); calls so far: {describe(t, matched)}",
                    {"kind": "history", "hist": t["hist"], "salt": t.get("salt", 0), "trace": slim, "failed_event": matched + 1, "clause": clause})
    return rej


def generate(mode, deep, length=2, num=0):
    cfg = "CallHist_thorough.cfg" if deep else "CallHist.cfg"
    env = {"HIST_MODE": mode, "HIST_LEN": length}
    if mode == "pairs":
        g = tlc.run("C09", "CallHist", cfg, env=env, workers=1, deadlock=False, heap="4g", timeout=900)
    else:
        g = tlc.run("C09", "CallHist", cfg, env=env, workers=1, deadlock=False, heap="4g", timeout=900, simulate=f"num={num}", depth=length + 2)
    if g.violated:
        raise Machinery(f"CallHist ({mode}): {g.violated}")
    hists = [h for h in g.json_prints() if isinstance(h, list) and h and isinstance(h[0], dict) and "f" in h[0]]
    return g, hists
